NOTES = ("Every claimed check = EXTRACT (translator) -> lake build of Props/Cxx (kernel) -> axiom audit -> "
         "correspondence (compiled Lean model vs real code) -> known-finding replay; a broken proof or "
         "correspondence triggers a failing-input search on the real code before any VIOLATION is printed. "
         "Exit 2 = tool failure/timeout. See DESIGN.md.")
NOT_APPLICABLE = {}
CHECKS = {
    "C12": {
        "text": "Theorems (all byte strings, all lengths, both bit orders): decode(encode x)=x, output alphabet/length, equality with RFC 4648 group packing, padding-bit laws, integer codecs, transposed codecs; stated about a model whose chunk/tail expressions, alphabets, masks and offset tables are regenerated from the source on every run; real engines are compared with the compiled model on exhaustive 1-/2-byte groups and sampled/exhaustive 3-byte groups.",
        "note": "Trusted: Lean kernel; axioms propext/Classical.choice/Quot.sound; translator + harness; Spec.Rfc4648 transcription. binascii/base64 C codecs are external (modelled by the RFC transcription, compared on every generated input); a2b_base64's lenient skipping of foreign characters is outside the model.",
        "design_ref": "DESIGN.md §5 C12",
    },
    "C06": {
        "text": "Theorems: the map from the random source's value to getrandbytes/getrandstr output is injective and surjective onto the declared space for every size and alphabet (uniform source => uniform, independent output); the source is asked for exactly the space's size; bcrypt salt repair is exactly 16-to-1; declared salt parameters of every salted hasher are consistent (decide over the reflected registry). The extractor's shift/mask/div/mod expressions are regenerated from the source each run; real helpers, every salted hasher's salt generator and TOTP key generation are compared with the compiled model under a controlled random source.",
        "note": "Assumes SystemRandom / secrets.choice / rng.choice uniform. Float length-from-entropy is enumerated against the exact integer minimum (not proved). Context-level 'salt' refusal is checked on the real code here and modelled under C10.",
        "design_ref": "DESIGN.md §5 C06",
    },
    "C14": {
        "text": "Theorems for an arbitrary token generator (collisions allowed): the examined counters are exactly those with p*c <= t+s+w, t+s-w < p*(c+1), c >= max(last,0); accepted = earliest matching counter and later than last; used = earliest match is last; invalid = none matches; malformed iff the token does not normalise; over every history with feedback the accepted counters strictly increase (induction), hence no code twice. Window arithmetic is regenerated from totp.py each run; the real TOTP.match is compared with the compiled model exhaustively over small periods/windows/skews/last counters/times with colliding codes, on random large values, and on histories.",
        "note": "Assumes the application feeds back each accepted counter. Times are integers here (datetime normalisation is C13). Unicode digit tokens are treated as the code treats them (str.isdigit table reflected from the interpreter).",
        "design_ref": "DESIGN.md §5 C14",
    },
    "C13": {
        "text": "Theorems: dynamic truncation equals RFC 4226 DT for every digest of >= 20 bytes; the rendered token is the zero-padded decimal of DT mod 10^digits with exactly `digits` digits; counter = floor(time/period), start <= t < expire, expire - start = period; base32 and hex key texts round-trip and denote the same key; inserted separators, '=' and lower case are ignored. All expressions (offset, mask, slice, render shape, counter arithmetic, cleaning set) are regenerated from totp.py each run. Real TOTP objects are compared with the compiled model and an independent RFC implementation over keys x algorithms x digits x periods x times (ints, floats, naive/aware datetimes).",
        "note": "hashlib SHA digests and calendar.timegm are external (parameters of the model; timegm is compared with a days-from-civil formula).",
        "design_ref": "DESIGN.md §5 C13",
    },
    "C16": {
        "text": "Theorems: the _records/_source consistency invariant (keys unique; every live key has exactly one record token) is established by loading any text and preserved by every operation (set hash/password, delete, delete realm, check password with any context behaviour, failed operations included), hence holds after every history; the export writes (k,v) iff k currently maps to v and writes every user at most once; edits only append tokens (untouched lines keep place and order); a rendered record line parses back to the same record for separator-free names and plain hashes; refused names change nothing; dictionary semantics of set/delete/check. Correspondence: explicit-state exploration of all op sequences up to a bound and random sequences on the real HtpasswdFile/HtdigestFile (text/bytes args, two encodings, autosave and save/load on a temp dir), comparing every return value and to_string() with the compiled model and re-reading the export with an independent reader.",
        "note": "verify_and_update / htdigest.verify enter as parameters (their answers are recorded from the real context). mtime granularity is the OS's. Whole-file re-parse of the export is proved line-wise (record lines) and checked by the independent reader on every explored history.",
        "design_ref": "DESIGN.md §5 C16",
    },
    "C18": {
        "text": "Theorems (both marker styles, markers regenerated from the source): every string produced by disable() is identified as disabled, verifies False for every password (empty and the hash text itself included), disable is idempotent and normalises an existing marker, enable(disable(h)) = h for every non-empty non-marker hash, a bare marker cannot be enabled (value error), enabling a normal hash returns it unchanged, verify(None) is False with one dummy verification; lifted to contexts with the disabled hasher at any list position under the first-claimer rule. django_disabled: identified, never verifies, cannot be enabled. Correspondence: real CryptContexts (9 scheme lists, both markers) x original hashes x disable/enable histories against the compiled model.",
        "note": "Hypothesis NoEarlierClaimer: schemes before the disabled hasher do not claim marker-led/empty strings (checked for shipped contexts under C17). Multi-character custom markers (using(marker='!locked')) are outside the two marker styles the property names.",
        "design_ref": "DESIGN.md §5 C18",
    },
    "C09": {
        "text": "Theorems about a statement-order model of HasRounds.using() (Python truthiness of None/0 included): strict mode refuses every value outside the hard limits, relaxed mode clamps to the nearest limit, whatever a call sets lies inside the hard limits and the rest is inherited; a window given in one call is ordered; the default is clipped into the window; generated costs (optional variation, every random draw) stay inside an ordered window and are never flagged by the hasher's own update check; update check = outside window; every registered hasher's declared limits are sane (decide over the reflected registry); class-table frame theorem: any chain/interleaving of using() calls leaves attribute resolution of every pre-existing class unchanged. Two counterexample theorems pin the recorded findings. Correspondence: 10 real hashers x chains of using() x values inside/at/beyond limits x relaxed x int/str, generated rounds under a controlled RNG, update checks, attribute snapshots of all pre-existing classes.",
        "note": "Float vary_rounds enters as the integer the interpreter computes (atom); log2-cost + float vary is explored on the real code only. salt_size/ident/truncate_error customisation is explored by the search oracle and the attribute snapshots, not modelled in Lean yet. Open finding: chained using() can invert the window (the pinned suite requires that behaviour).",
        "design_ref": "DESIGN.md §5 C09",
    },
    "C11": {
        "text": "Theorems: passlib's table-driven DES (tables/masks reflected from the running module each run) equals the FIPS 46-3 construction with the crypt(3) salt swap and multi-round chaining for EVERY key, block, 24-bit salt and round count (des_model_eq_spec), via kernel-checked pinning of all 512 SPE entries, OR-linearity of every IE3264/CF6464/PCXROT row and agreement on the 64 unit vectors; exactly the out-of-range arguments are refused; 7->8 byte key expansion and shrink are inverse; parity bits are ignored; compile_hmac = RFC 2104 for an abstract digest and every key length; pbkdf1 = RFC 8018 PBKDF1. Correspondence: compiled model and FIPS transcription vs passlib.crypto.des (random, unit-vector, all 12-bit salts), vs OpenSSL's legacy DES-ECB, Lean digest transcriptions vs hashlib and passlib's md4, HMAC/PBKDF1/PBKDF2 vs passlib's entry points.",
        "note": "Model/Des.lean is a hand transcription of des.py tied by correspondence; Spec/* are transcriptions of the standards. MD4, scrypt and the Blowfish/bcrypt core are being added as separate theorem files (C11Md4/C11Scrypt/C11Blowfish); until then they are covered by correspondence/search only. saslprep is explored on the real code only.",
        "design_ref": "DESIGN.md §5 C11",
    },
}
