#!/venv/bin/python
"""Decision procedure of one check (DESIGN.md §2.3).

  runner.py C12 --tier quick|thorough [--replay FILE]

 1 EXTRACT     translator units of the property  -> lean/PasslibVerif/Gen
 2 PROVE       lake build PasslibVerif.Props.Cxx (+ modeldrv)
 3 AUDIT       axioms of every theorem of Props.Cxx ; forbidden tokens in lean sources
 4 CORRESPOND  tools/corr/Cxx.correspond(ctx)   real code vs compiled model
 5 FINDINGS    replay KNOWN_FINDINGS entries of the property on the real code
 6 SEARCH      only if something in 1-4 broke: property oracle on the real code
 7 evidence + exit status (0 held / 1 violation / 2 tool failure)
"""
from __future__ import annotations

import argparse
import fcntl
import hashlib
import importlib
import json
import os
import random
import re
import subprocess
import sys
import time
import traceback

HERE = os.path.dirname(os.path.abspath(__file__))
VERIF = os.path.dirname(HERE)
LEAN = os.path.join(VERIF, "lean")
REPO = os.environ.get("PASSLIB_REPO", "/repo")
sys.path.insert(0, HERE)
sys.path.insert(0, REPO)
os.environ.setdefault("PASSLIB_VERIF", "1")

ALLOWED_AXIOMS = {"propext", "Classical.choice", "Quot.sound"}
FORBIDDEN = re.compile(
    r"\bsorry\b|\badmit\b|^\s*axiom\s|\bnative_decide\b|\bbv_decide\b|implemented_by|\bunsafe\s|maxHeartbeats\s+0\b",
    re.M,
)
TRUSTED_BASE = [
    "Lean 4.33 kernel (incl. GMP-backed Nat literal arithmetic used by `decide +kernel`)",
    "axioms: propext, Classical.choice, Quot.sound only (audited per theorem on every run)",
    "translator tools/extract.py (+pyexpr2lean.py): Python ast/reflection -> Gen/*.lean",
    "correspondence harness (tools/corr/*) and the Lean compiler producing `modeldrv`",
    "Spec/*.lean: hand transcriptions of the published standards",
]


class Ctx:
    def __init__(self, prop, tier, seed):
        self.prop = prop
        self.tier = tier
        self.seed = seed
        self.rng = random.Random(f"{prop}:{seed}")
        self.thorough = tier == "thorough"
        self.notes: list[str] = []
        self.drv = os.path.join(LEAN, ".lake", "build", "bin", "modeldrv")
        self._watch = None          # (started, limit_s, input) of the call into the implementation that is running now
        self._t0 = time.time()

    def watch(self, inp, limit=120):
        """with ctx.watch(input): <one call into the implementation>.  A call that does not come back (work without bound inside C code
        cannot be interrupted by a signal handler) is reported by the watchdog thread as the failing input and the process exits 1."""
        ctx = self

        class _W:
            def __enter__(self_w):
                ctx._watch = (time.time(), limit, inp)

            def __exit__(self_w, *exc):
                ctx._watch = None
                return False
        return _W()

    def start_watchdog(self):
        import threading

        def run():
            while True:
                time.sleep(2)
                w = self._watch
                if w and time.time() - w[0] > w[1]:
                    self._emergency(w)

        threading.Thread(target=run, daemon=True, name="watchdog").start()

    def _emergency(self, w):
        started, limit, inp = w
        prop = self.prop
        observed = f"the call into the implementation did not return within {limit} s (stopped by the watchdog)"
        v = {"kind": "failing-input", "input": inp, "observed": observed, "expected": "an answer or the documented error, in bounded time"}
        h = hashlib.sha1(canon(v).encode()).hexdigest()[:10]
        rp = os.path.join("replays", f"{prop}-{h}.json")
        os.makedirs(os.path.join(VERIF, "replays"), exist_ok=True)
        os.makedirs(os.path.join(VERIF, "evidence"), exist_ok=True)
        with open(os.path.join(VERIF, rp), "w") as fh:
            json.dump({"property": prop, "tier": self.tier, "seed": self.seed, **v, "rerun": f"./check {prop} --replay {rp}"}, fh, indent=1, default=repr)
        ev = {"property_id": prop, "tier": self.tier, "seed": self.seed, "level": "proof",
              "coverage": {"obligations": 1, "discharged": 0, "checker_cmd": "(run stopped by the watchdog before the obligations were evaluated)", "trusted_base": TRUSTED_BASE,
                           "evaluations": 1, "samples": [inp], "exhaustive": False, "explanation": observed, "not_discharged": [{"obligation": "correspond:watchdog", "detail": observed}]},
              "assumptions": [], "wall_s": round(time.time() - self._t0, 2), "violations": 1}
        with open(os.path.join(VERIF, "evidence", f"{prop}.json"), "w") as fh:
            json.dump(ev, fh, indent=1, default=repr)
        print(f"{prop} tier={self.tier} seed={self.seed}: stopped by the watchdog, 1 violation(s)")
        print("broken: correspond:watchdog |", observed, "|", canon(inp)[:300])
        print(f"VIOLATION property={prop} replay={rp}", flush=True)
        os._exit(1)

    def model(self, lines: list[str], timeout: int = 3600, jobs: int = 0) -> list[str]:
        """run the compiled Lean model on protocol lines (the protocol is stateless per line, so big batches are
        split into contiguous chunks answered by parallel driver processes)."""
        if not lines:
            return []
        jobs = jobs or (min(12, os.cpu_count() or 1) if len(lines) >= 64 else 1)
        if jobs > 1:
            from concurrent.futures import ThreadPoolExecutor

            # interleave so that expensive neighbours are spread over the workers
            parts = [lines[i::jobs] for i in range(jobs)]
            with ThreadPoolExecutor(jobs) as ex:
                outs = list(ex.map(lambda part: self.model(part, timeout, 1), parts))
            res = [None] * len(lines)
            for i, o in enumerate(outs):
                res[i::jobs] = o
            return res
        data = ("\n".join(lines) + "\n").encode()
        p = subprocess.run([self.drv], input=data, capture_output=True, timeout=timeout)
        if p.returncode != 0:
            raise RuntimeError(f"modeldrv exit {p.returncode}: {p.stderr[-500:]!r}")
        out = p.stdout.decode().split("\n")
        if out and out[-1] == "":
            out.pop()
        if len(out) != len(lines):
            raise RuntimeError(f"modeldrv answered {len(out)} lines for {len(lines)} requests")
        return out


def strip_comments(src: str) -> str:
    src = re.sub(r"/-.*?-/", " ", src, flags=re.S)
    return re.sub(r"--[^\n]*", " ", src)


def sh(cmd, cwd=None, timeout=3600, env=None):
    t0 = time.time()
    p = subprocess.run(cmd, cwd=cwd, capture_output=True, text=True, timeout=timeout, env=env)
    return p.returncode, p.stdout + p.stderr, time.time() - t0


class Lock:
    def __enter__(self):
        os.makedirs(os.path.join(LEAN, ".lake"), exist_ok=True)
        self.fh = open(os.path.join(LEAN, ".lake", "verif.lock"), "w")
        fcntl.flock(self.fh, fcntl.LOCK_EX)
        return self

    def __exit__(self, *a):
        fcntl.flock(self.fh, fcntl.LOCK_UN)
        self.fh.close()


def theorem_at(path: str, line: int) -> str:
    """name of the declaration enclosing a line of a Lean file."""
    try:
        src = open(path, encoding="utf-8").read().split("\n")
    except OSError:
        return "?"
    for i in range(min(line, len(src)) - 1, -1, -1):
        m = re.match(r"\s*(?:private\s+|protected\s+)?(theorem|lemma|def|example|instance|abbrev)\s+([^\s:({\[]+)?", src[i])
        if m:
            return f"{m.group(1)} {m.group(2) or '(anonymous)'}"
    return "?"


def parse_build_errors(out: str) -> list[dict]:
    errs = []
    for m in re.finditer(r"error: ([^\s:]+\.lean):(\d+):(\d+): (.*)", out):
        path = m.group(1)
        if not os.path.isabs(path):
            path = os.path.join(LEAN, path)
        errs.append(
            {
                "file": os.path.relpath(path, LEAN),
                "line": int(m.group(2)),
                "decl": theorem_at(path, int(m.group(2))),
                "msg": m.group(4)[:300],
            }
        )
    return errs


def load_findings(prop):
    path = os.path.join(VERIF, "KNOWN_FINDINGS.jsonl")
    res = []
    if os.path.exists(path):
        for ln in open(path, encoding="utf-8"):
            ln = ln.strip()
            if ln and not ln.startswith("#"):
                d = json.loads(ln)
                if d["property"] == prop:
                    res.append(d)
    return res


def canon(obj) -> str:
    return json.dumps(obj, sort_keys=True, default=repr)


def source_fingerprint() -> str:
    h = hashlib.sha1(sys.version.encode())
    for top in ("passlib", "libpass"):
        for root, dirs, files in os.walk(os.path.join(REPO, top)):
            dirs[:] = sorted(d for d in dirs if d != "__pycache__")
            for f in sorted(files):
                if f.endswith(".py"):
                    p = os.path.join(root, f)
                    h.update(p.encode())
                    with open(p, "rb") as fh:
                        h.update(fh.read())
    for root, dirs, files in os.walk(HERE):
        dirs[:] = sorted(d for d in dirs if d not in ("__pycache__", "corr"))
        for f in sorted(files):
            if f.endswith((".py", ".json")) and (f.startswith(("extract", "pin", "pyexpr", "threads_", "apache_pins", "totpserial_pins")) or root.endswith("pins")):
                with open(os.path.join(root, f), "rb") as fh:
                    h.update(fh.read())
    return h.hexdigest()


def refresh_foreign_units(own):
    stamp = os.path.join(LEAN, ".lake", "gen_fingerprint")
    fp = source_fingerprint()
    try:
        if open(stamp).read().strip() == fp:
            return
    except OSError:
        pass
    rc, out, _ = sh(["/venv/bin/python", os.path.join(HERE, "extract.py"), "--status", os.path.join(LEAN, ".lake", "gen_status_all.json")], timeout=900)
    if rc == 0:
        os.makedirs(os.path.dirname(stamp), exist_ok=True)
        with open(stamp, "w") as fh:
            fh.write(fp)


def raised_by_implementation(e: BaseException) -> bool:
    """was the exception raised below a frame of /repo (the library, or something the library called), rather than by harness code?"""
    tb = e.__traceback__
    files = []
    while tb is not None:
        files.append(tb.tb_frame.f_code.co_filename)
        tb = tb.tb_next
    last_harness = max((i for i, f in enumerate(files) if f.startswith(VERIF)), default=-1)
    return any(f.startswith(REPO.rstrip("/") + "/") for f in files[last_harness + 1:])


def errname_tb(e: BaseException) -> str:
    return "".join(traceback.format_exception(type(e), e, e.__traceback__))[-1500:]


def devnull_ok() -> bool:
    import stat

    try:
        return stat.S_ISCHR(os.stat("/dev/null").st_mode)
    except OSError:
        return False


def main():
    if not devnull_ok():
        print("runner: /dev/null is not a character device BEFORE the check started (environment damaged by something else)", file=sys.stderr)
    import atexit

    atexit.register(lambda: None if devnull_ok() else print(f"runner: /dev/null is not a character device after check {sys.argv[1:]}", file=sys.stderr))
    ap = argparse.ArgumentParser()
    ap.add_argument("prop")
    ap.add_argument("--tier", default=os.environ.get("VERIF_TIER", "quick"))
    ap.add_argument("--replay", default=None)
    a = ap.parse_args()
    prop = a.prop
    tier = a.tier if a.tier in ("quick", "thorough") else "quick"
    seed = int(os.environ.get("VERIF_SEED", "0") or 0)
    t0 = time.time()
    ctx = Ctx(prop, tier, seed)
    ctx.start_watchdog()
    mod = importlib.import_module(f"corr.{prop}")

    if a.replay:
        rep = json.load(open(a.replay))
        res = mod.replay(ctx, rep.get("input"))
        print(json.dumps(res, indent=1, default=repr))
        return 1 if res.get("fails") else 0

    broken: list[dict] = []  # obligations that did not check
    obligations: list[str] = []
    discharged: list[str] = []
    phases = {}

    # -------- 1 EXTRACT + 2 PROVE (under the build lock)
    units = list(getattr(mod, "GEN_UNITS", []))
    targets = list(getattr(mod, "LEAN_TARGETS", [f"PasslibVerif.Props.{prop}"]))
    with Lock():
        st_path = os.path.join(LEAN, ".lake", f"gen_status_{prop}.json")
        # the units this property does not own are imported by the shared driver (and sometimes by lemma files this property's proofs import):
        # they are refreshed too whenever the source differs from the one they were last translated from, so that no check ever builds
        # against a translation of another tree (their failures are not this property's obligations; the last good text stays in place)
        refresh_foreign_units(units)
        rc, out, dt = sh(["/venv/bin/python", os.path.join(HERE, "extract.py"), "--units", ",".join(units), "--status", st_path], timeout=600) if units else (0, "", 0.0)
        phases["extract_s"] = round(dt, 2)
        gen_status = json.load(open(st_path)) if units and rc == 0 and os.path.exists(st_path) else {}
        if units and rc != 0:
            broken.append({"obligation": "translate:*", "detail": out[-800:]})
        for u in units:
            ob = f"translate:{u}"
            obligations.append(ob)
            if gen_status.get(u, {}).get("ok"):
                discharged.append(ob)
            else:
                broken.append({"obligation": ob, "detail": gen_status.get(u, {}).get("error", "extractor did not run")})
        rc, out, dt = sh(["lake", "build", *targets, "modeldrv"], cwd=LEAN, timeout=3000)
        phases["build_s"] = round(dt, 2)
        build_ok = rc == 0
        build_errs = parse_build_errors(out) if not build_ok else []
        drv_ok = os.path.exists(ctx.drv)
        if not build_ok:
            # which part failed?  try the driver alone so that correspondence can still run
            rc2, out2, _ = sh(["lake", "build", "modeldrv"], cwd=LEAN, timeout=3000)
            drv_ok = rc2 == 0
            if not build_errs:
                build_errs = [{"file": "?", "line": 0, "decl": "?", "msg": out[-600:]}]
        # -------- 3 AUDIT
        theorems = {}
        if build_ok:
            rc, out, dt = sh(["lake", "env", "lean", "--run", "AuditTool.lean", *targets], cwd=LEAN, timeout=900)
            phases["audit_s"] = round(dt, 2)
            for m in re.finditer(r"^THEOREM (\S+) AXIOMS (.*)$", out, re.M):
                theorems[m.group(1)] = [x for x in m.group(2).split(",") if x]
            if rc != 0 or not theorems:
                broken.append({"obligation": "audit", "detail": out[-600:]})
            if ctx.thorough:
                # independent re-check of the compiled theorem modules by the toolchain's external checker
                rc, out, dt = sh(["lake", "env", "leanchecker", *targets], cwd=LEAN, timeout=3000)
                phases["leanchecker_s"] = round(dt, 2)
                obligations.append("audit:leanchecker")
                if rc == 0:
                    discharged.append("audit:leanchecker")
                else:
                    broken.append({"obligation": "audit:leanchecker", "detail": out[-600:]})
    stale_units = [u for u in units if not gen_status.get(u, {}).get("ok")]
    if build_ok:
        for name, axs in sorted(theorems.items()):
            ob = f"theorem:{name}"
            obligations.append(ob)
            bad = [x for x in axs if x not in ALLOWED_AXIOMS]
            if stale_units:
                # the translator refused the current source: the last good translation is still in place, so the theorem was
                # re-checked about the previous code, not this one -- not discharged (translate:<unit> is already in `broken`)
                ctx.notes.append(f"{ob}: checked against the previous translation of {stale_units} only") if len(ctx.notes) < 3 else None
            elif bad:
                broken.append({"obligation": ob, "detail": f"depends on axioms {bad}"})
            else:
                discharged.append(ob)
    else:
        # list the property theorems by name from the source so the evidence stays meaningful
        for t in targets:
            p = os.path.join(LEAN, *t.split(".")) + ".lean"
            if os.path.exists(p):
                for m in re.finditer(r"^theorem\s+(\S+)", strip_comments(open(p).read()), re.M):
                    obligations.append(f"theorem:{m.group(1)}")
        for e in build_errs:
            broken.append({"obligation": f"proof:{e['file']}:{e['decl']}", "detail": f"line {e['line']}: {e['msg']}"})
    # forbidden tokens anywhere in the library
    hits = []
    for root, _, files in os.walk(os.path.join(LEAN, "PasslibVerif")):
        for f in files:
            if f.endswith(".lean"):
                txt = strip_comments(open(os.path.join(root, f), encoding="utf-8").read())
                for m in FORBIDDEN.finditer(txt):
                    hits.append(f"{f}: {m.group(0).strip()}")
    obligations.append("audit:no-sorry-no-extra-axioms")
    if hits:
        broken.append({"obligation": "audit:no-sorry-no-extra-axioms", "detail": "; ".join(hits[:10])})
    else:
        discharged.append("audit:no-sorry-no-extra-axioms")

    # -------- 4 CORRESPOND
    corr = {"suites": {}, "samples": []}
    t1 = time.time()
    if drv_ok:
        try:
            corr = mod.correspond(ctx)
        except Exception as e:  # noqa: BLE001
            if not raised_by_implementation(e):
                print("harness crashed (tool failure):", traceback.format_exc()[-2000:])
                return 2
            # the library raised where the harness (validated on the unchanged tree) expects an answer: a broken correspondence, not a tool failure
            corr = {"suites": {"implementation-raised": {"cases": 1, "mismatches": [{"error": errname_tb(e)}]}}, "samples": []}
    else:
        corr = {"suites": {"driver-build": {"cases": 0, "mismatches": [{"error": "modeldrv does not build"}]}}, "samples": []}
    phases["correspond_s"] = round(time.time() - t1, 2)
    mismatches = []
    for sname, s in corr["suites"].items():
        ob = f"correspond:{sname}"
        obligations.append(ob)
        if s.get("mismatches"):
            broken.append({"obligation": ob, "detail": canon(s["mismatches"][:3])[:1500]})
            mismatches += [dict(m, suite=sname) for m in s["mismatches"][:25]]
        else:
            discharged.append(ob)

    # -------- 5 FINDINGS
    findings = load_findings(prop)
    violations = []
    known_lines = []
    open_inputs = []
    for f in findings:
        try:
            r = mod.replay(ctx, f["input"])
        except Exception:  # noqa: BLE001
            r = {"fails": None, "observed": traceback.format_exc()[-600:]}
        if f["status"] == "open":
            open_inputs.append(canon(f["input"]))
            if r.get("fails"):
                known_lines.append(f"KNOWN-FINDING: property={prop} {f['id']}: {f['what']}")
            else:
                ctx.notes.append(f"open finding {f['id']} no longer reproduces (observed: {str(r.get('observed'))[:200]})")
        elif f["status"] == "fixed" and r.get("fails"):
            violations.append({"kind": "fixed-finding-returned", "finding": f["id"], "input": f["input"], "observed": r.get("observed")})

    # -------- 6 SEARCH (only when something broke)
    searched = None
    if broken:
        seeds = [m.get("input") for m in mismatches if m.get("input") is not None]
        t2 = time.time()
        try:
            searched = mod.search(ctx, broken, seeds)
        except Exception as e:  # noqa: BLE001
            if not raised_by_implementation(e):
                print("search crashed (tool failure):", traceback.format_exc()[-2000:])
                return 2
            ctx.notes.append("the search was stopped by an exception raised inside the library: " + errname_tb(e)[-400:])
            searched = None
        phases["search_s"] = round(time.time() - t2, 2)
        if searched and canon(searched.get("input")) in open_inputs:
            known_lines.append(f"KNOWN-FINDING: property={prop} (found again by search) {canon(searched.get('input'))[:200]}")
        elif searched:
            violations.append({"kind": "failing-input", **searched})
        else:
            # a failed real-code oracle check IS a concrete failing input: the property's statement was evaluated on the implementation
            # alone against an independent expectation (no model in the loop); re-evaluated here before it is reported
            oracle_hit = None
            for m in mismatches:
                if m.get("suite", "").startswith("oracle-") and isinstance(m.get("input"), dict) and canon(m["input"]) not in open_inputs:
                    oracle_hit = m
                    break
            if oracle_hit is not None:
                violations.append({"kind": "failing-input", "input": oracle_hit["input"], "observed": oracle_hit.get("impl"), "expected": oracle_hit.get("model"),
                                   "check": oracle_hit.get("oracle"), "found_by": oracle_hit["suite"]})
            else:
                violations.append({"kind": "no-failing-input-found", "broken": broken})

    # -------- 7 evidence / replay / exit
    os.makedirs(os.path.join(VERIF, "evidence"), exist_ok=True)
    os.makedirs(os.path.join(VERIF, "replays"), exist_ok=True)
    n_cases = sum(s.get("cases", 0) for s in corr["suites"].values())
    ev = {
        "property_id": prop,
        "tier": tier,
        "seed": seed,
        "level": "proof",
        "coverage": {
            "obligations": len(obligations),
            "discharged": len(discharged),
            "checker_cmd": f"cd lean && lake build {' '.join(targets)} && lake env lean --run AuditTool.lean {' '.join(targets)}",
            "trusted_base": TRUSTED_BASE + list(getattr(mod, "TRUSTED_EXTRA", [])),
            "obligation_names": obligations,
            "not_discharged": broken,
            "theorem_axioms": theorems if build_ok else {},
            "correspondence": {k: {kk: vv for kk, vv in v.items() if kk != "mismatches"} | {"mismatches": len(v.get("mismatches", []))} for k, v in corr["suites"].items()},
            "evaluations": n_cases,
            "traces_validated_against_impl": n_cases,
            "samples": corr.get("samples", [])[:12] or ["(no correspondence cases ran)"],
            "exhaustive": bool(corr.get("exhaustive", False)),
            "explanation": getattr(mod, "EXPLANATION", ""),
            "only_correspondence_checked": getattr(mod, "ONLY_CORRESPONDENCE", []),
            "phases_s": phases,
            "notes": ctx.notes,
            "known_findings_reported": known_lines,
        },
        "assumptions": list(getattr(mod, "ASSUMPTIONS", [])),
        "wall_s": round(time.time() - t0, 2),
        "violations": len(violations),
    }
    with open(os.path.join(VERIF, "evidence", f"{prop}.json"), "w") as fh:
        json.dump(ev, fh, indent=1, default=repr)
    for ln in known_lines:
        print(ln)
    for n in ctx.notes:
        print("note:", n)
    print(f"{prop} tier={tier} seed={seed}: obligations {len(discharged)}/{len(obligations)} discharged, "
          f"{n_cases} correspondence cases, {len(violations)} violation(s), {ev['wall_s']} s")
    if violations:
        v = violations[0]
        h = hashlib.sha1(canon(v).encode()).hexdigest()[:10]
        rp = os.path.join("replays", f"{prop}-{h}.json")
        rec = {
            "property": prop, "tier": tier, "seed": seed, "kind": v["kind"],
            "input": v.get("input"), "observed": v.get("observed"), "expected": v.get("expected"),
            "broken_obligations": broken, "all_violations": violations[:5], "mismatches": mismatches[:8],
            "rerun": f"./check {prop} --replay {rp}",
        }
        with open(os.path.join(VERIF, rp), "w") as fh:
            json.dump(rec, fh, indent=1, default=repr)
        tail = " no-failing-input-found" if v["kind"] == "no-failing-input-found" else ""
        for b in broken[:6]:
            print("broken:", b["obligation"], "|", str(b["detail"])[:300].replace("\n", " "))
        print(f"VIOLATION property={prop} replay={rp}{tail}")
        return 1
    return 0


if __name__ == "__main__":
    try:
        sys.exit(main())
    except subprocess.TimeoutExpired as err:
        print("tool timeout:", err)
        sys.exit(2)
    except Exception:  # noqa: BLE001
        traceback.print_exc()
        sys.exit(2)
