#!/usr/bin/env python3
"""dev helper: confirm seeded defects and run the checks against them.

usage: seedtest.py import Cxx /tmp/wt_Cxx/_seed [offset]     copy seeds into /verif/seeded/Cxx/seedK/{patch.diff,demo.py,meta.json}
       seedtest.py run Cxx [seedK ...] [--checks C01,C02] [--tier quick]
For each seed: the demo must exit 0 on the clean /repo and 1 with the patch applied (git -C /repo apply; undone with
git -C /repo checkout -- . afterwards, always).  Then the listed checks (default: the seed's own property) are run on the patched
tree; the result (exit code, VIOLATION line, whether a concrete failing input was found) is written to seeded/Cxx/seedK/result.json.
"""
import glob
import json
import os
import re
import shutil
import subprocess
import sys

VERIF = os.path.dirname(os.path.dirname(os.path.abspath(__file__)))
REPO = "/repo"
PY = "/venv/bin/python"


def sh(cmd, cwd=None, env=None, timeout=3600):
    p = subprocess.run(cmd, cwd=cwd, env=env, capture_output=True, text=True, timeout=timeout)
    return p.returncode, p.stdout + p.stderr


def clean_repo():
    rc, out = sh(["git", "-C", REPO, "status", "--porcelain"])
    return out.strip() == ""


def do_import(prop, src, offset=0):
    for patch in sorted(glob.glob(os.path.join(src, "seed*.patch"))):
        k = re.search(r"seed(\d+)\.patch", patch).group(1)
        dst = os.path.join(VERIF, "seeded", prop, f"seed{int(k) + offset}")
        os.makedirs(dst, exist_ok=True)
        shutil.copy(patch, os.path.join(dst, "patch.diff"))
        for a, b in ((f"seed{k}_demo.py", "demo.py"), (f"seed{k}_meta.json", "meta.json")):
            if os.path.exists(os.path.join(src, a)):
                shutil.copy(os.path.join(src, a), os.path.join(dst, b))
        print("imported", dst)


def do_run(prop, seeds, checks, tier):
    base = os.path.join(VERIF, "seeded", prop)
    seeds = seeds or sorted(os.listdir(base))
    for sd in seeds:
        d = os.path.join(base, sd)
        if not os.path.isdir(d):
            continue
        assert clean_repo(), "/repo is not clean"
        res = {"property": prop, "seed": sd, "checks": {}}
        if os.path.exists(os.path.join(d, "result.json")):
            try:
                res["checks"] = json.load(open(os.path.join(d, "result.json"))).get("checks", {})
            except Exception:  # noqa: BLE001
                pass
        env = dict(os.environ, PYTHONPATH=REPO)
        demo = os.path.join(d, "demo.py")
        if os.path.exists(demo):
            rc, out = sh([PY, demo], cwd=REPO, env=env, timeout=900)
            res["demo_clean_exit"] = rc
        rc, out = sh(["git", "-C", REPO, "apply", os.path.join(d, "patch.diff")])
        if rc != 0:
            res["apply_error"] = out[-400:]
            print(sd, "patch does not apply:", out[-200:])
            json.dump(res, open(os.path.join(d, "result.json"), "w"), indent=1)
            continue
        try:
            if os.path.exists(demo):
                rc, out = sh([PY, demo], cwd=REPO, env=env, timeout=900)
                res["demo_seeded_exit"] = rc
                res["demo_seeded_tail"] = out[-500:]
            for c in checks or [prop]:
                rc, out = sh(["./check", c, "--tier", tier], cwd=VERIF, timeout=3000)
                vio = [l for l in out.split("\n") if l.startswith("VIOLATION")]
                res["checks"][c] = {"exit": rc, "violation": vio[:2], "concrete_input": bool(vio) and not vio[0].rstrip().endswith("no-failing-input-found"),
                                    "broken": [l[:300] for l in out.split("\n") if l.startswith("broken:")][:4]}
                print(sd, c, "exit", rc, (vio[0] if vio else "no VIOLATION line")[:160])
        finally:
            sh(["git", "-C", REPO, "checkout", "--", "."])
            # evidence / replays written while a seed was applied describe the SEEDED tree: never leave them in place to be committed
            sh(["git", "-C", VERIF, "checkout", "--", "evidence"])
        json.dump(res, open(os.path.join(d, "result.json"), "w"), indent=1)
    assert clean_repo()


if __name__ == "__main__":
    if sys.argv[1] == "import":
        do_import(sys.argv[2], sys.argv[3], int(sys.argv[4]) if len(sys.argv) > 4 else 0)
    else:
        prop = sys.argv[2]
        args = sys.argv[3:]
        checks, tier, seeds = None, "quick", []
        i = 0
        while i < len(args):
            if args[i] == "--checks":
                checks = args[i + 1].split(",")
                i += 2
            elif args[i] == "--tier":
                tier = args[i + 1]
                i += 2
            else:
                seeds.append(args[i])
                i += 1
        do_run(prop, seeds, checks, tier)
