#!/usr/bin/env python3
"""(re)write MANIFEST.json from tools/manifest_data.py — keeps it schema-valid."""
import json, os, sys
HERE = os.path.dirname(os.path.abspath(__file__))
sys.path.insert(0, HERE)
import manifest_data as md

props = [json.loads(l)["id"] for l in open(os.path.join(HERE, "..", "properties.jsonl"))]
checks = []
na = []
for pid in props:
    c = md.CHECKS.get(pid)
    if c is None:
        na.append({"property_id": pid, "reason": md.NOT_APPLICABLE.get(pid, "machinery for this property is not built yet in this commit (planned, see DESIGN.md §5); not claimed")})
        continue
    checks.append({
        "property_id": pid,
        "quick_cmd": f"./check {pid} --tier quick",
        "thorough_cmd": f"./check {pid} --tier thorough",
        "evidence_file": f"evidence/{pid}.json",
        "replay_cmd_template": f"./check {pid} --replay {{path}}",
        "engine": "lean4-proof+correspondence",
        "level_claimed": {"category": "proof", "text": c["text"], "design_ref": c.get("design_ref", "DESIGN.md §5")},
        "level_note": c["note"],
        "technique": c.get("technique", "machine-checked proof in Lean 4 about a model regenerated from / correspondence-checked against the source"),
    })
man = {
    "version": 1,
    "setup_cmd": "cd lean && lake build PasslibVerif modeldrv",
    "hooks": {
        "guard": "PASSLIB_VERIF",
        "enable": "no source hooks are needed: checks drive /repo in-process through its public API (PASSLIB_VERIF=1 is exported by the runner but read by nothing in /repo)",
        "baseline_off_cmd": "cd /repo && /venv/bin/python -m pytest -ra -q -p no:cacheprovider --timeout=900 --continue-on-collection-errors",
        "source_commits": [],
        "add_only": True,
    },
    "engines": [{
        "name": "lean4-proof+correspondence",
        "path": "tools/runner.py",
        "serves_properties": [c["property_id"] for c in checks],
        "kind_free_text": "Lean 4.33 theorems about Model∘Gen (Gen regenerated from /repo by tools/extract.py on every run) + compiled-model/real-code correspondence + failing-input search on the real code when either breaks",
    }],
    "checks": checks,
    "not_applicable": na,
    "notes": md.NOTES,
}
json.dump(man, open(os.path.join(HERE, "..", "MANIFEST.json"), "w"), indent=1)
print("checks:", [c["property_id"] for c in checks], "not claimed:", [n["property_id"] for n in na])
