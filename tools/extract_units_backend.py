"""unit Backend: the multi-backend machinery (passlib/utils/handlers.py BackendMixin family, bcrypt's mixin stubs, scrypt's module switch).

reflect:  `backends` of every multi-backend hasher, which framework class each one uses
skeleton: BackendMixin.set_backend / get_backend / has_backend, the lazy stubs (`_NoBackend._calc_checksum`,
          `HasManyBackends._calc_checksum_backend`), the wrapper `bcrypt_sha256._calc_checksum`, the os_crypt fallbacks and
          scrypt's `_set_backend` must have the statement shapes the hand model (Model/Backend.lean) was written against;
          the one shape the model is parametric in — how the bcrypt stub continues after loading a backend — is emitted as data.
"""
import ast

from extract_core import HEADER, Untranslatable, find_def, lean_str, src_ast, strip_doc, unit

MULTI = ["md5_crypt", "sha1_crypt", "sha256_crypt", "sha512_crypt", "des_crypt", "bsdi_crypt", "bcrypt", "bcrypt_sha256", "django_bcrypt_sha256", "scrypt"]


def _body(fn):
    out = []
    for s in strip_doc(fn.body):
        if isinstance(s, ast.Assert):
            continue
        txt = ast.unparse(s)
        lines, keep, skip = txt.split("\n"), [], False
        for ln in lines:          # drop (possibly multi-line) nested assert statements
            if ln.strip().startswith("assert "):
                skip = ln.count("(") > ln.count(")")
                continue
            if skip:
                skip = ln.count("(") + 0 > ln.count(")") - 1 and not ln.strip().endswith(")")
                continue
            keep.append(ln)
        out.append("\n".join(keep))
    return out


def _expect(name, got, want):
    if got != want:
        for i, (g, w) in enumerate(zip(got, want)):
            if g != w:
                raise Untranslatable(f"{name}: statement {i} is `{g}` but the model was written against `{w}`")
        raise Untranslatable(f"{name}: {len(got)} statements, model written against {len(want)}")


SET_BACKEND = [
    "if name == 'any' and cls.__backend or (name and name == cls.__backend):\n    return cls.__backend",
    "owner = cls._get_backend_owner()",
    "if owner is not cls:\n    return owner.set_backend(name, dryrun=dryrun)",
    "if name == 'any' or name == 'default':\n    default_error = None\n    for name in cls.backends:\n        try:\n            return cls.set_backend(name, dryrun=dryrun)\n"
    "        except exc.MissingBackendError:\n            continue\n        except exc.PasslibSecurityError as err:\n            if default_error is None:\n                default_error = err\n            continue\n"
    "    if default_error is None:\n        msg = f'{cls.name}: no backends available'\n        if cls._no_backend_suggestion:\n            msg += cls._no_backend_suggestion\n"
    "        default_error = exc.MissingBackendError(msg)\n    raise default_error",
    "if name not in cls.backends:\n    raise exc.UnknownBackendError(cls, name)",
    "with _backend_lock:\n    orig = (cls._pending_backend, cls._pending_dry_run)\n    try:\n        cls._pending_backend = name\n        cls._pending_dry_run = dryrun\n"
    "        cls._set_backend(name, dryrun)\n    finally:\n        cls._pending_backend, cls._pending_dry_run = orig\n    if not dryrun:\n        cls.__backend = name\n    return name",
]
GET_BACKEND = ["if not cls.__backend:\n    cls.set_backend()", "return cls.__backend"]
HAS_BACKEND = ["try:\n    cls.set_backend(name, dryrun=True)\n    return True\nexcept (exc.MissingBackendError, exc.PasslibSecurityError):\n    return False"]
SET_BACKEND_INNER = [
    "loader = cls._get_backend_loader(name)", "kwds = {}", "if accepts_keyword(loader, 'name'):\n    kwds['name'] = name",
    "if accepts_keyword(loader, 'dryrun'):\n    kwds['dryrun'] = dryrun", "ok = loader(**kwds)",
    "if ok is False:\n    raise exc.MissingBackendError(f'{cls.name}: backend not available: {name}')",
    "if ok is not True:\n    raise AssertionError(f'backend loaders must return True or False: {ok!r}')",
]
STUB_REQ = [
    "with _backend_lock:\n    if cls.__backend:\n        return\n    cls.set_backend()\n    if not cls.__backend:\n"
    "        raise AssertionError(f'{cls.name}: set_backend() failed to load a default backend')",
]
HMB_STUB = ["self._stub_requires_backend()", "return self._calc_checksum_backend(secret)"]
HMB_CALC = ["return self._calc_checksum_backend(secret)"]
SET_CALC = ["backend = cls._pending_backend", "if not callable(func):\n    raise RuntimeError(f'{cls.name}: backend {backend!r} returned invalid callable: {func!r}')",
            "if not cls._pending_dry_run:\n    cls._calc_checksum_backend = func"]
SCRYPT_SET = [
    "if name == 'any':\n    return",
    "if name == 'default':\n    for name in backend_values:\n        try:\n            _set_backend(name, dryrun=dryrun)\n            return\n        except exc.MissingBackendError:\n            continue\n"
    "    raise exc.MissingBackendError('no scrypt backends available')",
    "loader = _backend_loaders.get(name)", "if not loader:\n    raise ValueError(f'unknown scrypt backend: {name!r}')", "hash = loader()",
    "if not hash:\n    raise exc.MissingBackendError(f'scrypt backend {name!r} not available')", "if dryrun:\n    return", "global _scrypt, backend", "backend = name", "_scrypt = hash",
]


@unit("Backend")
def unit_backend():
    import warnings

    warnings.simplefilter("ignore")
    import passlib.utils.handlers as uh
    from passlib import registry

    out = [HEADER.format(src="passlib/utils/handlers.py, passlib/handlers/bcrypt.py, passlib/crypto/scrypt/__init__.py, passlib/handlers/*_crypt.py"),
           "namespace Gen.Backend\n"]
    t = src_ast("passlib/utils/handlers.py")
    _expect("BackendMixin.set_backend", _body(find_def(t, "BackendMixin.set_backend")), SET_BACKEND)
    _expect("BackendMixin.get_backend", _body(find_def(t, "BackendMixin.get_backend")), GET_BACKEND)
    _expect("BackendMixin.has_backend", _body(find_def(t, "BackendMixin.has_backend")), HAS_BACKEND)
    _expect("BackendMixin._set_backend", _body(find_def(t, "BackendMixin._set_backend")), SET_BACKEND_INNER)
    _expect("BackendMixin._stub_requires_backend", _body(find_def(t, "BackendMixin._stub_requires_backend")), STUB_REQ)
    _expect("HasManyBackends._calc_checksum_backend", _body(find_def(t, "HasManyBackends._calc_checksum_backend")), HMB_STUB)
    _expect("HasManyBackends._calc_checksum", [s for s in _body(find_def(t, "HasManyBackends._calc_checksum")) if s != "'wrapper for backend, for common code'"], HMB_CALC)
    _expect("HasManyBackends._set_calc_checksum_backend", _body(find_def(t, "HasManyBackends._set_calc_checksum_backend")), SET_CALC)
    ts = src_ast("passlib/crypto/scrypt/__init__.py")
    _expect("scrypt._set_backend", _body(find_def(ts, "_set_backend")), SCRYPT_SET)
    # ---- bcrypt: the lazy stub and the wrapper
    tb = src_ast("passlib/handlers/bcrypt.py")
    stub = _body(find_def(tb, "_NoBackend._calc_checksum"))
    if len(stub) != 2 or stub[0] != "self._stub_requires_backend()":
        raise Untranslatable("_NoBackend._calc_checksum: " + repr(stub))
    if stub[1] == "return super(bcrypt, self)._calc_checksum(secret)":
        kind = ".superOfOwner"
    elif stub[1] == "return self._calc_checksum(secret)":
        kind = ".selfDispatch"
    else:
        raise Untranslatable("_NoBackend._calc_checksum continues with: " + stub[1])
    out.append("/-- how `_NoBackend._calc_checksum` continues once a backend is loaded -/")
    out.append("inductive StubKind | superOfOwner | selfDispatch deriving DecidableEq, Repr")
    out.append(f"def bcryptStub : StubKind := {kind}\n")
    wrap = _body(find_def(tb, "bcrypt_sha256._calc_checksum"))
    if not wrap or wrap[-1] != "return super()._calc_checksum(key)":
        raise Untranslatable("bcrypt_sha256._calc_checksum no longer ends in super()._calc_checksum(key)")
    import passlib.handlers.bcrypt as pb

    chain = [c.__name__ for c in pb.bcrypt_sha256.__mro__ if "_calc_checksum" in c.__dict__]
    # number of wrapper layers above the backend owner, per class
    def layers(cls):
        n = 0
        for c in cls.__mro__:
            if c is pb.bcrypt:
                return n
            if "_calc_checksum" in c.__dict__:
                n += 1
        raise Untranslatable(f"{cls.__name__} does not derive from bcrypt")

    from passlib.hash import django_bcrypt, django_bcrypt_sha256

    out.append("/-- `_calc_checksum` wrapper layers between the class and the backend owner (`bcrypt`) -/")
    rows = [("bcrypt", layers(pb.bcrypt)), ("bcrypt_sha256", layers(pb.bcrypt_sha256)), ("django_bcrypt_sha256", layers(django_bcrypt_sha256))]
    if isinstance(django_bcrypt, uh.PrefixWrapper) and django_bcrypt.wrapped is pb.bcrypt:
        rows.append(("django_bcrypt", 0))
    out.append("def wrapLayers : List (String × Nat) := [" + ", ".join(f"({lean_str(n)}, {k})" for n, k in rows) + "]\n")
    if not (pb.bcrypt.__dict__.get("_backend_mixin_target") is True and set(pb.bcrypt._backend_mixin_map) == {None, "bcrypt", "os_crypt", "builtin"}
            and pb.bcrypt._backend_mixin_map[None] is pb._NoBackend):
        raise Untranslatable("bcrypt backend mixin map changed")
    # ---- reflected backends lists + framework kind
    out.append("/-- (hasher, framework, declared backends in order) -/")
    rows = []
    for name in MULTI:
        h = registry.get_crypt_handler(name)
        if name == "scrypt":
            kind = "scrypt"
        elif issubclass(h, uh.SubclassBackendMixin):
            kind = "subclass"
        elif issubclass(h, uh.HasManyBackends):
            kind = "many"
        else:
            raise Untranslatable(f"{name}: unknown backend framework")
        rows.append(f"({lean_str(name)}, {lean_str(kind)}, [" + ", ".join(lean_str(b) for b in h.backends) + "])")
    out.append("def hashers : List (String × String × List String) :=\n  [" + ",\n   ".join(rows) + "]\n")
    # ---- os_crypt fallbacks: non-UTF-8 passwords go to the builtin code
    fall = []
    for path, cls in (("passlib/handlers/md5_crypt.py", "md5_crypt"), ("passlib/handlers/sha1_crypt.py", "sha1_crypt"), ("passlib/handlers/sha2_crypt.py", "_SHA2_Common"),
                      ("passlib/handlers/des_crypt.py", "des_crypt"), ("passlib/handlers/des_crypt.py", "bsdi_crypt")):
        fn = find_def(src_ast(path), cls + "._calc_checksum_os_crypt")
        src = ast.unparse(fn)
        ok = "if hash is None:\n        return self._calc_checksum_builtin(secret)" in src
        fall.append(f"({lean_str(cls)}, {'true' if ok else 'false'})")
    out.append("/-- does `_calc_checksum_os_crypt` fall back to the builtin code when crypt() cannot take the password -/")
    out.append("def osCryptFallsBack : List (String × Bool) := [" + ", ".join(fall) + "]\n")
    out.append("end Gen.Backend")
    return "\n".join(out) + "\n"
