"""C12 — binary-to-text encodings: correspondence (real engines vs compiled Lean model) and
search (the property's own oracle on the real code)."""
from __future__ import annotations

import base64
import itertools

from .common import Suite, hx, merge

GEN_UNITS = ["B64", "B64Engine"]
LEAN_TARGETS = ["PasslibVerif.Props.C12"]
ASSUMPTIONS = [
    "binascii / base64 C codecs are external: modelled by Spec.Rfc4648 and compared on every generated input",
    "a2b_base64's lenient skipping of foreign characters is outside the model (answers `unmodelled`, counted)",
]
EXPLANATION = (
    "Theorems: decode∘encode = id for every byte string and both bit orders, alphabet/length, "
    "agreement with RFC 4648 groups, padding-bit laws, integer codecs, transposed codecs — about "
    "Model.B64 whose chunk/tail bodies, alphabets, masks and offset tables are regenerated from "
    "/repo on every run. Correspondence: real Base64Engine objects vs the compiled model."
)


def engines():
    import passlib.utils.binary as pb
    import libpass._utils.binary as lb

    # libpass ships one instance (little-endian h64); its engine class also has a big-endian mode: instances over passlib's own alphabets
    return {"h64": pb.h64, "h64big": pb.h64big, "bcrypt64": pb.bcrypt64}, {"lp_h64": lb.h64_engine}


def libpass_engines_like():
    """libpass' engine class in both bit orders over passlib's alphabets: must encode exactly like passlib's engine of the same name"""
    import passlib.utils.binary as pb
    import libpass._utils.binary as lb

    return {"h64big": lb.Base64Engine(pb.HASH64_CHARS, big=True), "bcrypt64": lb.Base64Engine(pb.BCRYPT_CHARS, big=True), "h64": lb.Base64Engine(pb.HASH64_CHARS, big=False)}


def tables():
    import passlib.handlers.md5_crypt as m5
    import passlib.handlers.sha2_crypt as s2
    import passlib.handlers.sun_md5_crypt as sm
    import passlib.handlers.sha1_crypt as s1

    return {
        "md5": list(m5._transpose_map), "sha256": list(s2._256_transpose_map), "sha512": list(s2._512_transpose_map),
        "sun": list(sm._chk_offsets), "sha1": list(s1.sha1_crypt._chk_offsets),
    }


def correspond(ctx):
    rng = ctx.rng
    eng, lpeng = engines()
    s_codec = Suite(ctx, "b64-engine-bytes")
    s_int = Suite(ctx, "b64-engine-ints")
    s_tr = Suite(ctx, "b64-transposed")
    s_std = Suite(ctx, "b64s-ab64-b32")
    n3 = (1 << 24) if ctx.thorough else (1 << 14)
    for name, e in eng.items():
        def enc(bs, e=e, name=name):
            s_codec.add(f"b64 enc {name} {hx(bs)}", lambda: hx(e.encode_bytes(bs)), "enc")

        def dec(s, e=e, name=name, tag="dec"):
            s_codec.add(f"b64 dec {name} {hx(s)}", lambda: hx(e.decode_bytes(s)), tag)

        def rep(s, e=e, name=name):
            def f():
                ok, r = e.check_repair_unused(s)
                return ("1 " if ok else "0 ") + hx(r)
            s_codec.add(f"b64 repair {name} {hx(s)}", f, "repair")

        # every 1- and 2-byte string, encode and decode-of-encode
        for a in range(256):
            enc(bytes([a]))
            dec(e.encode_bytes(bytes([a])))
        for a in range(0, 256, 1 if ctx.thorough else 3):
            for b in range(256):
                bs = bytes([a, b])
                enc(bs)
                dec(e.encode_bytes(bs))
        if ctx.thorough:
            for v in range(n3):
                bs = v.to_bytes(3, "big")
                enc(bs)
        else:
            for _ in range(n3):
                bs = rng.randbytes(3)
                enc(bs)
                dec(e.encode_bytes(bs))
        # every length 0..200
        for n in range(0, 201):
            for _ in range(3 if not ctx.thorough else 20):
                bs = rng.randbytes(n)
                enc(bs)
                dec(e.encode_bytes(bs))
        # decoding arbitrary alphabet strings incl. every last char (padding bits), and repair
        cm = e.bytemap
        for n in (2, 3, 6, 7, 22, 23):
            for _ in range(4):
                head = bytes(rng.choice(cm) for _ in range(n - 1))
                for c in cm:
                    dec(head + bytes([c]), tag="dec-lastchar")
                    rep(head + bytes([c]))
        for n in range(0, 30):
            s = bytes(rng.choice(cm) for _ in range(n))
            dec(s)
            rep(s)
        # malformed: foreign characters at every position, length 1 mod 4
        foreign = [c for c in range(256) if c not in cm]
        for n in (1, 2, 3, 4, 5, 8, 9, 11):
            for pos in range(n):
                s = bytearray(rng.choice(cm) for _ in range(n))
                s[pos] = rng.choice(foreign)
                dec(bytes(s), tag="dec-malformed")
                rep(bytes(s))
        # … and EVERY byte value outside the alphabet, first / middle / last (a fast path that aliases one foreign character to a digit)
        for c in foreign:
            for n, pos in ((4, 0), (4, 2), (4, 3), (3, 2), (2, 0), (7, 5)):
                s = bytearray(rng.choice(cm) for _ in range(n))
                s[pos] = c
                dec(bytes(s), tag="dec-every-foreign-byte")
        # integers
        for v in range(64):
            s_int.add(f"b64 encint {name} 6 {v}", lambda v=v: hx(e.encode_int6(v)))
        for v in range(4096):
            s_int.add(f"b64 encint {name} 12 {v}", lambda v=v: hx(e.encode_int12(v)))
            s_int.add(f"b64 decint {name} 12 {hx(e.encode_int12(v))}", lambda v=v: str(e.decode_int12(e.encode_int12(v))))
        r24 = range(1 << 24) if ctx.thorough else [rng.randrange(1 << 24) for _ in range(4000)] + [0, 1, 63, 64, 4095, 4096, (1 << 24) - 1]
        for v in r24:
            s_int.add(f"b64 encint {name} 24 {v}", lambda v=v: hx(e.encode_int24(v)))
        for v in list(r24)[:5000]:
            s_int.add(f"b64 decint {name} 24 {hx(e.encode_int24(v))}", lambda v=v: str(e.decode_int24(e.encode_int24(v))))
        for bits, fn_e, fn_d in ((30, e.encode_int30, e.decode_int30), (64, e.encode_int64, e.decode_int64)):
            vals = [0, 1, (1 << bits) - 1, 1 << (bits - 1)] + [rng.randrange(1 << bits) for _ in range(3000)]
            for v in vals:
                s_int.add(f"b64 encint {name} {bits} {v}", lambda v=v, f=fn_e: hx(f(v)))
                s_int.add(f"b64 decint {name} {bits} {hx(fn_e(v))}", lambda v=v, f=fn_d, g=fn_e: str(f(g(v))))
            # arbitrary strings of the right length (all final chars: padding bits of int64)
            n = -(-bits // 6)
            for _ in range(300):
                s = bytes(rng.choice(cm) for _ in range(n))
                s_int.add(f"b64 decint {name} {bits} {hx(s)}", lambda s=s, f=fn_d: str(f(s)))
        for bits, fn in ((6, e.encode_int6), (12, e.encode_int12), (24, e.encode_int24), (30, e.encode_int30), (64, e.encode_int64)):
            for v in ((1 << bits), (1 << bits) + 1, 1 << 70):
                s_int.add(f"b64 encint {name} {bits} {v}", lambda v=v, f=fn: hx(f(v)), "encint-range")
        for bits, fn in ((6, e.decode_int6), (12, e.decode_int12), (24, e.decode_int24), (30, e.decode_int30), (64, e.decode_int64)):
            n = -(-bits // 6)
            for m in (n - 1, n + 1):
                s = bytes(rng.choice(cm) for _ in range(max(m, 0)))
                s_int.add(f"b64 decint {name} {bits} {hx(s)}", lambda s=s, f=fn: str(f(s)), "decint-len")
            s = bytearray(rng.choice(cm) for _ in range(n))
            s[rng.randrange(n)] = foreign[0]
            s_int.add(f"b64 decint {name} {bits} {hx(bytes(s))}", lambda s=bytes(s), f=fn: str(f(s)), "decint-char")
        # generic widths through the private codec
        for bits in range(1, 70):
            for _ in range(5):
                v = rng.randrange(1 << bits)
                s_int.add(f"b64 encintg {name} {bits} {v}", lambda v=v, bits=bits: hx(e._encode_int(v, bits)))
                s_int.add(f"b64 decintg {name} {bits} {hx(e._encode_int(v, bits))}", lambda v=v, bits=bits: str(e._decode_int(e._encode_int(v, bits), bits)))
        # transposed
        for tn, offs in tables().items():
            n = max(offs) + 1
            for _ in range(30):
                src = rng.randbytes(n)
                o = ",".join(map(str, offs))
                s_tr.add(f"b64 enct {name} {hx(src)} {o}", lambda src=src, offs=offs: hx(e.encode_transposed_bytes(src, offs)))
                encd = e.encode_transposed_bytes(src, offs)
                s_tr.add(f"b64 dect {name} {hx(encd)} {o}", lambda encd=encd, offs=offs: hx(e.decode_transposed_bytes(encd, offs)))
        # … and small permutations of every length from 0 (offset lists of length 0, 1, 2 take the degenerate paths of any gather)
        for n in (0, 1, 1, 2, 2, 3, 4, 5, 7):
            offs = list(range(n))
            rng.shuffle(offs)
            src = rng.randbytes(n)
            o = ",".join(map(str, offs)) or "-"
            s_tr.add(f"b64 enct {name} {hx(src)} {o}", lambda src=src, offs=offs: hx(e.encode_transposed_bytes(src, offs)))
            try:
                encd = e.encode_transposed_bytes(src, offs)
            except Exception:  # noqa: BLE001
                continue
            s_tr.add(f"b64 dect {name} {hx(encd)} {o}", lambda encd=encd, offs=offs: hx(e.decode_transposed_bytes(encd, offs)))
    for name, e in libpass_engines_like().items():
        for n in list(range(0, 40)) * 3:
            bs = rng.randbytes(n)
            s_codec.add(f"b64 enc {name} {hx(bs)}", lambda bs=bs, e=e: hx(e.encode_bytes(bs)), "lp-engine-like-" + name)
        for a in range(256):
            for bs in (bytes([a]), bytes([a, a ^ 0x5A]), bytes([7, a, a ^ 0xFF, a])):
                s_codec.add(f"b64 enc {name} {hx(bs)}", lambda bs=bs, e=e: hx(e.encode_bytes(bs)), "lp-engine-like-" + name)
    for name, e in lpeng.items():
        for n in list(range(0, 70)) * 3:
            bs = rng.randbytes(n)
            s_codec.add(f"b64 lpenc {name} {hx(bs)}", lambda bs=bs: hx(e.encode_bytes(bs)), "lpenc")
        for a in range(256):
            for b in (0, 1, 0x7F, 0x80, 0xFF, a):
                bs = bytes([a, b])
                s_codec.add(f"b64 lpenc {name} {hx(bs)}", lambda bs=bs: hx(e.encode_bytes(bs)), "lpenc")
    # b64s / ab64 / b32
    import passlib.utils.binary as pb
    import libpass._utils.deprecated as ld

    for n in list(range(0, 80)) * (2 if not ctx.thorough else 30):
        bs = rng.randbytes(n)
        s_std.add(f"b64 b64senc {hx(bs)}", lambda bs=bs: hx(pb.b64s_encode(bs)))
        s_std.add(f"b64 ab64enc {hx(bs)}", lambda bs=bs: hx(pb.ab64_encode(bs)))
        s_std.add(f"b64 b64senc {hx(bs)}", lambda bs=bs: hx(ld.b64s_encode(bs)), "lp-b64senc")
        s_std.add(f"b64 ab64enc {hx(bs)}", lambda bs=bs: hx(ld.ab64_encode(bs)), "lp-ab64enc")
        s_std.add(f"b64 b64sdec {hx(pb.b64s_encode(bs))}", lambda bs=bs: hx(pb.b64s_decode(pb.b64s_encode(bs))))
        s_std.add(f"b64 ab64dec {hx(pb.ab64_encode(bs))}", lambda bs=bs: hx(pb.ab64_decode(pb.ab64_encode(bs))))
        s_std.add(f"b64 ab64dec {hx(pb.b64s_encode(bs))}", lambda bs=bs: hx(pb.ab64_decode(pb.b64s_encode(bs))), "ab64dec-plus")
        # libpass' copies of the decoders, on bytes and on str input
        s_std.add(f"b64 ab64dec {hx(pb.ab64_encode(bs))}", lambda bs=bs: hx(ld.ab64_decode(ld.ab64_encode(bs))), "lp-ab64dec-bytes")
        s_std.add(f"b64 ab64dec {hx(pb.ab64_encode(bs))}", lambda bs=bs: hx(ld.ab64_decode(ld.ab64_encode(bs).decode("ascii"))), "lp-ab64dec-str")
        s_std.add(f"b64 b64sdec {hx(pb.b64s_encode(bs))}", lambda bs=bs: hx(ld.b64s_decode(ld.b64s_encode(bs))), "lp-b64sdec-bytes")
        s_std.add(f"b64 b64sdec {hx(pb.b64s_encode(bs))}", lambda bs=bs: hx(ld.b64s_decode(ld.b64s_encode(bs).decode("ascii"))), "lp-b64sdec-str")
        s_std.add(f"b64 b32enc {hx(bs)}", lambda bs=bs: hx(pb.b32encode(bs).encode()))
        t = pb.b32encode(bs).encode()
        variants = [t, t.lower(), t.replace(b"B", b"8").replace(b"O", b"0"), t + b"=" * (-len(t) % 8)]
        for v in variants:
            s_std.add(f"b64 b32dec {hx(v)}", lambda v=v: hx(pb.b32decode(v)))
    alpha = (pb.BASE64_CHARS).encode()
    for n in range(0, 24):
        for _ in range(6):
            s = bytes(rng.choice(alpha) for _ in range(n))
            s_std.add(f"b64 b64sdec {hx(s)}", lambda s=s: hx(pb.b64s_decode(s)), "b64sdec-arbitrary")
            # libpass' copies answer every string (wrong lengths included) like passlib's, bytes and str
            s_std.add(f"b64 b64sdec {hx(s)}", lambda s=s: hx(ld.b64s_decode(s)), "lp-b64sdec-arbitrary")
            s_std.add(f"b64 b64sdec {hx(s)}", lambda s=s: hx(ld.b64s_decode(s.decode("ascii"))), "lp-b64sdec-arbitrary-str")
            s_std.add(f"b64 ab64dec {hx(s)}", lambda s=s: hx(pb.ab64_decode(s)), "ab64dec-arbitrary")
            s_std.add(f"b64 ab64dec {hx(s)}", lambda s=s: hx(ld.ab64_decode(s)), "lp-ab64dec-arbitrary")
            s_std.add(f"b64 ab64dec {hx(s)}", lambda s=s: hx(ld.ab64_decode(s.decode("ascii"))), "lp-ab64dec-arbitrary-str")
    b32a = b"ABCDEFGHIJKLMNOPQRSTUVWXYZ234567"
    for n in range(0, 20):
        for _ in range(6):
            s = bytes(rng.choice(b32a) for _ in range(n))
            s_std.add(f"b64 b32dec {hx(s)}", lambda s=s: hx(pb.b32decode(s)), "b32dec-arbitrary")
            s2 = bytearray(s + b"A")
            s2[rng.randrange(len(s2))] = rng.choice(b"19!_ ")
            s_std.add(f"b64 b32dec {hx(bytes(s2))}", lambda s2=bytes(s2): hx(pb.b32decode(s2)), "b32dec-malformed")
    return merge(s_codec, s_int, s_tr, s_std, exhaustive=ctx.thorough)


# ------------------------------------------------------------------------------------------
# independent reference (no passlib, no Lean) used by the search oracle
def ref_encode(bs: bytes, charmap: bytes, big: bool) -> bytes:
    bits = []
    for b in bs:
        r = [(b >> i) & 1 for i in range(8)]
        bits += r[::-1] if big else r
    while len(bits) % 6:
        bits.append(0)
    out = bytearray()
    for i in range(0, len(bits), 6):
        g = bits[i:i + 6]
        v = sum(bit << (5 - k) for k, bit in enumerate(g)) if big else sum(bit << k for k, bit in enumerate(g))
        out.append(charmap[v])
    return bytes(out)


def oracle_cases(ctx, seeds):
    rng = ctx.rng
    for s in seeds or []:
        yield s
    for n in (1, 2):
        for t in itertools.product(range(256), repeat=n):
            yield bytes(t)
    for _ in range(300000 if ctx.thorough else 40000):
        yield rng.randbytes(3)
    for n in range(0, 201):
        yield rng.randbytes(n)


def check_one(name, e, bs):
    """the property on the real code alone; returns None or a description of the failure."""
    cm = e.bytemap if hasattr(e, "bytemap") else e._charmap
    big = e.big if hasattr(e, "big") else e._big
    enc = e.encode_bytes(bs)
    if any(c not in cm for c in enc):
        return {"what": "output outside alphabet", "encoded": enc.hex()}
    if len(enc) != -(-len(bs) * 4 // 3):
        return {"what": "wrong length", "encoded": enc.hex()}
    ref = ref_encode(bs, cm, big)
    if enc != ref:
        return {"what": "differs from the bit-level reference / RFC 4648 translation", "encoded": enc.hex(), "reference": ref.hex()}
    if big:
        std = base64.b64encode(bs).rstrip(b"=").translate(bytes.maketrans(b"ABCDEFGHIJKLMNOPQRSTUVWXYZabcdefghijklmnopqrstuvwxyz0123456789+/", cm))
        if std != enc:
            return {"what": "differs from stdlib base64 under alphabet translation", "encoded": enc.hex(), "reference": std.hex()}
    if hasattr(e, "decode_bytes"):
        dec = e.decode_bytes(enc)
        if dec != bs:
            return {"what": "decode(encode(x)) != x", "encoded": enc.hex(), "decoded": dec.hex()}
    return None


def search(ctx, broken, seeds):
    eng, lpeng = engines()
    byte_seeds = []
    for s in seeds:
        parts = str(s).split()
        if len(parts) >= 4 and parts[1] in ("enc", "lpenc", "dec"):
            try:
                byte_seeds.append(b"" if parts[3] == "-" else bytes.fromhex(parts[3]))
            except ValueError:
                pass
    for name, e in {**eng, **lpeng}.items():
        for bs in oracle_cases(ctx, byte_seeds):
            try:
                bad = check_one(name, e, bs)
            except Exception as err:  # noqa: BLE001
                bad = {"what": f"raises {type(err).__name__}: {err}"}
            if bad:
                return {"input": {"op": "roundtrip", "engine": name, "bytes": bs.hex()}, "observed": bad,
                        "expected": "alphabet-only output of length ceil(4n/3), equal to RFC 4648 packing, decoding back to the input"}
    # a character outside the engine's alphabet is refused wherever it stands (every byte value, every engine, both bit orders)
    for name, e in eng.items():
        cm = bytes(e.bytemap)
        for c in range(256):
            if c in cm:
                continue
            for n, pos in ((4, 0), (4, 1), (4, 2), (4, 3), (3, 2), (2, 1), (8, 6), (11, 10)):
                s = bytearray(ctx.rng.choice(cm) for _ in range(n))
                s[pos] = c
                try:
                    out = e.decode_bytes(bytes(s))
                    return {"input": {"op": "decode-foreign", "engine": name, "text": bytes(s).hex(), "foreign_byte": c, "position": pos}, "observed": "decoded to " + out.hex(), "expected": "ValueError"}
                except ValueError:
                    pass
                except Exception as err:  # noqa: BLE001
                    return {"input": {"op": "decode-foreign", "engine": name, "text": bytes(s).hex(), "foreign_byte": c, "position": pos}, "observed": type(err).__name__ + ": " + str(err)[:80], "expected": "ValueError"}
    # integers, padding repair, helpers
    import passlib.utils.binary as pb

    for name, e in eng.items():
        for bits, fe, fd in ((6, e.encode_int6, e.decode_int6), (12, e.encode_int12, e.decode_int12), (24, e.encode_int24, e.decode_int24),
                             (30, e.encode_int30, e.decode_int30), (64, e.encode_int64, e.decode_int64)):
            vals = list(range(4096)) if bits <= 12 else [ctx.rng.randrange(1 << bits) for _ in range(20000)] + [0, (1 << bits) - 1]
            for v in vals:
                if v >= (1 << bits):
                    continue
                try:
                    s = fe(v)
                    ok = fd(s) == v and len(s) == -(-bits // 6) and all(c in e.bytemap for c in s)
                    ref = ref_int(v, bits, e.bytemap, e.big)
                    ok = ok and s == ref
                except Exception as err:  # noqa: BLE001
                    ok, s = False, repr(err).encode()
                if not ok:
                    return {"input": {"op": "int", "engine": name, "bits": bits, "value": v}, "observed": {"encoded": s.hex()},
                            "expected": "fixed-width encoding that decodes back"}
            for v in (1 << bits, (1 << bits) + 5):
                try:
                    fe(v)
                    return {"input": {"op": "int-range", "engine": name, "bits": bits, "value": v}, "observed": "accepted", "expected": "ValueError"}
                except ValueError:
                    pass
        for n in (2, 3, 6, 7):
            for _ in range(200):
                s = bytes(ctx.rng.choice(e.bytemap) for _ in range(n))
                rep = e.repair_unused(s)
                if e.decode_bytes(rep) != e.decode_bytes(s) or e.encode_bytes(e.decode_bytes(s)) != rep or e.repair_unused(rep) != rep:
                    return {"input": {"op": "repair", "engine": name, "text": s.hex()}, "observed": {"repaired": rep.hex()},
                            "expected": "repair clears only padding bits; decode unchanged; canonical = encode(decode)"}
        for n in (1, 5, 9):
            s = bytes(ctx.rng.choice(e.bytemap) for _ in range(n))
            try:
                e.decode_bytes(s)
                return {"input": {"op": "decode-len", "engine": name, "text": s.hex()}, "observed": "accepted", "expected": "ValueError"}
            except ValueError:
                pass
        small = {f"perm{n}": ctx.rng.sample(range(n), n) for n in (0, 1, 2, 3, 5)}
        for tn, offs in list(tables().items()) + list(small.items()):
            if sorted(offs) != list(range(len(offs))):
                continue
            src = ctx.rng.randbytes(len(offs))
            if len(offs) <= 5:
                # the transposed encoding is the plain encoding of the gathered bytes
                try:
                    te, pe = e.encode_transposed_bytes(src, offs), e.encode_bytes(bytes(src[o] for o in offs))
                except Exception as ex:  # noqa: BLE001
                    return {"input": {"op": "transposed", "engine": name, "table": tn, "offsets": offs, "bytes": src.hex()}, "observed": type(ex).__name__ + ": " + str(ex)[:80], "expected": "the encoding of the gathered bytes"}
                if te != pe:
                    return {"input": {"op": "transposed", "engine": name, "table": tn, "offsets": offs, "bytes": src.hex()}, "observed": te.decode("latin-1"), "expected": pe.decode("latin-1")}
            variants = [src, bytes(len(offs))] + ([bytes([0]) + src[1:], src[:-1] + bytes([0])] if offs else [])     # all of length len(offs)
            for src in variants:
                try:
                    back = e.decode_transposed_bytes(e.encode_transposed_bytes(src, offs), offs)
                except Exception as ex:  # noqa: BLE001
                    return {"input": {"op": "transposed", "engine": name, "table": tn, "bytes": src.hex()}, "observed": type(ex).__name__ + ": " + str(ex)[:80], "expected": "identity"}
                if back != src:
                    return {"input": {"op": "transposed", "engine": name, "table": tn, "bytes": src.hex()}, "observed": "round trip differs", "expected": "identity"}
    import libpass._utils.deprecated as ld

    # libpass' engine class against passlib's engines, both bit orders
    for name, e in libpass_engines_like().items():
        ref = eng[name]
        for n in list(range(0, 20)) * 40:
            bs = ctx.rng.randbytes(n)
            try:
                got = e.encode_bytes(bs)
            except Exception as ex:  # noqa: BLE001
                got = type(ex).__name__
            if got != ref.encode_bytes(bs):
                return {"input": {"op": "libpass-engine", "like": name, "bytes": bs.hex()}, "observed": got.decode() if isinstance(got, bytes) else got,
                        "expected": ref.encode_bytes(bs).decode() + f"  (passlib {name}; decodes back to the input)"}
    # libpass' decoders answer every string like passlib's (same value or the same error class), bytes and text
    alpha = pb.BASE64_CHARS.encode()
    for n in list(range(0, 24)) * 8:
        t = bytes(ctx.rng.choice(alpha) for _ in range(n))
        for what, mine, theirs in (("b64s_decode", ld.b64s_decode, pb.b64s_decode), ("ab64_decode", ld.ab64_decode, pb.ab64_decode)):
            for form in (t, t.decode("ascii")):
                def run(f, x):
                    try:
                        return f(x).hex()
                    except Exception as ex:  # noqa: BLE001
                        return "err " + ("ValueError" if isinstance(ex, ValueError) else type(ex).__name__)
                a, b = run(mine, form), run(theirs, form)
                if a != b:
                    return {"input": {"op": "libpass " + what, "text": repr(form)}, "observed": a, "expected": b + "  (passlib's decoder on the same string)"}
    for n in list(range(0, 60)) * 4:
        bs = ctx.rng.randbytes(n)
        for form in (lambda t: t, lambda t: t.decode("ascii")):
            for what, enc, dec in (("libpass ab64", ld.ab64_encode, ld.ab64_decode), ("libpass b64s", ld.b64s_encode, ld.b64s_decode)):
                t = form(enc(bs))
                try:
                    got = dec(t)
                except Exception as ex:  # noqa: BLE001
                    return {"input": {"op": what + "_decode", "bytes": bs.hex(), "text": repr(t)}, "observed": type(ex).__name__ + ": " + str(ex)[:80], "expected": bs.hex()}
                if got != bs:
                    return {"input": {"op": what + "_decode", "bytes": bs.hex(), "text": repr(t)}, "observed": got.hex(), "expected": bs.hex()}
    for n in list(range(0, 100)) * 5:
        bs = ctx.rng.randbytes(n)
        for what, got, want in (
            ("b64s_encode", pb.b64s_encode(bs), base64.b64encode(bs).rstrip(b"=")),
            ("ab64_encode", pb.ab64_encode(bs), base64.b64encode(bs, b"./").rstrip(b"=")),
            ("b64s_decode", pb.b64s_decode(pb.b64s_encode(bs)), bs),
            ("ab64_decode", pb.ab64_decode(pb.ab64_encode(bs)), bs),
            ("b32encode", pb.b32encode(bs).encode(), base64.b32encode(bs).rstrip(b"=")),
            ("b32decode", pb.b32decode(pb.b32encode(bs)), bs),
            ("b32decode-typo", pb.b32decode(pb.b32encode(bs).replace("B", "8").replace("O", "0").lower()), bs),
        ):
            if got != want:
                return {"input": {"op": what, "bytes": bs.hex()}, "observed": got.hex(), "expected": want.hex()}
    return None


def ref_int(v, bits, cm, big):
    n = -(-bits // 6)
    pad = n * 6 - bits
    if big:
        v <<= pad
        ds = [(v >> (6 * (n - 1 - i))) & 63 for i in range(n)]
    else:
        ds = [(v >> (6 * i)) & 63 for i in range(n)]
    return bytes(cm[d] for d in ds)


def replay(ctx, inp):
    eng, lpeng = engines()
    allе = {**eng, **lpeng}
    if inp.get("op") == "roundtrip":
        bad = check_one(inp["engine"], allе[inp["engine"]], bytes.fromhex(inp["bytes"]))
        return {"fails": bad is not None, "observed": bad}
    r = search(ctx, [], [])
    return {"fails": r is not None, "observed": r}
