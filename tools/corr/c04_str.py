"""C04 at the level of real hash strings: the policy model instantiated with the hasher models (suite `cstr`) vs the real CryptContext.

Every answer is compared EXACTLY, new hash strings included: the random source of `passlib.utils.handlers` is replaced by `FixedRng(draw)`
(as in tools/corr/C04.py); the model receives the same `draw` for the cost variation and, as the explicit salt, the salt field of the
string the real `hash()` produced.
"""
from __future__ import annotations

import warnings

from .C04 import FixedRng, encode
from .common import Slow, Suite, deadline, errname, hx
from .formats_common import cps

NAMES = ["md5_crypt", "sha256_crypt", "sha512_crypt", "des_crypt", "bsdi_crypt", "phpass", "pbkdf2_sha256"]
CRYPT3 = ["md5_crypt", "sha256_crypt", "sha512_crypt"]
#: cheap cost values per scheme (inside the hard limits) and values next to / outside the limits for min/max options
COSTS = {
    "sha256_crypt": [1000, 1001, 1200, 1500, 1999, 2000, 2001],
    "sha512_crypt": [1000, 1001, 1200, 1500, 1999, 2000, 2001],
    "bsdi_crypt": [1, 2, 5, 24, 25, 100, 101, 725, 2000, 2001],
    "phpass": [7, 8, 9, 10],
    "pbkdf2_sha256": [1, 2, 10, 499, 500, 501, 1000],
}
#: per-query statistics of the last run: (operation, outcome) -> count   (a protocol line carries several queries)
QSTAT: dict = {}


def _stat(qs, ans):
    for q, a in zip(qs, ans):
        op = q.split(":", 1)[0]
        if a.startswith("err "):
            out = a[4:]
        elif op == "vau":
            out = "(True,new)" if a.startswith("ok T ") and a != "ok T N" else {"ok T N": "(True,None)", "ok F N": "(False,None)"}[a]
        elif op in ("needs", "verify", "saltok", "over"):
            out = a[3:]
        else:
            out = "ok"
        QSTAT[f"{op}:{out}"] = QSTAT.get(f"{op}:{out}", 0) + 1


FOREIGN = ["", "$2b$04$......................1O4gOrCYaqBG3o/4LnT2ykQUt1wbyju", "$apr1$abcdefgh$5VEbMkemELfbhC5ck.U.z1", "!", "x", "$5$", "$1$", "$P$", "_", "ab",
           "$5$rounds=0500$salt$gdEupGonUIiJCMc1vfHpiFjFhRA3Jf3USQ7IYKjZitD", "$pbkdf2-sha256$", "$6$rounds=1000$", "$5$rounds=1000$salt",
           "$sha1$1$abc$0000000000000000000000000000", "{SSHA}abc", "$P$5ohUJ.1sd", "$H$5ohUJ.1sdM3Cc5UavFezJWZH7Z9VYq.", "_3...rasm", "abzlUXK5ed5rs\n"]


def sec_arg(secret):
    return ("t=" + cps(secret)) if isinstance(secret, str) else ("b=" + hx(secret))


def salt_arg(h, hs):
    """the salt field of a string the real hasher made (text: code points, raw: byte values)"""
    s = h.from_string(hs).salt
    return cps(s) if isinstance(s, str) else (",".join(str(b) for b in s) or "-")


def canon(o):
    return o.replace("err NullPasswordError", "err ValueError")


def gen_secret(rng):
    r = rng.random()
    if r < 0.45:
        return rng.choice(["pw", "password", "password1", "password2", "pässword", "", "a" * 30, "x" * 9])
    if r < 0.6:
        return rng.choice([b"pw", b"password9", b"\xff\xfe", b"caf\xc3\xa9"])
    if r < 0.7:
        return rng.choice(["p\x00w", b"\x00", "pw\x00"])
    if r < 0.75:
        return rng.choice(["a" * 4097, b"b" * 4097, "\ud800", "é" * 4097])   # sizes at the limit itself are C01's business (sha-crypt hashes len(secret)**2 bytes)
    return "".join(rng.choice("abcXYZ019 .é€") for _ in range(rng.randrange(0, 14)))


def gen_config(rng, registry, names):
    n = rng.randrange(1, min(5, len(names)) + 1)
    schemes = rng.sample(names, n)
    handlers = {s: registry.get_crypt_handler(s) for s in schemes}
    kw = {"schemes": list(schemes)}
    cats = rng.sample(["admin", "staff"], rng.choice([0, 0, 1, 1, 2]))
    for cat in [None] + cats:
        pre = f"{cat}__context__" if cat else ""
        if rng.random() < 0.4:
            kw[pre + "default"] = rng.choice(schemes)
        if rng.random() < 0.55:
            r = rng.random()
            if r < 0.4:
                kw[pre + "deprecated"] = ["auto"]
            else:
                keep = kw.get(pre + "default") or kw.get("default")
                pool = [s for s in schemes if s != keep]
                dep = rng.sample(pool, rng.randrange(0, len(pool) + 1))
                if keep is None and len(dep) == len(schemes):
                    dep = dep[:-1]
                if keep is None and cat and schemes[0] in dep and len(dep) == len(schemes) - 0:
                    dep = dep[1:]
                kw[pre + "deprecated"] = dep
    for cat in [None] + cats:
        for s in schemes:
            if s not in COSTS:
                if s == "md5_crypt" and rng.random() < 0.1:
                    kw[(f"{cat}__" if cat else "") + "md5_crypt__salt_size"] = rng.choice([0, 4, 8])
                continue
            pre = (f"{cat}__" if cat else "") + s + "__"
            pts = COSTS[s]
            h = handlers[s]
            if cat is None or rng.random() < 0.5:
                # a cheap default for every scheme with a cost (the class defaults are far too expensive to run thousands of times)
                d = rng.choice(pts)
                kw[pre + "default_rounds"] = str(d) if rng.random() < 0.1 else d
            if rng.random() < 0.45:
                kw[pre + "min_rounds"] = rng.choice(pts + [h.min_rounds, h.min_rounds - 1 if h.min_rounds > 0 else 0])
            if rng.random() < 0.45:
                kw[pre + "max_rounds"] = rng.choice(pts + [h.max_rounds, h.max_rounds + 1])
            # an explicit default outside the explicit window of the SAME using() call is a constructor error (the `ctx` suite's
            # business): mostly keep the three ordered here; across categories the default is clipped instead, which stays in play
            mn, mx, df = kw.get(pre + "min_rounds"), kw.get(pre + "max_rounds"), kw.get(pre + "default_rounds")
            if mn is not None and mx is not None and mn > mx:
                kw[pre + "min_rounds"], kw[pre + "max_rounds"] = mn, mx = mx, mn
            if df is not None and rng.random() < 0.95:
                v = int(df)
                v = max(v, min(mn, h.max_rounds)) if mn is not None else v
                v = min(v, max(mx, h.min_rounds)) if mx is not None else v
                kw[pre + "default_rounds"] = str(v) if isinstance(df, str) else v
            if h.rounds_cost == "linear" and rng.random() < 0.25:
                kw[pre + "vary_rounds"] = rng.choice([0, 1, 5, 100, "10%", 0.1, "7"])
            if "salt_size" in h.setting_kwds and rng.random() < 0.1:
                kw[pre + "salt_size"] = rng.choice([4, 8, 16])
    return schemes, handlers, cats, kw


def cheap_record(rec):
    """is the cost the record can generate cheap enough to run"""
    if "rounds" not in rec.setting_kwds:
        return True
    if rec.default_rounds is None:
        return False
    if rec.rounds_cost == "log2":
        return rec.default_rounds <= 10 and not rec.vary_rounds
    vr = rec.vary_rounds
    extra = vr if isinstance(vr, int) else (int(rec.default_rounds * vr) + 1 if vr else 0)
    return rec.default_rounds + extra <= 4000


def float_vary(rec):
    vr = getattr(rec, "vary_rounds", None)
    return int(rec.default_rounds * vr) if isinstance(vr, float) and rec.default_rounds else 0


def make_corpus(rng, registry, names):
    corpus = {}
    for name in names:
        h = registry.get_crypt_handler(name)
        lst = []
        for r in COSTS.get(name, [None]):
            for pw in ("pw", "password1"):
                try:
                    lst.append(((h.using(rounds=r) if r is not None else h).hash(pw), pw))
                except Exception:  # noqa: BLE001
                    pass
        corpus[name] = lst
    return corpus


def model_suite(ctx, s_m, names=None, n=None):
    warnings.simplefilter("ignore")
    import passlib.utils.handlers as uh
    from passlib import registry
    from passlib.context import CryptContext

    rng = ctx.rng
    names = names or NAMES
    n = n or (150 if not ctx.thorough else 1500)
    corpus = make_corpus(rng, registry, names)
    allh = [x for lst in corpus.values() for x in lst]
    old = uh.rng
    try:
        for _ in range(n):
            schemes, handlers, cats, kw = gen_config(rng, registry, names)
            try:
                c = CryptContext(**kw)
            except Exception:  # noqa: BLE001
                continue                     # constructor errors are the `ctx` suite's business
            head = "cstr " + encode(schemes, handlers, kw)
            qs, ans = ["over"], ["ok 1"]
            tag = "+".join(sorted(schemes))

            def emit(kind="strings"):
                if qs:
                    _stat(qs, ans)
                    s_m.add_raw(head + " " + " ".join(qs), canon(" | ".join(ans)), kind + ":" + str(len(schemes)) + "-schemes")
                del qs[:], ans[:]
            qcats = [None] + cats + (["nosuchcat"] if rng.random() < 0.3 else [])

            def real(thunk, show):
                try:
                    return "ok " + show(thunk())
                except Slow:
                    raise
                except Exception as e:  # noqa: BLE001
                    return "err " + errname(e)

            for cat in qcats:
                cn = cat or "-"
                try:
                    d = c.default_scheme(cat)
                    drec = c.handler(d, cat)
                    cheap = cheap_record(drec)
                    fv = float_vary(drec)
                except Exception:  # noqa: BLE001
                    d, drec, cheap, fv = None, None, False, 0
                # --- hash(): whole string, then what the context says about it
                fresh = []
                if cheap:
                    for _k in range(2):
                        secret = gen_secret(rng)
                        draw = rng.randrange(1 << 62)
                        uh.rng = FixedRng(draw)
                        try:
                            new = c.hash(secret, category=cat)
                            a, salt = "ok " + cps(new), salt_arg(registry.get_crypt_handler(d), new)
                            fresh.append((new, secret))
                            qs.append(f"saltok:{d}:{salt}")
                            ans.append("ok 1")
                        except Exception as e:  # noqa: BLE001
                            a = "err " + errname(e)
                            # the salt the failed call would have used does not matter: any admissible one
                            salt = salt_arg(registry.get_crypt_handler(d), registry.get_crypt_handler(d).using(**({"rounds": COSTS[d][0]} if d in COSTS else {})).hash("pw"))
                        qs.append(f"hash:{cn}:{draw}:{fv}:{salt}:{sec_arg(secret)}")
                        ans.append(a)
                    emit("hash")
                # --- strings: fresh ones, corpus of every scheme (in the context or not), foreign / malformed ones
                cands = list(fresh)
                cands += rng.sample(allh, min(6, len(allh)))
                for s in schemes:
                    cands += rng.sample(corpus[s], min(2, len(corpus[s])))
                cands += [(x, "pw") for x in rng.sample(FOREIGN, 3)]
                for hh, pw in cands:
                    h_arg = cps(hh)
                    qs.append(f"identify:{h_arg}")
                    ans.append(real(lambda: c.identify(hh, required=True), str))
                    qs.append(f"needs:{cn}:{h_arg}")
                    ans.append(real(lambda: c.needs_update(hh, category=cat), lambda b: str(int(b))))
                    others = [pw, gen_secret(rng)]
                    if isinstance(pw, str) and len(pw) >= 8 and rng.random() < 0.5:
                        others.append(pw[:8] + "ZZ")          # des_crypt: the same password
                    for sec in others:
                        qs.append(f"verify:{sec_arg(sec)}:{h_arg}")
                        ans.append(real(lambda: c.verify(sec, hh), lambda b: "True" if b else "False"))
                        if not cheap:
                            continue
                        draw = rng.randrange(1 << 62)
                        uh.rng = FixedRng(draw)
                        salt = None
                        try:
                            with deadline(20):
                                ok, new = c.verify_and_update(sec, hh, category=cat)
                            if new is None:
                                a = "ok " + ("T N" if ok else "F N")
                            else:
                                a = "ok T " + cps(new)
                                salt = salt_arg(registry.get_crypt_handler(d), new)
                        except Slow:
                            continue
                        except Exception as e:  # noqa: BLE001
                            a = "err " + errname(e)
                        if salt is None:
                            salt = salt_arg(registry.get_crypt_handler(d), registry.get_crypt_handler(d).using(**({"rounds": COSTS[d][0]} if d in COSTS else {})).hash("pw"))
                        qs.append(f"vau:{cn}:{draw}:{fv}:{salt}:{sec_arg(sec)}:{h_arg}")
                        ans.append(a)
                    emit()
            emit()
    finally:
        uh.rng = old


def correspond(ctx, names=None):
    s_m = Suite(ctx, "context-over-hasher-models", batch=2000, model_canon=canon)
    model_suite(ctx, s_m, names)
    res = s_m.result()
    res["queries_by_outcome"] = dict(sorted(QSTAT.items()))
    return res


if __name__ == "__main__":
    import argparse
    import json
    import os
    import sys
    import time

    here = os.path.dirname(os.path.dirname(os.path.abspath(__file__)))
    sys.path.insert(0, os.path.dirname(here))
    sys.path.insert(0, here)
    sys.path.insert(0, os.environ.get("PASSLIB_REPO", "/repo"))
    from tools.runner import Ctx

    ap = argparse.ArgumentParser()
    ap.add_argument("--thorough", action="store_true")
    ap.add_argument("--seed", type=int, default=0)
    ap.add_argument("--only", default="")
    ap.add_argument("-n", type=int, default=0)
    a = ap.parse_args()
    cx = Ctx("C04str", "thorough" if a.thorough else "quick", a.seed)
    t0 = time.time()
    sm = Suite(cx, "context-over-hasher-models", batch=2000, model_canon=canon)
    model_suite(cx, sm, [x for x in a.only.split(",") if x] or None, a.n or None)
    t1 = time.time()
    res = sm.result()
    t2 = time.time()
    print(json.dumps({"cases": res["cases"], "queries": sum(QSTAT.values()), "mismatches": len(res["mismatches"]), "unmodelled": res["unmodelled"],
                      "wall_s": round(t2 - t0, 1), "distribution": res["distribution"], "queries_by_outcome": dict(sorted(QSTAT.items()))}, indent=1))
    for m in res["mismatches"][:8]:
        print(json.dumps({"first_diff": m.get("first_diff"), "impl": m["impl"][:300], "model": m["model"][:300], "input": m["input"][:1500]}, indent=1))
    sys.exit(1 if res["mismatches"] else 0)
