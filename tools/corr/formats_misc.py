"""Misc format family (scrypt, scram, fshp, argon2, django_argon2, libpass inspectors): real-code adapters for the
C07 correspondence harness.  Each adapter exposes parse / dump / render / identify on the REAL code plus generators
of well-formed strings (built with the real `to_string()` / `as_str()` wherever the hasher cannot hash on this host)."""
from __future__ import annotations

import base64
import os
import warnings


def cps(s) -> str:
    if isinstance(s, (bytes, bytearray)):
        return ",".join(str(b) for b in s) if s else "-"
    return ",".join(str(ord(c)) for c in s) if s else "-"


def _o(v):
    return "N" if v is None else cps(v)


def _line(ident, rounds, salt, chk, extras):
    return f"{cps(ident)} {'N' if rounds is None else rounds} {_o(salt)} {_o(chk)} " + (";".join(f"{k}={v}" for k, v in extras) or "-")


def _rb(rng, n):
    return bytes(rng.randrange(256) for _ in range(n))


def _b64s(b):
    return base64.b64encode(b).decode().rstrip("=")


class Adapter:
    name = ""

    def parse(self, s):  # -> object | None ; raises
        raise NotImplementedError

    def dump(self, obj) -> str:
        raise NotImplementedError

    def render(self, obj) -> str:
        return obj.to_string()

    def identify(self, s) -> bool:
        raise NotImplementedError

    def gen(self, rng, n):
        return []

    def variants(self, s, rng):
        out = [s]
        if s.count("$") >= 3:
            out.append(s.rsplit("$", 1)[0])
            out.append(s.rsplit("$", 1)[0] + "$")
        return out

    def extra_cases(self, rng):
        """additional raw strings (edge cases that random mutation rarely hits)"""
        return []


def _hd(name):
    warnings.simplefilter("ignore")
    from passlib import registry

    return registry.get_crypt_handler(name)


# ---------------------------------------------------------------------------------------------------------------
class Scrypt(Adapter):
    name = "scrypt"

    def parse(self, s):
        return _hd("scrypt").from_string(s)

    def dump(self, o):
        return _line(o.ident, o.rounds, o.salt, o.checksum, [("block_size", o.block_size), ("parallelism", o.parallelism)])

    def identify(self, s):
        return _hd("scrypt").identify(s)

    def gen(self, rng, n):
        h = _hd("scrypt")
        out = []
        for i in range(n):
            ident = rng.choice(["$scrypt$", "$7$"])
            salt = _rb(rng, rng.choice([0, 1, 2, 3, 16, rng.randrange(0, 40)]))
            if ident == "$7$":
                salt = _b64s(salt).encode()
            kw = dict(ident=ident, rounds=rng.choice([1, 2, 16, 31, rng.randrange(1, 32)]),
                      block_size=rng.choice([1, 8, 9, 10, 100, (1 << 30) - 1, rng.randrange(1, 1 << 30)]),
                      parallelism=rng.choice([1, 2, 10, (1 << 30) - 1, rng.randrange(1, 1 << 30)]), salt=salt, checksum=_rb(rng, 32))
            out.append(h(**kw).to_string())
        out.append(h.using(rounds=1, salt_size=3).hash("pw"))
        out.append(h.using(rounds=2, ident="$7$").hash("pw"))
        return out

    def variants(self, s, rng):
        out = [s]
        if s.startswith("$scrypt$"):
            out += [s.rsplit("$", 1)[0], s.rsplit("$", 1)[0] + "$"]
            out += [s.replace("ln=", "ln= "), s.replace(",r=", ",r=+"), s.replace(",p=", ",p=0"), s.replace("ln=", "ln=1_")]
            p = s.split("$")
            out += ["$".join(p[:3] + [p[3] + "=", p[4]]), "$".join(p[:3] + [p[3] + "A", p[4]]), "$".join(p[:3] + [p[3], p[4] + "=="]),
                    "$".join(p[:3] + [p[3], p[4][:-1]]), "$".join(p[:3] + ["!" + p[3] + "\n", p[4]]), "$".join(p[:3] + [p[3], "=" + p[4]])]
        else:
            out += [s.rsplit("$", 1)[0], s.rsplit("$", 1)[0] + "$", s[:14], s[:13], s[:3] + "." + s[4:], s[:3] + "zzzzzz" + s[9:]]
        return out

    def extra_cases(self, rng):
        c = _b64s(bytes(32))
        return ["$scrypt$ln=1,r=1,p=1$$" + c, "$scrypt$ln=1,r=1,p=1$", "$scrypt$ln=1,r=1$AAAA$" + c, "$scrypt$ln=1,r=1,p=1,x=1$AAAA$" + c,
                "$scrypt$r=1,ln=1,p=1$AAAA$" + c, "$scrypt$ln=32,r=1,p=1$AAAA$" + c, "$scrypt$ln=0,r=1,p=1$AAAA$" + c,
                "$scrypt$ln=1,r=0,p=1$AAAA$" + c, "$scrypt$ln=1,r=1,p=0$AAAA$" + c, "$scrypt$ln=1,r=1,p=1$" + "A" * 1368 + "$" + c,
                "$scrypt$ln=1,r=1,p=1$" + "A" * 1366 + "$" + c, "$scrypt$ln=1,r=1,p=1$A$" + c, "$scrypt$ln=1,r=1,p=1$AA=A$" + c,
                "$scrypt$ln=1,r=1,p=1$AAA$" + c, "$scrypt$ln=1,r=1,p=1$é$" + c, "$scrypt$ln=٣,r=1,p=1$AAAA$" + c,
                "$scrypt$ln=1,r=1,p=1$AAAA$" + c[:-2], "$scrypt$ln=1,r=1,p=1$AAAA$" + c + "AAAA", "$scrypt$ln=-1,r=1,p=1$AAAA$" + c,
                "$7$", "$7$C6..../....", "$7$C6..../....$", "$7$C6..../....SodiumChloride$" + "." * 43, "$7$C6..../....SodiumChloride$" + "." * 42,
                "$7$C6..../....é$" + "." * 43, "$7$!6..../....x$" + "." * 43, "$7$C6..!./....x$" + "." * 43, "$7$C6..../....x$" + "!" * 43,
                "$7$.6..../....x$" + "." * 43, "$7$C...../....x$" + "." * 43, "$7$C6..........x$" + "." * 43,
                "$7$C6..../...." + "x" * 1024 + "$" + "." * 43, "$7$C6..../...." + "x" * 1025 + "$" + "." * 43, "$7$C6..../....x$a$" + "." * 43]


class Fshp(Adapter):
    name = "fshp"

    def parse(self, s):
        return _hd("fshp").from_string(s)

    def dump(self, o):
        return _line(o.ident, o.rounds, o.salt, o.checksum, [("variant", o.variant)])

    def identify(self, s):
        return _hd("fshp").identify(s)

    def gen(self, rng, n):
        h = _hd("fshp")
        sizes = {0: 20, 1: 32, 2: 48, 3: 64}
        out = []
        for _ in range(n):
            v = rng.randrange(4)
            out.append(h(variant=v, rounds=rng.choice([1, 2, 4294967295, rng.randrange(1, 1 << 32)]),
                         salt=_rb(rng, rng.choice([0, 1, 2, 3, 16, rng.randrange(0, 40)])), checksum=_rb(rng, sizes[v])).to_string())
        out.append(h.using(rounds=1, variant=0).hash("pw"))
        return out

    def variants(self, s, rng):
        head, data = s.split("}")
        v, ss, r = head[5:].split("|")
        return [s, s + "\n", s + "=", s + "==", s + "===", s + "====", s.rstrip("="), s.rstrip("=") + "=",
                "{FSHP%s|%d|%s}%s" % (v, int(ss) + 1, r, data), "{FSHP%s|%d|%s}%s" % (v, max(int(ss) - 1, 0), r, data),
                "{FSHP%s|%s|%s}%s" % (v, "9" * 30, r, data), "{FSHP4|%s|%s}%s" % (ss, r, data), "{FSHP%s|%s|0}%s" % (v, ss, data),
                "{FSHP%s|%s|4294967296}%s" % (v, ss, data), "{FSHP٣|%s|%s}%s" % (ss, r, data), "{FSHP0%s|0%s|0%s}%s" % (v, ss, r, data),
                "{FSHP%s|%s|%s}%s" % (v, ss, r, data[:-4]), "{FSHP%s|%s|%s}%s" % (v, ss, r, data + "AAAA"), "{fshp" + s[5:]]

    def extra_cases(self, rng):
        return ["{FSHP", "{FSHP1|0|1}", "{FSHP1|0|1}=", "{FSHP1|0|1}A", "{FSHP|0|1}AAAA", "{FSHP1||1}AAAA", "{FSHP1|0|}AAAA", "{FSHP1|0|1}AA A"]


class _ArgonBase(Adapter):
    stub = False
    django = False

    def cls(self):
        from passlib.handlers.django import django_argon2
        from passlib.hash import argon2

        base = django_argon2.wrapped if self.django else argon2
        if not self.stub:
            return base
        key = "_verif_stub"
        if key not in base.__dict__:
            stub = type("argon2_stub", (base,), {"get_backend": classmethod(lambda c: "stub")})
            setattr(base, key, stub)
        return base.__dict__[key]

    def parse(self, s):
        if self.django:
            from passlib.handlers.django import django_argon2

            s = django_argon2._unwrap_hash(s)
        return self.cls().from_string(s)

    def dump(self, o):
        data = "48" if o.data is None else "49" + ("," + cps(o.data) if o.data else "")
        return _line("", o.rounds, o.salt, o.checksum, [("type", cps(o.type)), ("version", o.version), ("memory_cost", o.memory_cost),
                                                          ("parallelism", o.parallelism), ("data", data)])

    def render(self, o):
        s = o.to_string()
        if self.django:
            from passlib.handlers.django import django_argon2

            s = django_argon2._wrap_hash(s)
        return s

    def identify(self, s):
        if self.django:
            from passlib.handlers.django import django_argon2

            return django_argon2.identify(s)
        return self.cls().identify(s)

    def gen(self, rng, n):
        out = []
        for _ in range(n):
            ok = rng.random() < 0.6          # mostly well-formed strings; the rest carries one or more defects
            t = rng.choice(["i", "d", "id"]) if ok else rng.choice(["i", "d", "id", "i", "x", "ID"])
            ver = rng.choice(["", "v=19$", "v=19$", "v=16$", "v=019$"]) if ok else rng.choice(["", "v=19$", "v=16$", "v=18$", "v=20$", "v=17$"])
            m = rng.choice([8, 512, 65536, rng.randrange(8, 1 << 33)]) if ok else rng.choice([8, 7, 0, 512])
            tc = rng.choice([1, 2, 4294967295, rng.randrange(1, 100)]) if ok else rng.choice([1, 0, 4294967296])
            p = rng.choice([1, 2, 16777215, 16777216]) if ok else rng.choice([1, 0])
            data = rng.choice(["", "", ",data=" + _b64s(_rb(rng, rng.randrange(1, 9))), ",data===="]) if ok else rng.choice(["", ",data=" + _b64s(_rb(rng, rng.randrange(1, 9))), ",keyid=Hj5+dsK0,data=abcd", ",keyid=x", ",data=A"])
            salt = _b64s(_rb(rng, rng.choice([8, 16, 16, rng.randrange(8, 40)]) if ok else rng.choice([8, 7, 0, 16])))
            dg = _b64s(_rb(rng, rng.choice([16, 32, 1, 4, rng.randrange(1, 70)])))
            s = f"$argon2{t}${ver}m={m},t={tc},p={p}{data}${salt}${dg}"
            out.append(("argon2" + s) if self.django else s)
        return out

    def variants(self, s, rng):
        out = [s, s + "\n", s + "\n\n", s.rsplit("$", 1)[0], s.rsplit("$", 1)[0] + "$", s.rsplit("$", 1)[0] + "\n", s.rsplit("$", 2)[0], s.rsplit("$", 2)[0] + "$",
               s.rsplit("$", 2)[0] + "\n", s + "=", s + "A", s + "$x", s.replace(",t=", ",t=0"), s.replace("m=", "m= "), s.replace(",p=", ",p=٣"),
               s.replace("m=", "M="), s.replace(",t=", ";t="), s.rsplit("$", 1)[0] + "$a\nb", s.rsplit("$", 2)[0] + "$a\nbcdefghijklmnop$" + s.rsplit("$", 1)[1],
               s.rsplit("$", 1)[0] + "é$" + s.rsplit("$", 1)[1], s + "é"]
        if self.django:
            out += [s[6:], "argon" + s[6:], "Argon2" + s[6:], s[:6] + s]
        return out

    def extra_cases(self, rng):
        pre = "argon2" if self.django else ""
        return [pre + x for x in ["$argon2i$m=8,t=1,p=1", "$argon2i$m=8,t=1,p=1\n", "$argon2i$v=19$m=8,t=1,p=1", "$argon2$m=8,t=1,p=1$c2FsdHNhbHQ$AAAA",
                                  "$argon2i$m=8,t=1,p=1$c2FsdHNhbHQ", "$argon2i$m=8,t=1,p=1$c2FsdHNhbHQ$=", "$argon2i$m=8,t=1,p=1$c2FsdHNhbHQ$====",
                                  "$argon2i$m=8,t=1,p=1,data=$c2FsdHNhbHQ$AAAA", "$argon2i$m=8,t=1,p=1,keyid=$c2FsdHNhbHQ$AAAA",
                                  "$argon2i$m=8,t=1,p=1,data=AAAA,keyid=AAAA$c2FsdHNhbHQ$AAAA", "$argon2i$m=8,t=1,p=1,keyid=AAAA\n",
                                  "$argon2i$m=8,t=1,p=1,data=AAAA\n", "$argon2i$v=$m=8,t=1,p=1$c2FsdHNhbHQ$AAAA", "$argon2i$v=19m=8,t=1,p=1$c2FsdHNhbHQ$AAAA",
                                  "$argon2i$m=8,t=1,p=1$c2FsdHNhbHQ=$AAAA", "$argon2i$m=8,t=1,p=1$c2Fsd HNhbHQ$AAAA", "$argon2i$m=8,t=1,p=1$c2FsdHNhb$AAAA",
                                  "$argon2i$m=8,t=1,p=1$c2FsdHNhbHQA$AAAAA", "$argon2i$m=8,t=1,p=1$c2FsdHNhbHQ$AAAAA", "$argon2i$m=8,t=1,p=1$c2FsdHNhbHQ$AA=A",
                                  "$argon2i$m=8,t=1,p=1,data=A$c2FsdHNhbHQ$AAAA", "$argon2i$m=8,t=1,p=1,data=AA=A$c2FsdHNhbHQ$AAAA"]]


class Argon2(_ArgonBase):
    name = "argon2"


class Argon2Stub(_ArgonBase):
    name = "argon2_stub"
    stub = True


class DjangoArgon2(_ArgonBase):
    name = "django_argon2"
    django = True


class DjangoArgon2Stub(_ArgonBase):
    name = "django_argon2_stub"
    django = True
    stub = True


class Scram(Adapter):
    name = "scram"
    ALGS = ["sha-1", "sha-256", "sha-512", "md5", "sha-224", "sha-384", "md4", "blake-2b", "sm3", "sha3-256", "foo", "ab1", "x-123"]

    def parse(self, s):
        import logging

        logging.disable(logging.CRITICAL)        # _get_hash_aliases logs every unknown name
        try:
            return _hd("scram").from_string(s)
        finally:
            logging.disable(logging.NOTSET)

    def dump(self, o):
        chk = None
        if o.checksum is not None:
            chk = []
            for a in o.algs:
                d = o.checksum[a]
                chk += [len(d)] + list(d)
            chk = ",".join(str(x) for x in chk) if chk else "-"
        return (f"{cps(o.ident)} {o.rounds} {_o(o.salt)} {'N' if chk is None else chk} algs=" + cps(",".join(o.algs)))

    def identify(self, s):
        return _hd("scram").identify(s)

    def gen(self, rng, n):
        h = _hd("scram")
        out = []
        for _ in range(n):
            algs = ["sha-1"] + rng.sample(self.ALGS[1:], rng.randrange(0, 4))
            rng.shuffle(algs)
            chk = {a: _rb(rng, rng.choice([20, 32, 0, 1, 2, rng.randrange(0, 70)])) for a in algs}
            out.append(h(rounds=rng.choice([1, 4294967295, 6400, rng.randrange(1, 1 << 32)]), salt=_rb(rng, rng.choice([0, 1, 2, 12, rng.randrange(0, 30)])), checksum=chk).to_string())
        out.append(h.using(rounds=1, algs="sha-1,md5").hash("pw"))
        return out

    NAMES = ["SHA1", "sha1", "SHA-1", "sha_1", "sha 1", "scram-sha-1", "SCRAM-SHA-1-PLUS", "sha-256", "sha2-256", "sha256", "sha2_256", "sha/512", " md5 ", "MD-5",
             "md_5", "ripemd", "ripemd160", "blake2b", "blake-2b", "sha3-256", "sha3_256", "sha-3-256", "sha512-256", "sha512_256", "shake128", "shake-128",
             "shake_256", "scrypt", "pbkdf2_hmac", "pbkdf2-hmac", "file_digest", "algorithms_available", "new", "algorithms", "md5-sha1", "sm3", "whirlpool",
             "", " ", "-", "_", "scram-", "scram--plus", "-plus", "scram-scram-md5", "scram-\tmd5", "x\n", "scram-x\n-plus", "x1", "x12", "x123", "x1234", "x12345",
             "x-1-123", "x--123", "x-1--123", "x1-", "a٣", "a-٣-١٢٣", "ſha-1", "Kha-1", "İx", "é", "É", "ÉÉ-1", "sha-1\x1c", "\x1csha-1", "sha-1\xa0", "a!b", "a b", "a=b",
             "md\x005", "\x00", "sha-1\x00", "toolongname", "tool-1234", "sha-22", "sha-0224", "sha-1-1234"]

    def variants(self, s, rng):
        p = s.split("$")
        pairs = p[4].split(",")
        names = [x.split("=")[0] for x in pairs]
        out = [s, "$".join(p[:4] + [",".join(names)]), "$".join(p[:4] + [",".join(reversed(names))]), "$".join(p[:4] + [", ".join(names) + ","]),
               "$".join(p[:4] + [",".join(names) + ",,"]), "$".join(p[:4] + [" "]), "$".join(p[:4] + [","]), "$".join(p[:4] + [""]),
               "$".join(p[:4] + [",".join(reversed(pairs))]), "$".join(p[:4] + [",".join(pairs + [pairs[0]])]), "$".join(p[:4] + [",".join(pairs + ["sha-1=AAAA"])]),
               "$".join(p[:4] + [",".join(x for x in pairs if not x.startswith("sha-1="))]), "$".join(p[:4] + [",".join(x for x in names if x != "sha-1")]),
               "$".join(p[:4] + [p[4].replace("=", "==", 1)]), "$".join(p[:4] + [p[4] + ","]), "$".join(p[:4] + [p[4] + ",md5"]), "$".join(p[:4] + [p[4].replace("/", ".").replace("+", ".")]),
               "$".join(p[:2] + ["0" + p[2]] + p[3:]), "$".join(p[:2] + ["+" + p[2]] + p[3:]), "$".join(p[:2] + ["0"] + p[3:]), "$".join(p[:2] + ["-1"] + p[3:]), "$".join(p[:2] + ["4294967296"] + p[3:]),
               "$".join(p[:3] + [p[3] + "A"] + p[4:]), "$".join(p[:3] + [p[3] + "="] + p[4:]), "$".join(p[:3] + ["A" * 1366] + p[4:]), "$".join(p[:3] + ["A" * 1368] + p[4:])]
        for nm in rng.sample(self.NAMES, 12):
            out.append("$".join(p[:4] + ["sha-1," + nm]))
            out.append("$".join(p[:4] + [nm + ",sha-1"]))
            out.append("$".join(p[:4] + [nm + "=AAAA,sha-1=AAAA"]))
            out.append("$".join(p[:4] + ["sha-1=AAAA," + nm + "=AAAA"]))
        return out

    def extra_cases(self, rng):
        out = []
        for nm in self.NAMES:
            out += ["$scram$6400$c2FsdA$sha-1," + nm, "$scram$6400$c2FsdA$" + nm + "=AAAA,sha-1=AAAA", "$scram$0$c2FsdA$sha-1," + nm, "$scram$0$c2FsdA$" + nm + "=AAAA,sha-1=AAAA",
                    "$scram$6400$c2FsdA$" + nm, "$scram$6400$c2FsdA$sha-1=AAAA," + nm + "=AAAA", "$scram$6400$c2FsdA$zzz zz=AAAA," + nm + "=AAAA"]
        return out


# ---------------------------------------------------------------------------------------------------------------
class _Lp(Adapter):
    def render(self, o):
        return o.as_str()

    def identify(self, s):
        # libpass hashers' identify() is `inspect(...) is not None`; an escaping exception is already a finding of the
        # parse op, here it only counts as "not identified"
        try:
            return self.parse(s) is not None
        except Exception:  # noqa: BLE001
            return False


class LpSha(_Lp):
    def __init__(self, name, bits):
        self.name = name
        self.bits = bits

    def info(self):
        from libpass.inspect.sha_crypt import SHA256CryptInfo, SHA512CryptInfo

        return SHA256CryptInfo if self.bits == 256 else SHA512CryptInfo

    def parse(self, s):
        from libpass.inspect.sha_crypt import inspect_sha_crypt

        return inspect_sha_crypt(s, self.info())

    def dump(self, o):
        return _line(o._prefix, o.rounds, o.salt, o.hash, [])

    def gen(self, rng, n):
        h = _hd("sha256_crypt" if self.bits == 256 else "sha512_crypt")
        out = [h.using(rounds=rng.choice([1000, 5000, 5001, 1234])).hash("pw") for _ in range(max(2, n // 2))]
        chars = "./0123456789ABCDEFGHIJKLMNOPQRSTUVWXYZabcdefghijklmnopqrstuvwxyz"
        ln = 43 if self.bits == 256 else 86
        pre = "$5$" if self.bits == 256 else "$6$"
        for _ in range(n):
            salt = "".join(rng.choice(chars + "$ !é") for _ in range(rng.choice([1, 16, 8, 0, 17, rng.randrange(1, 17)])))
            hs = "".join(rng.choice(chars + "$=") for _ in range(ln))
            r = rng.choice(["", "", "rounds=5000$", "rounds=0$", "rounds=007$", "rounds=٣٣$", "rounds=99999999999999$", "rounds=$", "rounds=1"])
            out.append(pre + r + salt + "$" + hs)
        return out

    def extra_cases(self, rng):
        ln = 43 if self.bits == 256 else 86
        pre = "$5$" if self.bits == 256 else "$6$"
        h = ("0123456789" * 9)[:ln]
        body = ["abc$" + h, "$" + h, "rounds=5000$abc$" + h, "rounds=999$abc$" + h, "rounds=0$abc$" + h, "rounds=1000000000$abc$" + h, "rounds=05000$abc$" + h,
                "rounds=٥٠٠٠$abc$" + h, "a$c$" + h, "a!c$" + h, "abc$" + "!" * ln, "abc$" + "$" * ln, "abcdefghijklmnopq$" + h, "abcdefghijklmnop$" + h, "rounds=12$" + h,
                "abc$" + h + "\n", "abc", "abc$", "rounds=5000$abc", "rounds=5000$abc$", "rounds=5000$$" + h, "ab\nc$" + h, "é$" + h, "rounds=5000$rounds=6000$" + h,
                "rounds=$abc$" + h, "rounds=1_000$abc$" + h, "rounds= 5000$abc$" + h, "rounds=+5000$abc$" + h, "rounds=5000$" + h, "rounds=5000" + h, "rounds=1$a$b$" + h,
                "rounds=12345678$abcdefg$" + h, "rounds=12345678$abcdefgh$" + h, "rounds=1$" + "$" * 16 + "$" + h, "rounds=1$" + "$" * 17 + "$" + h]
        return [pre + b for b in body] + [pre[:2] + body[0], pre[:2], pre, ""]

    def variants(self, s, rng):
        return [s, s + "\n", s[:-1], s + "x", s.replace("$", "$$", 1), s[:3] + "rounds=12$" + s.rsplit("$", 1)[1], s[:3] + "rounds=12$x$" + s.rsplit("$", 1)[1],
                s[:3] + "\n$" + s.rsplit("$", 1)[1], s[:-1] + "\n", s[:3] + "$" + s.rsplit("$", 1)[1], s[:3] + s.rsplit("$", 1)[1]]


class LpBcrypt(_Lp):
    name = "lp_bcrypt"

    def parse(self, s):
        from libpass.inspect.bcrypt import inspect_bcrypt_hash

        return inspect_bcrypt_hash(s)

    def dump(self, o):
        return _line(o.prefix, o.rounds, o.salt, o.hash, [])

    def gen(self, rng, n):
        chars = "./ABCDEFGHIJKLMNOPQRSTUVWXYZabcdefghijklmnopqrstuvwxyz0123456789"
        out = []
        for _ in range(n):
            pre = rng.choice(["2a", "2b", "2y", "2b", "2x", "2", "2bb"])
            r = rng.choice(["04", "12", "31", "5", "005", "100", "٣٣", "", "1_0"])
            body = "".join(rng.choice(chars + "$é ") for _ in range(rng.choice([53, 53, 53, 52, 54])))
            out.append(f"${pre}${r}${body}")
        return out

    def extra_cases(self, rng):
        S = "abcdefghijklmnopqrstuu"
        H = "0123456789012345678901234567890"
        return ["$2b$12$" + S + H, "$2a$12$" + S + H, "$2y$12$" + S + H, "$2x$12$" + S + H, "$2$12$" + S + H, "$2b$5$" + S + H, "$2b$05$" + S + H, "$2b$005$" + S + H,
                "$2b$3$" + S + H, "$2b$32$" + S + H, "$2b$٠٥$" + S + H, "$2b$12$" + S + H + "\n", "$2b$12$" + S, "$2b$12$" + "!" * 22 + H, "$2b$12$" + "$" * 53,
                "$2b$12$" + S + H[:-1] + "é", "$2b$1_2$" + S + H, "$2b$ 12$" + S + H, "$2b$+12$" + S + H, "$2b$$" + S + H, "$2b$12$" + S + H + "\n\n", "$2b$12$" + S + H[:-1] + "\n",
                "$2b$" + "9" * 30 + "$" + S + H, "$2b$0$" + S + H, "$2b$00$" + S + H]

    def variants(self, s, rng):
        return [s, s + "\n", s + "\n\n", s[:-1] + "\n", s + "x", " " + s, s[:-5] + "\n" + s[-4:]]


class LpPbkdf2(_Lp):
    def __init__(self, name, bits):
        self.name = name
        self.bits = bits

    def info(self):
        from libpass.inspect.pbkdf2 import PBKDF2SHA256CryptInfo, PBKDF2SHA512CryptInfo

        return PBKDF2SHA256CryptInfo if self.bits == 256 else PBKDF2SHA512CryptInfo

    def parse(self, s):
        from libpass.inspect.pbkdf2 import inspect_pbkdf2_hash

        return inspect_pbkdf2_hash(s, self.info())

    def dump(self, o):
        return _line("$" + o.DIGEST_NAME + "$", o.rounds, o.salt, o.hash, [])

    def gen(self, rng, n):
        h = _hd(f"pbkdf2_sha{self.bits}")
        out = [h.using(rounds=rng.choice([1, 2, 29000]), salt_size=rng.choice([0, 1, 16])).hash("pw") for _ in range(max(2, n // 2))]
        chars = "./ABCDEFGHIJKLMNOPQRSTUVWXYZabcdefghijklmnopqrstuvwxyz0123456789"
        for _ in range(n):
            nm = rng.choice([f"pbkdf2-sha{self.bits}"] * 4 + ["pbkdf2-sha1", "pbkdf2", "PBKDF2-SHA256", "pbkdf2_sha256", ""])
            r = rng.choice(["1", "29000", "007", "٣٣", "", "0", "-1", "1_0"])
            salt = "".join(rng.choice(chars + "$ é") for _ in range(rng.choice([0, 1, 5, 22])))
            hs = "".join(rng.choice(chars + "$") for _ in range(rng.choice([0, 1, 5, 43])))
            out.append(f"${nm}${r}${salt}${hs}")
        return out

    def extra_cases(self, rng):
        n = f"pbkdf2-sha{self.bits}"
        sl, hs = "v7BLXAez2TI", "HENDyP2Vf/dRMmcdeY0bZ9qnUJm3J6a.3xe1iPlt3Dg"

        def mk(r="1000", s=sl, h=hs, nm=n):
            return f"${nm}${r}${s}${h}"

        return [mk(), mk(r="0"), mk(r="01000"), mk(r="١٠٠٠"), mk(r="4294967296"), mk(r="1_000"), mk(r="+1000"), mk(r=""), mk(s=""), mk(h=""), f"${n}$1000${sl}", f"${n}$1000${sl}$",
                mk(s="!!!!"), mk(h="!!!!"), mk(s="a$b"), mk(h=hs + "$x"), mk(h="$"), mk(h="$$"), mk(s="$"), mk(s="$$"), mk(s="$", h="$"), mk(h="x$"), mk(s=sl + "="), mk(s="A"), mk(h="AAAA"),
                mk() + "\n", mk(nm="pbkdf2-sha1"), mk(nm="pbkdf2"), mk(nm=""), mk(nm=n.upper()), mk(s="é"), mk(s="a b"), mk(s=sl + "\n"), mk(h="a\nb"), f"${n}$1000$$$", f"${n}$1000$$$$", f"${n}$1000$a$$b",
                f"${n}$1000$a$", f"${n}$1000$$a", "$" + n, "$" + n + "$", "$" + n + "$1", "$" + n + "$1$"]

    def variants(self, s, rng):
        return [s, s + "\n", s + "$", s + "$$", s + "$x", s[:-1] + "\n", s.replace("$", "$$"), s + "\nx"]


class LpPhc(_Lp):
    def __init__(self, name, which):
        self.name = name
        self.which = which

    def defn(self):
        from libpass.inspect.phc.defs import Argon2PHC, BcryptSHA256PHCV2

        return Argon2PHC if self.which == "argon2" else BcryptSHA256PHCV2

    def parse(self, s):
        from libpass.inspect.phc import inspect_phc

        return inspect_phc(s, self.defn())

    def dump(self, o):
        if self.which == "argon2":
            ex = [("memory_cost", cps(str(o.memory_cost))), ("time_cost", cps(str(o.time_cost))), ("parallelism_cost", cps(str(o.parallelism_cost)))]
        else:
            ex = [("version_", cps(str(o.version_))), ("type", cps(o.type)), ("rounds", cps(str(o.rounds)))]
        return _line(o.id, None, o.salt, o.hash, ex)

    def gen(self, rng, n):
        chars = "ABCDEFGHIJKLMNOPQRSTUVWXYZabcdefghijklmnopqrstuvwxyz0123456789/+.-"
        out = []
        for _ in range(n):
            ok = rng.random() < 0.5
            if self.which == "argon2":
                id_ = rng.choice(["argon2id", "argon2i", "argon2d"]) if ok else rng.choice(["argon2id", "argon2", "argon2x", "bcrypt-sha256"])
                ver = rng.choice(["$v=19", "$v=19", "$v=019"]) if ok else rng.choice(["$v=19", "", "$v=16", "$v=", "$v=x"])
                items = [f"m={rng.choice(['65536', '8', '-5', '+7', '007'])}", f"t={rng.choice(['3', '0'])}", f"p={rng.choice(['4', '1'])}"]
                if rng.random() < 0.3:
                    items[rng.randrange(3)] = rng.choice(["m=1.5", "t=abc", "p=", "p=1-", "m=/"])
            else:
                id_ = "bcrypt-sha256" if ok else rng.choice(["bcrypt-sha256", "bcrypt", "argon2id"])
                ver = "" if ok else rng.choice(["", "$v=2", "$v=19"])
                items = [f"v={rng.choice(['2', '1', '02'])}", f"t={rng.choice(['2b', '2a', 'zz', '2y'])}", f"r={rng.choice(['12', '4', '31'])}"]
                if rng.random() < 0.3:
                    items[rng.choice([0, 2])] = rng.choice(["v=x", "r=x", "r=1.0", "v=+"])
            k = rng.randrange(10)
            if k == 0:
                items.pop(rng.randrange(3))
            elif k == 1:
                items.append(items[0].split("=")[0] + "=9")
            elif k == 2:
                items.append("extra=1")
            elif k == 3:
                rng.shuffle(items)
            salt = "".join(rng.choice(chars) for _ in range(rng.choice([11, 22, 64, 22] if ok else [11, 10, 65, 22])))
            hs = "".join(rng.choice(chars) for _ in range(rng.choice([16, 43, 86, 31] if ok else [16, 15, 87, 31])))
            out.append(f"${id_}{ver}${','.join(items)}${salt}${hs}")
        return out

    def extra_cases(self, rng):
        S, D = "c29tZXNhbHRzb21lc2FsdA", "AcmqasQgW/wI6wAHAMk4aQ"
        if self.which == "argon2":
            def mk(t="id", v="v=19$", m="65536", tc="3", p="4", s=S, d=D, x=""):
                return f"$argon2{t}${v}m={m},t={tc},p={p}{x}${s}${d}"

            return [mk(), mk(t="i"), mk(t="d"), mk(t="x"), mk(t=""), mk(v=""), mk(v="v=16$"), mk(v="v=019$"), mk(v="v=20$"), mk(v="v=$"), mk(v="v=٣$"), mk(m="7"), mk(m="008"), mk(m="-5"), mk(m="+8"), mk(m="--5"),
                    mk(m="5-"), mk(m="1.5"), mk(m="abc"), mk(m="٨٨"), mk(m="1_0"), mk(tc="0"), mk(p="0"), mk(s="A" * 10), mk(s="A" * 11), mk(s="A" * 64), mk(s="A" * 65), mk(d="A" * 15), mk(d="A" * 16),
                    mk(d="A" * 86), mk(d="A" * 87), mk(s=S.replace("c", ".")), mk(d=D.replace("/", "-")), mk(x=",data=AAAA"), mk(x=",keyid=AAAA"), mk(x=",x=1"), mk(x=",m=9"), mk(x=","), mk(x=",x"),
                    mk(x=",=1"), mk(x=",x=" ), mk(x=",X=1"), mk(x=",a-b=1"), mk(x="," + "a" * 32 + "=1"), mk(x="," + "a" * 33 + "=1"), f"$argon2id$v=19$t=3,m=65536,p=4${S}${D}",
                    f"$argon2id$v=19$m=65536,t=3${S}${D}", f"$argon2id$v=19$p=4${S}${D}", f"$argon2id$v=19$m=65536,t=3,p=4${S}", "$argon2id$v=19$m=65536,t=3,p=4", mk() + "\n", mk(d=D + "="),
                    mk(d=D + "$"), mk(t="ID"), f"$argon2id$v=19${S}${D}", f"$argon2id$v=19$v=19${S}${D}", f"$argon2id$v=19$v=19$m=1,t=1,p=1${S}${D}", f"$argon2id$m=1,t=1,p=1$v=19${S}${D}"]

        def mk(par="v=2,t=2b,r=4", s="/vA2nrnSOqPYkI5hvvXaS.", d="Kf.zvUf1gDawJP6jX2Y/LTLb6P4hKBK", n="bcrypt-sha256"):
            return f"${n}${par}${s}${d}"

        return [mk(), "$bcrypt-sha256$2b,4$T48N2LAsECA/4mqUjiDJBe$PDTVlePO/b0ElycakVxKObyQUeM/Pu.", mk(par="v=2,t=2a,r=4"), mk(par="v=2,t=zz,r=4"), mk(par="v=1,t=2b,r=4"), mk(par="v=02,t=2b,r=04"),
                mk(par="t=2b,v=2,r=4"), mk(par="v=2,t=2b"), mk(par="v=2"), mk(par="t=2b"), mk(par="r=4,t=2b"), mk(par="v=2,t=2b,r=4,x=1"), mk(par="v=2,t=2b,r=4,r=5"), mk(par="v=2,t=2b,r=x"), mk(par="v=x,t=2b,r=y"),
                mk(par="v=2,t=2b,r=-4"), mk(par="v=2,t=2b,r=+4"), mk(par="v=2,t=2b,r=٤"), mk(par="v=2,t=2b,r=4 "), mk(par="v=2,t=,r=4"), mk(par="v=2,t=2b,r="), mk(s="/vA2nrnSOq"), mk(s="/vA2nrnSOqP"), mk(d="K" * 15),
                mk(d="K" * 16), mk(d="K" * 86), mk(d="K" * 87), mk(s="!" * 22), mk() + "\n", mk(n="bcrypt"), mk(n="Bcrypt-sha256"), "$bcrypt-sha256$v=2$v=2,t=2b,r=4$/vA2nrnSOqPYkI5hvvXaS.$Kf.zvUf1gDawJP6jX2Y/LTLb6P4hKBK"]

    def variants(self, s, rng):
        return [s, s + "\n", s + "$", s[1:], "x" + s, s.replace(",", ",,", 1), s.replace("=", "==", 1), s.replace(",", ", ", 1), s.upper(), s.replace("$", "$$", 1)]


ADAPTERS = {a.name: a for a in [Scrypt(), Fshp(), Argon2(), Argon2Stub(), DjangoArgon2(), DjangoArgon2Stub(), Scram(),
                                 LpSha("lp_sha256", 256), LpSha("lp_sha512", 512), LpBcrypt(), LpPbkdf2("lp_pbkdf2_sha256", 256),
                                 LpPbkdf2("lp_pbkdf2_sha512", 512), LpPhc("lp_phc_argon2", "argon2"), LpPhc("lp_phc_bcrypt_sha256", "bcrypt")]}
NAMES = list(ADAPTERS)
REGISTRY_NAMES = {"scrypt", "fshp", "argon2", "django_argon2", "scram"}


def parse_dump(name, s) -> str:
    a = ADAPTERS[name]
    o = a.parse(s)
    return "None" if o is None else a.dump(o)


def reparse(name, s) -> str:
    a = ADAPTERS[name]
    o = a.parse(s)
    return "None" if o is None else cps(a.render(o))


def identify(name, s) -> str:
    return "1" if ADAPTERS[name].identify(s) else "0"


def a2b_cases(rng, n):
    """(input bytes, real binascii answer) pairs for the `fmt a2b` op: CPython's lenient base64 decoder"""
    import binascii

    alpha = b"ABCDEFGHIJKLMNOPQRSTUVWXYZabcdefghijklmnopqrstuvwxyz0123456789+/"
    out = []
    for _ in range(n):
        k = rng.randrange(0, 14)
        s = bytes(rng.choice(alpha) if rng.random() < 0.75 else rng.choice(b"=== \n.-_\x00\xff!") for _ in range(k))
        try:
            r = "ok " + cps(binascii.a2b_base64(s))
        except binascii.Error:
            r = "err ValueError"
        out.append((s, r))
    return out
