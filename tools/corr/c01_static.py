"""C01, `Static` family — the compiled hash / verify / identify models of lean/PasslibVerif/Model/VerifyFmt/Static.lean (driver
suite `vfyS`) against the real hashers of /repo: hex digests, Windows, MySQL, Oracle, PostgreSQL, MS-SQL, Cisco PIX/ASA, LDAP
digests (plain, salted, hex and {CRYPT} wrappers), htdigest.

    cd /tmp/wp/static/verif && /venv/bin/python -m tools.corr.c01_static [--thorough] [--seed N]
"""
from __future__ import annotations

import os
import sys
import warnings

if __name__ == "__main__":
    _here = os.path.dirname(os.path.abspath(__file__))
    sys.path.insert(0, os.path.dirname(_here))
    sys.path.insert(0, os.environ.get("PASSLIB_REPO", "/repo"))

from . import verify_common as vc
from .common import Suite, errname, hx
from .formats_common import cps

LEAN_TARGETS = ["PasslibVerif.Props.C01Static"]

PLAIN = ["hex_md4", "hex_md5", "hex_sha1", "hex_sha256", "hex_sha512", "nthash", "bsd_nthash", "mysql323", "mysql41", "ldap_md5",
         "ldap_sha1", "ldap_hex_md5", "ldap_hex_sha1"]
USER = ["msdcc", "msdcc2", "postgres_md5", "oracle10", "cisco_pix", "cisco_asa"]
SALTED_RAW = ["ldap_salted_md5", "ldap_salted_sha1", "ldap_salted_sha256", "ldap_salted_sha512", "mssql2000", "mssql2005"]
CRYPT = ["ldap_md5_crypt", "ldap_sha256_crypt", "ldap_sha512_crypt"]
ALL = PLAIN + ["lmhash"] + USER + SALTED_RAW + ["oracle11", "htdigest"] + CRYPT

#: classes that decode a bytes secret as UTF-8 (UnicodeDecodeError otherwise)
TEXT_ONLY = {"nthash", "bsd_nthash", "msdcc", "msdcc2", "oracle10", "mssql2000", "mssql2005"}
#: the user name is required (TypeError when absent)
USER_REQUIRED = {"msdcc", "msdcc2", "postgres_md5", "oracle10"}
#: the user name goes through to_unicode(): bytes must be UTF-8
USER_TEXT = {"msdcc", "msdcc2", "oracle10"}
H64 = "./0123456789ABCDEFGHIJKLMNOPQRSTUVWXYZabcdefghijklmnopqrstuvwxyz"
FOREIGN = ["$1$abc$6bV/XH7oVtqRGRVLlHeHJ/", "5f4dcc3b5aa765d61d8327deb882cf99", "{SSHA}U7ibqusRIn2eop2tE2PRlX8ckqwBAgME",
           "*2470C0C06DEE42FD1618BB99005ADCA2EC9D1E19", "md5b350798a23d7544eb353a6f8dca231c2", "NuLKvvWGg.x9HEKO", "!", "x"]
#: text with case mappings beyond ASCII (expanding, contracting, context sensitive, title-case letters, no case)
CASED = "aZ9é€𝄞ß ǅİıΣσςŉῼﬀ"


def sec_arg(secret):
    return ("t:" + cps(secret)) if isinstance(secret, str) else ("b:" + hx(secret))


def user_arg(user):
    return "none" if user is None else sec_arg(user)


def gen_secret(rng, name, thorough):
    """(secret as passed) — text or bytes, over the boundary lengths of the format"""
    r = rng.random()
    lens = None
    if name == "lmhash":
        lens = [0, 1, 6, 7, 8, 13, 14, 15, 16, 30]
    elif name == "cisco_pix":
        lens = [0, 1, 11, 12, 13, 15, 16, 17, 20, 33]
    elif name == "cisco_asa":
        lens = [0, 1, 11, 12, 13, 15, 16, 17, 23, 24, 27, 28, 29, 31, 32, 33, 40]
    if r < 0.06:
        n = rng.choice([4095, 4096, 4097, 5000])
        kind = "ascii"
        if name in ("msdcc2",) or name in CRYPT:
            n = rng.choice([4097, 5000])          # the size check precedes everything; the limit itself is exercised on the cheap formats
        b = vc.gen_secret(rng, n, kind)
    elif lens is not None and r < 0.8:
        b = vc.gen_secret(rng, rng.choice(lens), rng.choice(["ascii", "ascii", "bytes", "text"]))
    else:
        b = vc.gen_secret(rng)
    if rng.random() < 0.12:
        i = rng.randrange(len(b) + 1)
        b = b[:i] + b"\x00" + b[i:]
    form = b
    if rng.random() < 0.5:
        try:
            form = b.decode("utf-8")
        except UnicodeDecodeError:
            pass
    if rng.random() < 0.12 and name != "lmhash":
        # text whose case mappings are not ASCII
        form = "".join(rng.choice(CASED) for _ in range(rng.choice([1, 3, 8, 14])))
        if rng.random() < 0.4:
            form = form.encode("utf-8")
    if rng.random() < 0.03:
        form = "a\ud800b"                       # a lone surrogate cannot be encoded
    if name == "lmhash" and isinstance(form, str) and not form.isascii() and "\ud800" not in form:
        form = form.encode("utf-8")             # non-ASCII TEXT needs the OEM code page table: outside the model (bytes are OEM bytes)
    return form


def gen_user(rng, name):
    r = rng.random()
    if r < 0.08:
        return None
    if r < 0.14:
        return ""
    if r < 0.55:
        return rng.choice(["user", "Admin", "a", "ab", "abc", "SYSTEM", "u" * 30, "Joe Smith"])
    if r < 0.85:
        return "".join(rng.choice(CASED) for _ in range(rng.choice([1, 2, 3, 5])))
    u = rng.choice(["user", "Ünï", "Σας", "x"]).encode("utf-8")
    if rng.random() < 0.3 and name not in ():
        u = rng.choice([b"\xff\xfe", b"ab\xc3", b"\xed\xa0\x80"])   # not UTF-8
    return u


def other_form(secret):
    """the same secret in the other representation, when there is one"""
    if isinstance(secret, str):
        try:
            return secret.encode("utf-8")
        except UnicodeEncodeError:
            return None
    try:
        return secret.decode("utf-8")
    except UnicodeDecodeError:
        return None


def near(rng, name, secret):
    """secrets near `secret`: a plain near miss and the format's documented equivalents"""
    x = "x" if isinstance(secret, str) else b"x"
    sp = " " if isinstance(secret, str) else b" "
    out = [secret + x]
    if name == "mysql323":
        i = rng.randrange(len(secret) + 1)
        out.append(secret[:i] + sp + secret[i:])                 # blanks are skipped
    if name == "lmhash":
        out.append(secret.upper())                               # case-insensitive
        out.append(secret[:14])                                  # 14 bytes are significant
        out.append(secret[:13])
    if name in ("oracle10", "mssql2000"):
        try:
            out.append(secret.upper() if isinstance(secret, str) else secret.decode("utf-8").upper().encode("utf-8"))
        except (UnicodeDecodeError, UnicodeEncodeError):
            pass
    if name in ("cisco_pix", "cisco_asa") and len(secret):
        out.append(secret[:-1])
    return [o for o in out if o != secret][: 4]


def call(thunk, show):
    try:
        return "ok " + show(thunk())
    except Exception as e:  # noqa: BLE001
        return "err " + errname(e)


def tf(b):
    return "True" if b else "False"


def mutate(rng, hs):
    """strings near `hs`: checksum character changed, truncated, trailing newline, empty, doubled prefix, case changes"""
    out = [hs]
    if hs:
        i = len(hs) - 1 - (1 if hs.endswith("=") else 0) - (1 if hs.endswith("==") else 0)
        c = hs[i]
        out.append(hs[:i] + ("0" if c != "0" else "1") + hs[i + 1:])
        out.append(hs[:-1])
        out.append(hs[: len(hs) // 2])
        out.append(hs + "\n")
        out.append(hs + "0")
        out.append(hs.upper())
        out.append(hs.lower())
        out.append(hs.swapcase())
        j = rng.randrange(len(hs))
        out.append(hs[:j] + rng.choice("gG$ é\x00") + hs[j + 1:])
    out.append("")
    out.append(rng.choice(FOREIGN))
    return out


def model_suite(ctx, s_m, names=None):
    warnings.simplefilter("ignore")
    rng = ctx.rng
    names = names or ALL
    for name in names:
        h = vc.handler(name)
        n = (10 if name in ("msdcc2",) or name in CRYPT else 22) if not ctx.thorough else (60 if name in ("msdcc2",) or name in CRYPT else 240)
        for _ in range(n):
            secret = gen_secret(rng, name, ctx.thorough)
            kw, hargs, ck, cargs = {}, [], {}, []
            if name == "lmhash":
                te = rng.random() < 0.4
                if te:
                    kw["truncate_error"] = True
                hargs = ["1" if te else "0"]
            elif name in USER:
                user = gen_user(rng, name)
                if user is None and name == "oracle10" and isinstance(secret, str) and not secret.isascii():
                    user = "u"      # without a user oracle10 raises TypeError before it notices an unencodable secret (order not modelled)
                if isinstance(user, bytes) and name in ("cisco_pix", "cisco_asa"):
                    try:
                        user.decode("utf-8")
                    except UnicodeDecodeError:
                        pass          # bytes users are taken as they are
                ck = {"user": user}
                hargs = cargs = [user_arg(user)]
            elif name == "htdigest":
                user = rng.choice(["user", "Ünï", "a:b", b"raw\xff", ""])
                realm = rng.choice(["realm", "Rëalm", "", b"\x00r"])
                ck = {"user": user, "realm": realm}
                hargs = cargs = [user_arg(user), user_arg(realm)]
            elif name in SALTED_RAW:
                if name.startswith("mssql"):
                    size = 4
                else:
                    size = rng.choice([4, 4, 5, 8, 15, 16])
                salt = bytes(rng.randrange(256) for _ in range(size))
                if rng.random() < 0.1:
                    salt = bytes([0] * size)
                kw["salt"] = salt
                hargs = [cps(salt)]
            elif name == "oracle11":
                salt = "".join(rng.choice("0123456789ABCDEF") for _ in range(20))
                kw["salt"] = salt
                hargs = [cps(salt)]
            elif name in CRYPT:
                if name == "ldap_md5_crypt":
                    salt = "".join(rng.choice(H64) for _ in range(rng.choice([0, 1, 4, 8])))
                    kw["salt"] = salt
                    hargs = [cps(salt)]
                else:
                    salt = "".join(rng.choice(H64) for _ in range(rng.choice([0, 1, 8, 15, 16])))
                    rounds = rng.choice([1000, 1001, 1043, 5000]) if ctx.thorough else rng.choice([1000, 1001])
                    kw.update(salt=salt, rounds=rounds)
                    hargs = [cps(salt), str(rounds)]
            hh = h.using(**kw) if kw else h
            if name == "htdigest":
                hasher_hash = lambda s: hh.hash(s, ck["user"], ck["realm"])  # noqa: E731
                hasher_verify = lambda s, c: hh.verify(s, c, ck["user"], ck["realm"])  # noqa: E731
            else:
                hasher_hash = lambda s: hh.hash(s, **ck)  # noqa: E731
                hasher_verify = lambda s, c: hh.verify(s, c, **ck)  # noqa: E731
            hs = None
            try:
                hs = hasher_hash(secret)
                ans = "ok " + cps(hs)
            except Exception as e:  # noqa: BLE001
                ans = "err " + errname(e)
            s_m.add_raw(" ".join(["vfyS", name, "hash", sec_arg(secret)] + hargs), ans, name + ":hash")
            if hs is None:
                # a string to verify against nevertheless: made from a secret the class accepts
                try:
                    hs = hasher_hash("pw")
                except Exception:  # noqa: BLE001
                    try:
                        hs = (h.using(**kw) if kw else h).hash("pw", **({"user": "u"} if name in USER else {}))
                    except Exception:  # noqa: BLE001
                        continue
            secs = [secret] + near(rng, name, secret)
            o = other_form(secret)
            if o is not None:
                secs.append(o)
            if name == "lmhash":
                # non-ASCII TEXT is encoded with the OEM code page: outside the model
                secs = [x for x in secs if not (isinstance(x, str) and not x.isascii() and "\ud800" not in x)]
            cands = mutate(rng, hs)
            for k, c in enumerate(cands):
                for sec in (secs if k < 2 else secs[:2]):
                    s_m.add_raw(" ".join(["vfyS", name, "verify", sec_arg(sec), cps(c)] + cargs), call(lambda: hasher_verify(sec, c), tf), name + ":verify")
                try:
                    c.encode("ascii")
                    s_m.add_raw(f"vfyS {name} identify {cps(c)}", call(lambda: hh.identify(c), tf), name + ":identify")
                except UnicodeEncodeError:
                    s_m.add_raw(f"vfyS {name} identify {cps(c)}", call(lambda: hh.identify(c), tf), name + ":identify")


def canon(o):
    """NullPasswordError is a ValueError (errname() does not single it out)"""
    return "err ValueError" if o == "err NullPasswordError" else o


def correspond(ctx):
    s_m = Suite(ctx, "c01-static-model", model_canon=canon)
    model_suite(ctx, s_m)
    return s_m.result()


if __name__ == "__main__":
    import argparse
    import json
    import time

    sys.path.insert(0, os.path.dirname(os.path.dirname(os.path.abspath(__file__))))
    from runner import Ctx  # type: ignore

    ap = argparse.ArgumentParser()
    ap.add_argument("--thorough", action="store_true")
    ap.add_argument("--seed", type=int, default=1)
    ap.add_argument("--only", default="")
    a = ap.parse_args()
    cx = Ctx("C01static", "thorough" if a.thorough else "quick", a.seed)
    t0 = time.time()
    sm = Suite(cx, "c01-static-model", model_canon=canon)
    model_suite(cx, sm, [x for x in a.only.split(",") if x] or None)
    res = sm.result()
    print(json.dumps({"cases": res["cases"], "mismatches": len(res["mismatches"]), "unmodelled": res["unmodelled"], "seconds": round(time.time() - t0, 1)}))
    for m in res["mismatches"][:12]:
        print("MISMATCH", json.dumps(m)[:600])
    print(json.dumps(res["distribution"], indent=0)[:6000])
    sys.exit(1 if res["mismatches"] else 0)
