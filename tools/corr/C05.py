"""C05 — size limits: no silent truncation when forbidden, no oversized passwords."""
from __future__ import annotations

import warnings

from . import verify_common as vc
from .common import Oracle, Suite, errname, hx, merge
from .formats_common import cps

GEN_UNITS = ["Verify", "Handlers", "ShaCrypt", "B64", "FormatDigests", "CryptoDigest", "SaltGen"]
LEAN_TARGETS = ["PasslibVerif.Props.C05", "PasslibVerif.Props.C05Util"]
ASSUMPTIONS = [
    "that a format's algorithm reads only its first n bytes (ReadsOnly n) is a fact about the algorithm: a theorem for bcrypt's key schedule (C11, 72 bytes), checked on the real hashers for DES-based and LM/cisco formats",
    "the statement lists of validate_secret, TruncateMixin._check_truncate_policy, GenericHandler.hash / verify are pinned by the translator unit Verify",
]
EXPLANATION = (
    "Theorems (Props.C05) for ANY hasher in the generic hash/verify model: with truncate_error set, hash refuses every secret longer than the limit IN BYTES (text secrets are "
    "measured after UTF-8 encoding) and a successful hash means nothing was cut; with it clear the policy never fires and exactly the first n bytes matter in hash and verify "
    "alike; oversized secrets (> 4096, the value read from the running library) are refused by hash and verify before anything else; NUL bytes are refused by the "
    "crypt()-compatible hashers instead of ending the secret; the shipped truncating hashers all have the generic shape or cisco's own (reflected table, decide). "
    "PROVED NEGATIVE (recorded finding): truncate_error guards hash only — a secret of exactly n bytes is hashed whole, yet every extension of it verifies. "
    "Correspondence: truncating hashers x truncate_error on/off (hasher and context-wide) x byte lengths n-1, n, n+1 built from 1-,2-,3-,4-byte characters as text and bytes; "
    "all hashers x lengths 4095/4096/4097 through the hasher and through CryptContext; NUL at every position; the compiled model for the four crypt formats."
)
ONLY_CORRESPONDENCE = ["ReadsOnly n for des_crypt / crypt16 / lmhash / cisco (explored on the real code)"]

CHARS = ["a", "é", "€", "𝄞"]        # 1, 2, 3, 4 UTF-8 bytes


def build(nbytes, ch, rng):
    """a text of exactly nbytes UTF-8 bytes made of `ch` (padded with ASCII when the width does not divide)"""
    w = len(ch.encode())
    s = ch * (nbytes // w)
    s += "".join(rng.choice("bcdfg") for _ in range(nbytes - len(s.encode())))
    assert len(s.encode()) == nbytes
    return s


def oracle(ctx, o, first_only=False):
    warnings.simplefilter("ignore")
    from passlib import exc
    from passlib.context import CryptContext

    rng = ctx.rng
    fails = []

    def chk(tag, ok, inp, observed=None, expected=None):
        o.check(tag, ok, inp, observed, expected)
        if not ok:
            fails.append({"input": inp, "observed": observed, "expected": expected})

    # ---- 1. truncating hashers
    for name in ["des_crypt", "crypt16", "bcrypt", "django_bcrypt", "ldap_bcrypt", "ldap_des_crypt", "django_des_crypt", "lmhash", "cisco_pix", "cisco_asa"]:
        h = vc.handler(name)
        n = getattr(h, "wrapped", h).truncate_size
        ck = vc.ctx_kwds(h)
        cheap = {"rounds": 4} if "bcrypt" in name else {}
        idents = [None]
        if "bcrypt" in name:
            # every ident the hasher can produce ($2x$ is recognised only); the legacy $2$ variant repeats the password, which must not hide the limit
            idents = [i.strip("$") for i in getattr(getattr(h, "wrapped", h), "ident_values", ()) if "2x" not in i] or [None]
        for ch, ident in [(c_, i_) for c_ in CHARS for i_ in idents]:
            if ident is not None:
                cheap = {"rounds": 4, "ident": ident}
            if name in ("lmhash",) and ch != "a":
                continue     # cp437 text: one byte per character
            for te in (False, True):
                if name in ("cisco_pix", "cisco_asa"):
                    hh, modes = h, ["fixed"]
                    if not te:
                        continue
                else:
                    hh = h.using(truncate_error=te, **cheap)
                    modes = ["hasher", "context"]
                for mode in modes:
                    for ln in (n - 1, n, n + 1, n + 5):
                        pw = build(ln, ch, rng)
                        for form in (pw, pw.encode()):
                            inp = {"op": "truncate", "hasher": name, "truncate_error": te, "via": mode, "bytes": ln, "char": ch, "as": type(form).__name__}
                            if ident is not None:
                                inp["ident"] = ident
                            if mode == "context":
                                c = CryptContext([name], truncate_error=te, **{f"{name}__{k}": v for k, v in cheap.items()})
                                do_hash = lambda f=form: c.hash(f, **ck)
                                do_verify = lambda s, hs: c.verify(s, hs, **ck)
                            else:
                                do_hash = lambda f=form: hh.hash(f, **ck)
                                do_verify = lambda s, hs: hh.verify(s, hs, **ck)
                            st, hs = vc.safe_call(do_hash)
                            if te and ln > n:
                                chk(name + ":refuses-overlong", st == "err" and isinstance(hs, (exc.PasswordTruncateError, exc.PasswordSizeError)), inp, errname(hs) if st == "err" else hs,
                                    "PasswordTruncateError (limit counted in bytes)")
                                continue
                            if st == "err":
                                chk(name + ":hash-succeeds", False, inp, errname(hs) + ": " + str(hs)[:80], "a hash")
                                continue
                            b = pw.encode()
                            ext = b + b"Zq"
                            if ln < n:
                                # the whole secret is used: no extension verifies, a shorter one neither
                                st2, v = vc.safe_call(lambda: do_verify(ext, hs))
                                chk(name + ":whole-secret-used", (st2 == "ok" and v is False) or (st2 == "err" and name.startswith("cisco")), inp, str(v)[:60], "an extension does not verify")
                            elif not te:
                                # silent truncation: exactly the first n BYTES matter
                                st2, v = vc.safe_call(lambda: do_verify(b[:n] + b"Qz9", hs))
                                chk(name + ":first-n-bytes-matter", st2 == "ok" and v is True, inp, str(v)[:60], "anything after the first n bytes is ignored")
                                alt = bytearray(b[:n])
                                alt[n - 1] ^= 1
                                st3, v3 = vc.safe_call(lambda: do_verify(bytes(alt) + b[n:], hs))
                                if name != "lmhash" and vc.eff(name, bytes(alt)) != vc.eff(name, b[:n]):
                                    chk(name + ":byte-n-matters", st3 == "ok" and v3 is False or st3 == "err", inp, str(v3)[:60], "a change inside the first n bytes is noticed")
                            st4, v4 = vc.safe_call(lambda: do_verify(form, hs))
                            chk(name + ":verifies-own", st4 == "ok" and v4 is True, inp, str(v4)[:60], "True")
                if fails and first_only:
                    return fails
    # ---- 1b. lmhash hashes the UPPER-CASED text in its code page: the limit applies to those bytes (ß -> "SS" grows by one)
    lm = vc.handler("lmhash")
    for pre, grows in (("a" * 13, True), ("a" * 12, False), ("a" * 14, True), ("", False)):
        pw = pre + "\u00df"
        eff = pw.upper().encode("cp437")
        for mode in ("hasher", "context"):
            inp = {"op": "lmhash-case-expansion", "secret": pw, "via": mode, "hashed_bytes": len(eff)}
            if mode == "hasher":
                st, r = vc.safe_call(lambda: lm.using(truncate_error=True).hash(pw))
            else:
                st, r = vc.safe_call(lambda: CryptContext(["lmhash"], truncate_error=True).hash(pw))
            if len(eff) > 14:
                chk("lmhash:refuses-overlong-after-uppercasing", st == "err" and isinstance(r, exc.PasswordTruncateError), inp, errname(r) if st == "err" else r,
                    "PasswordTruncateError: the upper-cased text is longer than 14 bytes")
            else:
                chk("lmhash:accepts-within-limit-after-uppercasing", st == "ok", inp, errname(r) if st == "err" else r, "a hash")
    # ---- 1b. the truncation policy given to a context in every spelling — context-wide, per scheme, for one user category through the
    #      `all` pseudo-scheme or through the scheme — is the policy of hash() for exactly the users it names
    for name in ("des_crypt", "bcrypt"):
        h = vc.handler(name)
        n = h.truncate_size
        cheap = {f"{name}__rounds": 4} if name == "bcrypt" else {}
        long_pw, ok_pw = "x" * (n + 3), "x" * n
        spellings = [({"truncate_error": True}, [None, "admin", "staff"]), ({"all__truncate_error": True}, [None, "admin", "staff"]), ({f"{name}__truncate_error": True}, [None, "admin", "staff"]),
                     ({"admin__all__truncate_error": True}, ["admin"]), ({f"admin__{name}__truncate_error": True}, ["admin"]),
                     ({"truncate_error": True, "admin__all__truncate_error": False}, [None, "staff"]), ({"admin__all__truncate_error": True, f"staff__{name}__truncate_error": True}, ["admin", "staff"])]
        for kw, strict_cats in spellings:
            for via in ("constructor", "ini-roundtrip"):
                c = CryptContext([name], **cheap, **kw)
                if via == "ini-roundtrip":
                    c = CryptContext.from_string(c.to_string())
                for cat in (None, "admin", "staff"):
                    inp = {"op": "context-truncate-policy", "hasher": name, "kwds": kw, "via": via, "category": cat}
                    st, r = vc.safe_call(lambda: c.hash(long_pw, category=cat))
                    st2, r2 = vc.safe_call(lambda: c.hash(ok_pw, category=cat))
                    if cat in strict_cats:
                        good = st == "err" and isinstance(r, exc.PasswordTruncateError) and st2 == "ok"
                        want = "PasswordTruncateError for the overlong password, a hash for one of exactly the limit"
                    else:
                        good = st == "ok" and st2 == "ok"
                        want = "a hash (no policy for this category)"
                    chk(name + ":context-truncate-policy", good, inp, (errname(r) if st == "err" else "hashed", errname(r2) if st2 == "err" else "hashed"), want)
        if fails and first_only:
            return fails
    # ---- 2. the library-wide maximum, every hasher and CryptContext
    from .formats_common import EXPENSIVE

    for name in vc.all_names():
        h = vc.handler(name)
        hh = vc.using(h, vc.cheap_settings(h, rng))
        ck = vc.ctx_kwds(h)
        sample = hh.hash("pw", **ck) if name not in ("cisco_pix", "cisco_asa") or True else None
        for ln in (4096, 4097):
            pw = "".join(rng.choice("abcdefgh") for _ in range(ln))
            inp = {"op": "max-size", "hasher": name, "length": ln}
            for form in (pw, pw.encode()):
                if ln > 4096:
                    st, r = vc.safe_call(lambda: hh.hash(form, **ck))
                    chk(name + ":oversize-hash-refused", st == "err" and isinstance(r, exc.PasswordSizeError), inp, errname(r) if st == "err" else "accepted", "PasswordSizeError")
                    st, r = vc.safe_call(lambda: hh.verify(form, sample, **ck))
                    chk(name + ":oversize-verify-refused", st == "err" and isinstance(r, exc.PasswordSizeError), inp, errname(r) if st == "err" else str(r), "PasswordSizeError")
                    if name not in vc.DISABLED:
                        c = CryptContext([name])
                        st, r = vc.safe_call(lambda: c.hash(form, **ck))
                        chk(name + ":oversize-context-refused", st == "err" and isinstance(r, exc.PasswordSizeError), inp, errname(r) if st == "err" else "accepted", "PasswordSizeError")
                    if form is pw:
                        # … also when most of it is characters a text normaliser deletes or folds (soft hyphens, zero-width spaces): the limit
                        # applies to the password as given, in hash and verify alike
                        for filler in ("\u00ad", "\u200b"):
                            odd = filler * ln + "pw"
                            try:
                                hh.hash(filler + "pw", **ck)
                            except Exception:  # noqa: BLE001
                                continue            # the format cannot take this character at all (code page, ASCII-only)
                            inp2 = {"op": "max-size-normalisable", "hasher": name, "length": ln + 2, "filler": "U+%04X" % ord(filler)}
                            st, r = vc.safe_call(lambda: hh.hash(odd, **ck))
                            chk(name + ":oversize-hash-refused", st == "err" and isinstance(r, exc.PasswordSizeError), inp2, errname(r) if st == "err" else "accepted", "PasswordSizeError")
                            st, r = vc.safe_call(lambda: hh.verify(odd, sample, **ck))
                            chk(name + ":oversize-verify-refused", st == "err" and isinstance(r, exc.PasswordSizeError), inp2, errname(r) if st == "err" else str(r), "PasswordSizeError")
                            if name not in vc.DISABLED:
                                st, r = vc.safe_call(lambda: CryptContext([name]).verify(odd, sample, **ck))
                                chk(name + ":oversize-context-verify-refused", st == "err" and isinstance(r, exc.PasswordSizeError), inp2, errname(r) if st == "err" else str(r), "PasswordSizeError")
                elif name not in EXPENSIVE and name not in ("sun_md5_crypt", "scrypt", "cisco_pix", "cisco_asa") and form is pw:
                    lim = getattr(getattr(h, "wrapped", h), "truncate_size", None)
                    st, hs = vc.safe_call(lambda: hh.hash(form, **ck))
                    if st == "err":
                        chk(name + ":max-size-accepted", isinstance(hs, (UnicodeEncodeError,)), inp, errname(hs), "a password of exactly the maximum size is accepted")
                        continue
                    if lim is None and name not in vc.DISABLED and vc.BASE.get(name, name) not in ("bigcrypt",):
                        other = pw[:-1] + ("z" if pw[-1] != "z" else "y")
                        st2, v = vc.safe_call(lambda: hh.verify(other, hs, **ck))
                        chk(name + ":last-byte-matters", st2 == "ok" and v is False, inp, str(v)[:60], "a hash without a limit depends on the last byte of a maximum-size password")
        if fails and first_only:
            return fails
    # ---- 2b. a hash without a limit depends on EVERY byte, at every length — block multiples of the underlying primitive included (8-byte
    #      DES segments, 64/128-byte digest blocks): no extension, prefix or last-byte change of the password verifies
    lens = (1, 7, 8, 9, 16, 24, 63, 64, 65, 128) if not ctx.thorough else tuple(range(1, 34)) + (40, 48, 55, 56, 63, 64, 65, 72, 73, 96, 127, 128, 129, 255, 256, 257)
    for name in vc.all_names():
        h = vc.handler(name)
        if getattr(getattr(h, "wrapped", h), "truncate_size", None) is not None or name in vc.DISABLED or name in EXPENSIVE or name in ("sun_md5_crypt", "scrypt"):
            continue
        hh = vc.using(h, vc.cheap_settings(h, rng))
        ck = vc.ctx_kwds(h)
        for ln in lens:
            pw = "".join(rng.choice("abcdefghijklmnopqrstuvwxyz") for _ in range(ln))
            inp = {"op": "every-byte-matters", "hasher": name, "length": ln, "secret": pw}
            st, hs = vc.safe_call(lambda: hh.hash(pw, **ck))
            if st == "err":
                chk(name + ":hash", False, inp, errname(hs), "a hash")
                continue
            others = {"extension": pw + "x", "long-extension": pw + "y" * 9, "last-byte": pw[:-1] + ("z" if pw[-1] != "z" else "y"), "prefix": pw[:-1], "first-byte": ("0" + pw[1:])}
            obs = {"same": vc.safe_call(lambda: hh.verify(pw, hs, **ck))[1]}
            for k, alt in others.items():
                obs[k] = vc.safe_call(lambda: hh.verify(alt, hs, **ck))[1]
            ok = obs["same"] is True and all(obs[k] is False for k in others)
            chk(name + ":every-byte-matters", ok, inp, {k: (v if isinstance(v, bool) else errname(v)) for k, v in obs.items()}, "only the password itself verifies")
        if fails and first_only:
            return fails
    # ---- 3. NUL at every position
    for name in sorted(vc.NUL_REFUSING | vc.NUL_AS_DATA):
        h = vc.handler(name)
        hh = vc.using(h, vc.cheap_settings(h, rng))
        base = b"abcdefghij"
        good = hh.hash(base[:5])
        # … and in a password that is not UTF-8 (the OS crypt() cannot take it: the pure-Python code path), long enough to put the NUL
        # beyond the format's truncation limit as well
        lim = getattr(h, "truncate_size", None) or 8
        base2 = b"\xffbcdefgh" + bytes(0x61 + (k % 26) for k in range(lim + 4))
        cases = [(base, i) for i in range(len(base) + 1)] + [(base2, i) for i in sorted({0, 1, 7, 8, 9, lim - 1, lim, lim + 1, len(base2)})]
        for b0, i in cases:
            pw = b0[:i] + b"\x00" + b0[i:]
            inp = {"op": "nul", "hasher": name, "position": i, "base": b0.hex()}
            if b0 is base2:
                st, r = vc.safe_call(lambda: hh.hash(pw))
                if name in vc.NUL_AS_DATA:
                    continue
                chk(name + ":nul-hash-refused-non-utf8", st == "err" and isinstance(r, ValueError), inp, errname(r) if st == "err" else r, "a value error wherever the NUL is")
                g2 = hh.hash(b0)
                st, r = vc.safe_call(lambda: hh.verify(pw, g2))
                chk(name + ":nul-verify-refused-non-utf8", st == "err" and isinstance(r, ValueError), inp, errname(r) if st == "err" else str(r)[:60], "a value error wherever the NUL is")
                continue
            st, r = vc.safe_call(lambda: hh.hash(pw))
            if name == "crypt16" and i == len(base):
                continue        # a trailing NUL is the zero padding of the DES key (part of the recorded finding)
            if name in vc.NUL_AS_DATA:
                # bcrypt_sha256: the secret is pre-hashed (HMAC-SHA256, base64) before it reaches bcrypt: NUL bytes are ordinary input, nothing is cut.
                # sun_md5_crypt / crypt16 hash the NUL as data too (recorded finding): at least the secret is not cut there
                chk(name + ":nul-is-data", st == "ok" and hh.verify(pw, r) is True and hh.verify(pw.split(b"\x00")[0], r) is False, inp, str(r)[:60], "NUL is part of the secret")
                continue
            chk(name + ":nul-hash-refused", st == "err" and isinstance(r, ValueError), inp, errname(r) if st == "err" else r, "a value error, not a hash of the part before the NUL")
            st, r = vc.safe_call(lambda: hh.verify(base[:5] + b"\x00" + base[5:], good))
            chk(name + ":nul-verify-not-true", not (st == "ok" and r is True), inp, str(r)[:60], "the password is not cut at the NUL")
            # refused, not merely unequal: verify and genhash, text and bytes, through a context too
            for form in (pw, pw.decode()):
                for what, call in (("verify", lambda: hh.verify(form, good)), ("genhash", lambda: hh.genhash(form, good)),
                                   ("context-verify", lambda: CryptContext([name]).verify(form, good))):
                    st, r = vc.safe_call(call)
                    chk(name + ":nul-refused-by-" + what, st == "err" and isinstance(r, ValueError), dict(inp, call=what, **{"as": type(form).__name__}),
                        errname(r) if st == "err" else str(r)[:60], "a value error")
    return fails


def correspond(ctx):
    warnings.simplefilter("ignore")
    o = Oracle(ctx, "size-limits-real-code")
    s_m = Suite(ctx, "crypt-size-nul-model", model_canon=lambda x: "err ValueError" if x == "err NullPasswordError" else x)
    rng = ctx.rng
    # the compiled generic model (instantiated with the four crypt hashers): size limit and NUL refusal, text and bytes
    for name in ("md5_crypt", "sha256_crypt"):
        h = vc.handler(name)
        for ln in (4097, 4100, 8000):
            # (a text secret under 4096 characters whose UTF-8 is longer is ACCEPTED and computed: only md5_crypt's model is asked to —
            #  sha-crypt's digest DP hashes len(secret)**2 bytes, far too much for the list-based transcription)
            for form in ("a" * ln, b"a" * ln) + (("é" * (ln // 2 + 1),) if name == "md5_crypt" and ln == 4097 else ()):
                sec = ("t:" + cps(form)) if isinstance(form, str) else ("b:" + hx(form))
                try:
                    ans = "ok " + cps(h.using(salt="ab", **({"rounds": 1000} if "sha" in name else {})).hash(form))
                except Exception as e:  # noqa: BLE001
                    ans = "err " + errname(e)
                s_m.add_raw(f"vfy {name} hash {sec} 97,98 {1000 if 'sha' in name else 0}", ans, name + ":oversize")
        for i in range(0, 9):
            pw = b"abcdefgh"[:i] + b"\x00" + b"abcdefgh"[i:]
            for form in (pw, pw.decode()):
                sec = ("t:" + cps(form)) if isinstance(form, str) else ("b:" + hx(form))
                try:
                    ans = "ok " + cps(h.using(salt="ab", **({"rounds": 1000} if "sha" in name else {})).hash(form))
                except Exception as e:  # noqa: BLE001
                    ans = "err " + errname(e)
                s_m.add_raw(f"vfy {name} hash {sec} 97,98 {1000 if 'sha' in name else 0}", ans, name + ":nul")
    oracle(ctx, o)
    # the helpers under the crypt() back ends: utf8_truncate / utf8_repeat_string / repeat_string / safe_crypt / test_crypt (suite `putil`)
    from . import c05_util

    s_u = Suite(ctx, "c05-util-model")
    c05_util.model_suite(ctx, s_u)
    return merge(s_m, o, s_u)


def search(ctx, broken, seeds):
    o = Oracle(ctx, "search")
    fails = oracle(ctx, o, first_only=True)
    return fails[0] if fails else None


def replay(ctx, inp):
    warnings.simplefilter("ignore")
    if inp.get("op") == "truncate-bytes":
        from passlib import exc
        from passlib.hash import des_crypt

        try:
            hs = des_crypt.using(truncate_error=True).hash("\u00e9" * 5)      # 5 characters, 10 bytes, limit 8 bytes
            return {"fails": True, "observed": hs}
        except exc.PasswordTruncateError as e:
            return {"fails": False, "observed": "refused: " + str(e)}
    if inp.get("op") == "nul-accepted":
        h = vc.handler(inp["hasher"])
        try:
            hs = h.hash(b"ab\x00cd")
            return {"fails": True, "observed": hs}
        except ValueError as e:
            return {"fails": False, "observed": "refused: " + str(e)}
    if inp.get("op") == "limit-sized-extension":
        h = vc.handler(inp["hasher"]).using(truncate_error=True)
        n = h.truncate_size
        pw = b"a" * n
        hs = h.hash(pw)
        return {"fails": h.verify(pw + b"x", hs) is True, "observed": {"hash": hs, "verify_extension": h.verify(pw + b"x", hs)}}
    r = search(ctx, [], [])
    return {"fails": r is not None, "observed": r}
