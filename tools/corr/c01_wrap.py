"""C01 for the hashers built on another hasher (PrefixWrapper family): the compiled hash / verify / identify model (`vfyW` suite:
`Model.VerifyFmt.Wrap` — `PrefixWrapper.hash / verify / identify` over the wrapped class's model) vs the real hashers.

  ldap_des_crypt ldap_bsdi_crypt ldap_sha1_crypt ldap_bcrypt django_bcrypt ldap_md5_crypt ldap_sha256_crypt ldap_sha512_crypt
  bsd_nthash ldap_hex_md5 ldap_hex_sha1 ldap_pbkdf2_sha1 ldap_pbkdf2_sha256 ldap_pbkdf2_sha512 roundup_plaintext

Run alone:  cd <verif> && PASSLIB_REPO=/tmp/repo_clean /venv/bin/python -m tools.corr.c01_wrap [--thorough] [--seed N] [--only name,name]
"""
from __future__ import annotations

import warnings

from .common import Suite, hx
from .common import errname
from .formats_common import cps

H64 = "./0123456789ABCDEFGHIJKLMNOPQRSTUVWXYZabcdefghijklmnopqrstuvwxyz"
BC64 = "./ABCDEFGHIJKLMNOPQRSTUVWXYZabcdefghijklmnopqrstuvwxyz0123456789"

#: name -> (cases in the quick tier, prefix)
NAMES = {
    "ldap_des_crypt": (14, "{CRYPT}"), "ldap_bsdi_crypt": (10, "{CRYPT}"), "ldap_sha1_crypt": (10, "{CRYPT}"),
    "ldap_bcrypt": (3, "{CRYPT}"), "django_bcrypt": (1, "bcrypt$"),
    "ldap_md5_crypt": (8, "{CRYPT}"), "ldap_sha256_crypt": (3, "{CRYPT}"), "ldap_sha512_crypt": (3, "{CRYPT}"),
    "bsd_nthash": (12, "$3$$"), "ldap_hex_md5": (10, "{MD5}"), "ldap_hex_sha1": (10, "{SHA}"),
    "ldap_pbkdf2_sha1": (6, "{PBKDF2}"), "ldap_pbkdf2_sha256": (6, "{PBKDF2-SHA256}"), "ldap_pbkdf2_sha512": (6, "{PBKDF2-SHA512}"),
    "roundup_plaintext": (14, "{plaintext}"),
}
BCRYPT = ("ldap_bcrypt", "django_bcrypt")
#: wrappers over a class with the generic hash / verify: the HASHER view (`wrapHasher`) is compared too, where the theorem says it agrees
GENERIC = [n for n in NAMES if n not in BCRYPT and n != "roundup_plaintext"]
TRUNC = {"ldap_des_crypt": 8, "ldap_bcrypt": 72, "django_bcrypt": 72}
#: strings of other formats / other wrappers, for the "foreign prefix" probes
FOREIGN = ["$1$abcdefgh$G6Ysq3pDt6bGGRVKVkkuD/", "abJnggxhB/yWI", "{CRYPT}abJnggxhB/yWI", "{CRYPT}_3...rasmMfmL4/oLtBs",
           "{CRYPT}$2a$04$CCCCCCCCCCCCCCCCCCCCC.K7Qr0se1MxuggH4aP4YgB.U2Em1pGSK", "{crypt}abJnggxhB/yWI", "{CRYPT}",
           "bcrypt$$2y$04$CCCCCCCCCCCCCCCCCCCCC.HrBIdffznV69GxsYPA9PLSACo3k11D6", "{MD5}5f4dcc3b5aa765d61d8327deb882cf99",
           "{SHA}5baa61e4c9b93f3f0682250b6cf8331b7ee68fd8", "$3$$8846f7eaee8fb117ad06bdd830b7586c", "{plaintext}password",
           "{PBKDF2}1$c2FsdA$v9b3Vq0HqAKiBcfOBZUXhHy6.h4", "$pbkdf2$1$c2FsdA$v9b3Vq0HqAKiBcfOBZUXhHy6.h4", "{CRYPT}$sha1$1$abc$yYwwZlbqStRZWl0b5ZW7CqhdqHDm",
           "{CRYPT}$1$abcdefgh$G6Ysq3pDt6bGGRVKVkkuD/", "{plaintext}"]


def handler(name):
    warnings.simplefilter("ignore")
    from passlib import registry

    return registry.get_crypt_handler(name)


def sec_arg(secret):
    return ("t:" + cps(secret)) if isinstance(secret, str) else ("b:" + hx(secret))


def rnd(rng, alphabet, n):
    return "".join(rng.choice(alphabet) for _ in range(n))


def real(thunk, show):
    try:
        return "ok " + show(thunk())
    except Exception as e:  # noqa: BLE001
        return "err " + errname(e)


def tf(b):
    return "True" if b else "False"


def gen_secret(rng, name, k):
    """bytes; the boundary secrets first (empty, one byte, NUL, not UTF-8, multi-byte text, around the truncation limit), then random"""
    lim = TRUNC.get(name)
    fixed = [b"", b"a", b"pass\x00word", b"\xff\xfe\x80", "pässwörd€\U0001d11e".encode(), b"password"]
    if lim:
        fixed += [b"x" * (lim - 1), b"y" * lim, b"z" * (lim + 1)]
    if name in BCRYPT:
        fixed = [b"", b"y" * 72, b"z" * 73]
    if k < len(fixed):
        return fixed[k]
    lens = [0, 1, 2, 7, 8, 9, 16, 55, 56, 63, 64, 65, 72, 73, 100, 255]
    n = rng.choice(lens)
    kind = rng.choice(["ascii", "ascii", "text", "bytes"])
    if kind == "ascii":
        return bytes(rng.choice(b"abcdefgXYZ0189 !~_{}$") for _ in range(n))
    if kind == "text":
        s = ""
        while len(s.encode()) < n:
            s += rng.choice("aZ9é€\U0001d11eß ")
        return s.encode()
    return bytes(rng.randrange(0 if rng.random() < 0.2 else 1, 256) for _ in range(n))


def gen_settings(rng, name):
    """(keywords for `using()`, setting arguments of the model line)"""
    te = rng.random() < 0.3
    if name == "ldap_des_crypt":
        salt = rnd(rng, H64, 2)
        return dict(salt=salt, truncate_error=te), f"{cps(salt)} {int(te)}"
    if name == "ldap_bsdi_crypt":
        salt = rnd(rng, H64, 4)
        rounds = rng.choice([1, 1, 3, 5, 7, 21, 64])
        return dict(salt=salt, rounds=rounds), f"{cps(salt)} {rounds | 1}"
    if name == "ldap_sha1_crypt":
        salt = rnd(rng, H64, rng.choice([0, 1, 8, 8, 64]))
        rounds = rng.choice([1, 2, 7, 50])
        return dict(salt=salt, rounds=rounds), f"{cps(salt)} {rounds}"
    if name == "ldap_md5_crypt":
        salt = rnd(rng, H64, rng.choice([0, 1, 8, 8]))
        return dict(salt=salt), cps(salt)
    if name in ("ldap_sha256_crypt", "ldap_sha512_crypt"):
        salt = rnd(rng, H64, rng.choice([0, 1, 16]))
        rounds = rng.choice([1000, 1001, 5000])
        return dict(salt=salt, rounds=rounds), f"{cps(salt)} {rounds}"
    if name in BCRYPT:
        salt = rnd(rng, BC64, 22)
        ident = rng.choice(["2", "2a", "2b", "2y"])
        return dict(salt=salt, rounds=4, ident=ident, truncate_error=te), f"{cps('$' + ident + '$')} {cps(salt)} 4 {int(te)}"
    if name.startswith("ldap_pbkdf2_"):
        salt = bytes(rng.randrange(256) for _ in range(rng.choice([0, 1, 16, 16, 64])))
        rounds = rng.choice([1, 2, 10, 50])
        return dict(salt=salt, rounds=rounds), f"{','.join(str(b) for b in salt) or '-'} {rounds}"
    return {}, ""


def mutations(rng, name, hs, pfx):
    last = hs[-1] if hs else "a"
    alt = "." if last != "." else "/"
    lo = (len(pfx) + 5) if name == "ldap_bsdi_crypt" else 0      # the 24-bit rounds field of bsdi_crypt is left alone (cost)
    i = rng.randrange(lo, max(lo + 1, len(hs)))
    body = hs[len(pfx):]
    return [hs, hs[:-1] + alt, hs[:-1], hs + "\n", body, pfx.lower() + body, pfx[:-1] + body, pfx + pfx + body, "", pfx,
            hs[:i] + rng.choice("$.aZ9,_ı") + hs[i + 1:], " " + hs, rng.choice(FOREIGN)]


def one_case(ctx, s_m, name, h, secret, kw, margs, pfx, light=False):
    rng = ctx.rng
    form = secret
    if rng.random() < 0.45:
        try:
            form = secret.decode("utf-8")
        except UnicodeDecodeError:
            pass
    hh = h.using(**kw) if kw else h
    try:
        hs = hh.hash(form)
        ans = "ok " + cps(hs)
    except Exception as e:  # noqa: BLE001
        hs = None
        ans = "err " + errname(e)
    s_m.add_raw(f"vfyW {name} hash {sec_arg(form)} {margs}".rstrip(), ans, name + ":hash")
    if hs is None:
        kw2 = {k: v for k, v in kw.items() if k != "truncate_error"}
        hs = (h.using(**kw2) if kw2 else h).hash("pw")
    cands = mutations(rng, name, hs, pfx)
    if light or name in BCRYPT:
        cands = [cands[0], cands[1], cands[4], cands[-1]]
    secs = [form, form + ("x" if isinstance(form, str) else b"x")] + ([secret] if form is not secret else [])
    for k, c in enumerate(cands):
        use = secs if k < 2 else secs[:1]
        for sec in use:
            s_m.add_raw(f"vfyW {name} verify {sec_arg(sec)} {cps(c)}", real(lambda: hh.verify(sec, c), tf), name + ":verify")
        s_m.add_raw(f"vfyW {name} identify {cps(c)}", real(lambda: hh.identify(c), tf), name + ":identify")
    if name in GENERIC and not light:
        # the hasher view agrees with the code wherever the secret passes the size check (theorem wrapVerify_eq_verify)
        for c in cands[:6]:
            s_m.add_raw(f"vfyW {name} hverify {sec_arg(form)} {cps(c)}", real(lambda: hh.verify(form, c), tf), name + ":hasher-view")
    lim = TRUNC.get(name)
    if lim and len(secret) >= lim and not light:
        for other in (secret[:lim], secret[:lim] + b"tail", secret[: lim - 1] + bytes([secret[lim - 1] ^ 1])):
            s_m.add_raw(f"vfyW {name} verify {sec_arg(other)} {cps(hs)}", real(lambda: hh.verify(other, hs), tf), name + ":verify-equiv")


def model_suite(ctx, s_m, only=None):
    warnings.simplefilter("ignore")
    rng = ctx.rng
    T = ctx.thorough
    for name, (n, pfx) in NAMES.items():
        if only and name not in only:
            continue
        h = handler(name)
        if T:
            n *= 10
        for k in range(n):
            secret = gen_secret(rng, name, k)
            kw, margs = gen_settings(rng, name)
            one_case(ctx, s_m, name, h, secret, kw, margs, pfx)
        # ---- the library-wide size limit (characters for text, bytes for bytes) and what cannot be encoded; the wrapper looks at the
        #      prefix BEFORE the wrapped class looks at the size of the secret
        big = [b"a" * 4096, b"a" * 4097, "€" * 4096, "€" * 4097, "\ud800", "a\udfffb"]
        # (exactly-4096-byte secrets are left to the inner hashers' own suites: the Lean list model of the iterated digests costs minutes per
        #  such secret, and the wrapper adds nothing to the digest — also in the thorough tier, where this once took hours)
        if name in BCRYPT or name in ("ldap_bsdi_crypt", "ldap_sha256_crypt", "ldap_sha512_crypt", "ldap_sha1_crypt", "ldap_md5_crypt", "ldap_des_crypt"):
            big = [b"a" * 4097, "€" * 4097, "\ud800"] + (["é" * 2049] if name in BCRYPT else [])
        for sec in big:
            kw, margs = gen_settings(rng, name)
            if name == "ldap_bsdi_crypt":
                kw["rounds"] = 1
                margs = margs.rsplit(" ", 1)[0] + " 1"
            if name in ("ldap_sha256_crypt", "ldap_sha512_crypt"):
                kw["rounds"] = 1000
                margs = margs.rsplit(" ", 1)[0] + " 1000"
            hh = h.using(**kw) if kw else h
            s_m.add_raw(f"vfyW {name} hash {sec_arg(sec)} {margs}".rstrip(), real(lambda: hh.hash(sec), cps), name + ":hash-big")
            kw2 = {k: v for k, v in kw.items() if k != "truncate_error"}
            hs0 = (h.using(**kw2) if kw2 else h).hash("pw")
            for c in (hs0, hs0[len(pfx):], hs0[:-1], ""):
                s_m.add_raw(f"vfyW {name} verify {sec_arg(sec)} {cps(c)}", real(lambda: hh.verify(sec, c), tf), name + ":verify-big")
            if name in GENERIC and len(sec) > 4096:
                # with the prefix present the hasher view agrees even for an oversized secret (the disagreement needs BOTH: wrapVerify_oversized_foreign)
                s_m.add_raw(f"vfyW {name} hverify {sec_arg(sec)} {cps(hs0)}", real(lambda: hh.verify(sec, hs0), tf), name + ":hasher-view-big")

    # ---- django_bcrypt_sha256 over the CODE model of `_calc_checksum` (Model/Code/Wrap.lean, builtin backend flags)
    name = "django_bcrypt_sha256_code"
    if not only or name in only:
        h = handler("django_bcrypt_sha256")
        secs = [b"", b"pass\x00word", "p\u00e4ss" * 30, b"\xff" * 100, "a" * 4097, "\ud800"]
        for sec in secs[: (6 if T else 4)] + (secs[4:] if not T else []):
            salt = rnd(rng, BC64, 22)
            ident = rng.choice(["2", "2a", "2b", "2y"])
            hh = h.using(salt=salt, rounds=4, ident=ident)
            margs = f"{cps('$' + ident + '$')} {cps(salt)} 4"
            ans = real(lambda: hh.hash(sec), cps)
            s_m.add_raw(f"vfyW {name} hash {sec_arg(sec)} {margs}", ans, name + ":hash")
            hs = hh.hash(sec) if ans.startswith("ok") else hh.hash("pw")
            for c in (hs, hs[:-1] + ("." if hs[-1] != "." else "/"), hs[:-1]):
                s_m.add_raw(f"vfyW {name} verify {sec_arg(sec)} {cps(c)}", real(lambda: hh.verify(sec, c), tf), name + ":verify")


def canon(o):
    # NullPasswordError is a ValueError; the os_crypt back end refuses NUL with a plain ValueError of its own
    return "err ValueError" if o == "err NullPasswordError" else o


def correspond(ctx, only=None):
    s_m = Suite(ctx, "wrap-family-hash-verify-model", model_canon=canon)
    model_suite(ctx, s_m, only)
    return s_m.result()


if __name__ == "__main__":
    import argparse
    import json
    import os
    import sys
    import time

    here = os.path.dirname(os.path.dirname(os.path.abspath(__file__)))
    sys.path.insert(0, here)
    sys.path.insert(0, os.environ.get("PASSLIB_REPO", "/repo"))
    from runner import Ctx

    ap = argparse.ArgumentParser()
    ap.add_argument("--thorough", action="store_true")
    ap.add_argument("--seed", type=int, default=1)
    ap.add_argument("--only", default="")
    a = ap.parse_args()
    ctx = Ctx("C01", "thorough" if a.thorough else "quick", a.seed)
    t0 = time.time()
    res = correspond(ctx, set(a.only.split(",")) if a.only else None)
    print(json.dumps({"cases": res["cases"], "mismatches": len(res["mismatches"]), "unmodelled": res["unmodelled"], "seconds": round(time.time() - t0, 1)}))
    for k, v in res["distribution"].items():
        print(f"  {k}: {v}")
    for m in res["mismatches"][:25]:
        print("MISMATCH", json.dumps(m)[:600])
    sys.exit(1 if res["mismatches"] else 0)
