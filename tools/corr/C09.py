"""C09 — using() gives a hasher that honours its settings; the original is untouched."""
from __future__ import annotations

import warnings

from .common import Oracle, Suite, errname, merge

GEN_UNITS = ["Handlers", "PyUnicode", "UsingSettings", "UsingBool", "Rng", "PyCase", "Decisions", "UsingMisc"]
LEAN_TARGETS = ["PasslibVerif.Props.C09", "PasslibVerif.Props.C09Salt", "PasslibVerif.Props.C09Gen", "PasslibVerif.Props.C09Misc"]
ASSUMPTIONS = [
    "float vary_rounds: the integer `int(default_rounds * vary_rounds)` is taken from the running interpreter (atom); log2-cost hashers with float vary are compared on the real code only",
    "type()-based subclass creation and attribute lookup follow CPython's MRO semantics (modelled as a class table)",
]
EXPLANATION = (
    "Theorems about Model.Rounds.usingRounds (statement-order model of HasRounds.using): results stay inside the hard limits, strict mode "
    "refuses out-of-range values, relaxed mode clamps, a window given in one call is ordered and contains the default, generated rounds stay "
    "in a well-ordered window and are never self-flagged, update check = outside window; class-table frame theorem for isolation. "
    "Props.C09Salt (Model.UsingSalt: HasSalt.using / _clip_to_valid_salt_size / _norm_salt / HasManyIdents.using / _norm_ident / TruncateMixin.using / as_bool, "
    "for every class description, argument and random draw): an accepted salt size lies inside the hard limits, strict mode refuses and relaxed mode clamps to the "
    "nearest limit, an in-range size is taken exactly, the generated salt has exactly the configured size over the class alphabet and passes the hasher's own "
    "_norm_salt (the assert of HasSalt.__init__ cannot trip), a fixed salt is carried by every later hash, the two spellings agree and exclude each other, an "
    "accepted ident is one of ident_values, truncate_error: booleans / recognised words taken, 'not set' keeps the parent's policy, unknown words are value errors "
    "(word sets read from the source each run, disjoint and normalised). "
    "Correspondence: real hashers x chains of using() x values inside/at/beyond limits x relaxed x str/int, attribute snapshots of every "
    "pre-existing class."
)

ROUNDS_HASHERS = ["sha256_crypt", "sha512_crypt", "pbkdf2_sha256", "bsdi_crypt", "sun_md5_crypt", "sha1_crypt", "bcrypt", "phpass", "scrypt", "cta_pbkdf2_sha1"]


class FixedRng:
    def __init__(self, v):
        self.v = v

    def randint(self, a, b):
        return a + self.v % (b - a + 1)

    def getrandbits(self, k):
        return self.v % (1 << k)

    def randrange(self, a, b=None):
        if b is None:
            a, b = 0, a
        return a + self.v % (b - a)


def enc_arg(v):
    if v is None:
        return "N"
    if isinstance(v, str):
        return "s:" + (".".join(str(ord(c)) for c in v) or "-")
    return str(v)


def base_spec(h):
    return f"{h.min_rounds},{'N' if h.max_rounds is None else h.max_rounds},{'N' if h.default_rounds is None else h.default_rounds},{1 if h.name == 'bsdi_crypt' else 0}"


def show_cls(c):
    def o(v):
        return "N" if v is None else str(v)
    vr = c.vary_rounds
    if isinstance(vr, float):
        vr = "f" if vr else "f0"
    return f"{o(c.min_desired_rounds)} {o(c.max_desired_rounds)} {o(c.default_rounds)} {o(vr)}"


def snapshot(cls):
    return {k: repr(v) for k, v in vars(cls).items() if not k.startswith("__")}


def correspond(ctx):
    warnings.simplefilter("ignore")
    import passlib.utils.handlers as uh
    from passlib import registry

    rng = ctx.rng
    s_r = Suite(ctx, "rounds-using-chains")
    s_iso = Suite(ctx, "isolation")
    s_int = Suite(ctx, "py-int")
    iso_violations = []
    for name in ROUNDS_HASHERS:
        h = registry.get_crypt_handler(name)
        lo, hi, d = h.min_rounds, h.max_rounds, h.default_rounds
        log2 = h.rounds_cost == "log2"
        points = sorted({lo - 1, lo, lo + 1, max(lo, d // 2), d - 1, d, d + 1, min(hi, d * 2) if hi else d * 2, hi - 1, hi, hi + 1, 0, -5} if hi else {lo - 1, lo, lo + 1, d, d + 1, 0})
        if log2:
            points = sorted({lo - 1, lo, lo + 1, d - 1, d, d + 1, hi - 1, hi, hi + 1, 0})
        for _ in range(250 if not ctx.thorough else 4000):
            chain = []
            cur = h
            parents = [(h, snapshot(h))]
            failed = None
            for step in range(rng.randrange(1, 4)):
                kw = {}
                for key in ("min_rounds", "max_rounds", "default_rounds", "rounds"):
                    if rng.random() < (0.45 if key != "rounds" else 0.15):
                        v = rng.choice(points)
                        if rng.random() < 0.15:
                            v = rng.choice([str(v), f" {v} ", f"{v}x", "", "1_0", "٣٤"]) if not log2 else str(v)
                        kw[key] = v
                vary = None
                if not log2 and rng.random() < 0.3:
                    vary = rng.choice([0, 1, 7, 100, -1, d // 10, "5", "10%", 0.1, 0.5, "0.25"])
                    kw["vary_rounds"] = vary
                relaxed = rng.random() < 0.4
                if relaxed:
                    kw["relaxed"] = True
                # protocol encoding
                vr_enc = "N"
                if vary is not None:
                    pv = vary
                    try:
                        if isinstance(pv, str):
                            pv = float(pv[:-1]) * 0.01 if pv.endswith("%") else (float(pv) if "." in pv else int(pv))
                    except ValueError:
                        pv = None
                    if isinstance(pv, float):
                        vr_enc = "f" if 0 < pv <= 1 else ("N" if pv == 0 else "-1")  # out-of-range floats are refused like negatives
                        if pv == 0:
                            vr_enc = "0"
                    elif pv is not None:
                        vr_enc = str(pv)
                enc = [enc_arg(kw.get("min_rounds")), enc_arg(kw.get("max_rounds")), enc_arg(kw.get("default_rounds")), enc_arg(kw.get("rounds")), vr_enc, "1" if relaxed else "0"]
                try:
                    nxt = cur.using(**kw)
                except Exception as e:  # noqa: BLE001
                    failed = f"err {errname(e)} @{step}"
                    chain.append(",".join(enc))
                    break
                chain.append(",".join(enc))
                parents.append((nxt, snapshot(nxt)))
                cur = nxt
            line = f"rounds chain {base_spec(h)} {';'.join(chain) or '-'}"
            if failed:
                s_r.add_raw(line, failed, name)
            else:
                qs, ans = [], ["ok " + show_cls(cur)]
                fv = int(cur.default_rounds * cur.vary_rounds) if isinstance(cur.vary_rounds, float) and cur.default_rounds else 0
                for draw in (0, 1, rng.randrange(1 << 30)):
                    qs.append(f"gen:{draw}:{fv}")
                    old = uh.rng
                    uh.rng = FixedRng(draw)
                    try:
                        ans.append("ok " + str(cur._generate_rounds()))
                    except Exception as e:  # noqa: BLE001
                        ans.append("err " + errname(e))
                    finally:
                        uh.rng = old
                    # the whole constructor path of hash(): generated cost must pass the handler's own _norm_rounds
                    qs.append(f"genc:{draw}:{fv}")
                    uh.rng = FixedRng(draw)
                    try:
                        ans.append("ok " + str(cur(use_defaults=True).rounds))
                    except Exception as e:  # noqa: BLE001
                        ans.append("err " + errname(e))
                    finally:
                        uh.rng = old
                for r in sorted({rng.choice(points), lo, d} | ({hi} if hi else set())):
                    if r < lo or (hi and r > hi):
                        continue
                    qs.append(f"needs:{r}")
                    try:
                        obj = cur(rounds=r, use_defaults=True) if "salt" in cur.setting_kwds else cur(rounds=r)
                        ans.append("ok " + str(int(bool(obj._calc_needs_update()))))
                    except Exception as e:  # noqa: BLE001
                        ans.append("err " + errname(e))
                vr = cur.vary_rounds
                if isinstance(vr, float) and log2:
                    continue
                s_r.add_raw(line + " " + " ".join(qs), " | ".join(ans), name)
            # isolation: every class that existed before a using() call is attribute-for-attribute unchanged
            for cls, snap in parents:
                now = snapshot(cls)
                if now != snap:
                    diff = {k: (snap.get(k), now.get(k)) for k in set(snap) | set(now) if snap.get(k) != now.get(k)}
                    iso_violations.append({"input": line, "impl": f"{cls!r} changed: {diff}", "model": "pre-existing classes are never written"})
        s_iso.add_raw(f"rounds chain {base_spec(h)} -", "ok N N " + ("N" if h.default_rounds is None else str(h.default_rounds)) + " N", name)
    s_iso.mismatches += iso_violations[:10]
    # Python int() semantics used by the model
    for s in ["0", "12", " 12 ", "\t12\n", "1_0", "1__0", "_1", "1_", "+5", "-5", "- 5", "٣٤", "１２", "1٣", "", " ", "12x", "0x10", "1e3", "1.0", "٣_٤", "+-1", "0012", "​12", "\x1f12", "\xa012"] + ["".join(rng.choice("0123456789_ +-٣x") for _ in range(rng.randrange(1, 6))) for _ in range(400)]:
        s_int.add(f"rounds int {','.join(str(ord(c)) for c in s) or '-'}", lambda s=s: str(int(s)), "int()")
    o_set = Oracle(ctx, "settings-honoured")
    settings_oracle(ctx, o_set)
    # salt size / fixed salt / ident / truncation policy: Model.UsingSalt vs synthetic and registered classes
    from . import c09_salt

    s_salt = Suite(ctx, "using-salt-ident-truncate-model")
    c09_salt.model_suite(ctx, s_salt)
    # fshp variant, scrypt block_size / parallelism, bcrypt_sha256 version, scram algs, unix_disabled marker: Model.UsingMisc (suite `umisc`)
    from . import c09_misc

    s_misc = Suite(ctx, "using-misc-model")
    c09_misc.model_suite(ctx, s_misc)
    return merge(s_r, s_iso, s_int, o_set, s_salt, s_misc)


def settings_oracle(ctx, o, first_only=False):
    """the property on the real code for the settings other than the rounds window logic: a derived hasher's hashes carry exactly the configured
    salt size / ident / variant / version / block size / parallelism / algs / marker / truncation policy; values beyond the hard limits are refused,
    or clamped under relaxed=True; chains of using() behave like one call with the last value of each setting; parents stay as they were."""
    warnings.simplefilter("ignore")
    from passlib import exc, registry

    rng = ctx.rng
    fails = []

    def chk(tag, ok, inp, observed=None, expected=None):
        o.check(tag, ok, inp, observed, expected)
        if not ok:
            fails.append({"input": inp, "observed": observed, "expected": expected})

    def parsed(h, hs):
        t = getattr(h, "wrapped", h)
        return t.from_string(h._unwrap_hash(hs) if hasattr(h, "_unwrap_hash") else hs)

    def cheap(h):
        kw = {}
        if "rounds" in (h.setting_kwds or ()):
            kw["rounds"] = max(h.min_rounds, 1) | (1 if "bsdi" in h.name else 0)
            if h.name == "sun_md5_crypt":
                kw["rounds"] = 0
        if h.name == "scrypt":
            kw.update(rounds=1, block_size=1, parallelism=1)
        return kw

    names = [n for n in registry.list_crypt_handlers() if n not in ("argon2", "django_argon2")]
    # ---- salt_size
    for name in sorted(names):
        h = registry.get_crypt_handler(name)
        if "salt_size" not in (h.setting_kwds or ()) or h.min_salt_size == h.max_salt_size:
            continue
        lo, hi = h.min_salt_size, h.max_salt_size
        before = snapshot(getattr(h, "wrapped", h)) if not hasattr(h, "wrapped") else None
        probes = sorted({lo, lo + 1, min(hi or lo + 40, lo + 7), (hi or lo + 40)} |
                        # sizes around the block sizes a generator might work in (a salt drawn in pieces must still have the configured size)
                        {k for k in (31, 32, 33, 63, 64, 65, 100, 127, 128, 129, 200, 255, 256, 257, 1000) if lo <= k <= (hi or lo + 1024)})
        for k in probes:
            inp = {"op": "using", "hasher": name, "kwds": {"salt_size": k}}
            try:
                sub = h.using(salt_size=k, **cheap(h))
                got = len(parsed(sub, sub.hash("pw")).salt)
                chk(name + ":salt_size", got == k, inp, got, k)
                chain = h.using(salt_size=probes[0], **cheap(h)).using(salt_size=k)
                chk(name + ":salt_size-chain", len(parsed(chain, chain.hash("pw")).salt) == k, dict(inp, chain=True), "chained value ignored", k)
            except Exception as e:  # noqa: BLE001
                chk(name + ":salt_size", False, inp, errname(e) + ": " + str(e)[:80], k)
        for k, clamp in ((lo - 1, lo), ((hi + 1) if hi else None, hi)):
            if k is None or k < 0:
                continue
            inp = {"op": "using", "hasher": name, "kwds": {"salt_size": k}}
            try:
                h.using(salt_size=k)
                chk(name + ":salt_size-strict", False, inp, "accepted", "ValueError")
            except ValueError:
                chk(name + ":salt_size-strict", True, inp)
            try:
                sub = h.using(salt_size=k, relaxed=True, **cheap(h))
                chk(name + ":salt_size-relaxed", len(parsed(sub, sub.hash("pw")).salt) == clamp, dict(inp, relaxed=True), "not clamped", clamp)
            except Exception as e:  # noqa: BLE001
                chk(name + ":salt_size-relaxed", False, dict(inp, relaxed=True), errname(e), f"clamped to {clamp}")
        if before is not None:
            chk(name + ":parent-untouched", snapshot(h) == before, {"op": "isolation", "hasher": name}, "parent changed", "unchanged")
        if fails and first_only:
            return fails
    # ---- ident
    for name in sorted(names):
        h = registry.get_crypt_handler(name)
        t = getattr(h, "wrapped", h)
        if "ident" not in (h.setting_kwds or ()) or not getattr(t, "ident_values", None) or name == "bcrypt_sha256":
            continue
        for ident in t.ident_values:
            if "2x" in ident:
                continue
            inp = {"op": "using", "hasher": name, "kwds": {"ident": ident}}
            try:
                sub = h.using(ident=ident, **cheap(h))
                chk(name + ":ident", parsed(sub, sub.hash("pw")).ident == ident, inp, "other ident", ident)
                chain = h.using(ident=t.ident_values[0], **cheap(h)).using(ident=ident)
                chk(name + ":ident-chain", parsed(chain, chain.hash("pw")).ident == ident, dict(inp, chain=True), "chained value ignored", ident)
            except Exception as e:  # noqa: BLE001
                chk(name + ":ident", False, inp, errname(e) + ": " + str(e)[:80], ident)
        for alias, ident in (getattr(t, "ident_aliases", None) or {}).items():
            if "2x" in ident:
                continue
            try:
                sub = h.using(ident=alias, **cheap(h))
                chk(name + ":ident-alias", parsed(sub, sub.hash("pw")).ident == ident, {"op": "using", "hasher": name, "kwds": {"ident": alias}}, "other ident", ident)
            except Exception as e:  # noqa: BLE001
                chk(name + ":ident-alias", False, {"op": "using", "hasher": name, "kwds": {"ident": alias}}, errname(e), ident)
        try:
            h.using(ident="$nosuch$")
            chk(name + ":ident-unknown", False, {"op": "using", "hasher": name, "kwds": {"ident": "$nosuch$"}}, "accepted", "ValueError")
        except ValueError:
            chk(name + ":ident-unknown", True, {"op": "using", "hasher": name})
    # ---- format specific settings
    from passlib.hash import bcrypt_sha256, fshp, scram, scrypt, unix_disabled

    for v, want in ((0, 0), (1, 1), (2, 2), (3, 3), ("0", 0), ("sha1", 0), ("sha256", 1), ("sha512", 3), (b"sha384", 2)):
        for parent in (fshp, fshp.using(variant=3), fshp.using(variant=1).using(rounds=7)):
            inp = {"op": "fshp-variant", "variant": repr(v), "parent_variant": parent.default_variant}
            try:
                sub = parent.using(variant=v, rounds=2)
                chk("fshp:variant", fshp.from_string(sub.hash("pw")).variant == want, inp, fshp.from_string(sub.hash("pw")).variant, want)
            except Exception as e:  # noqa: BLE001
                chk("fshp:variant", False, inp, errname(e), want)
    for bad in (4, -1, "sha999", 1.5):
        try:
            fshp.using(variant=bad)
            chk("fshp:variant-invalid", False, {"op": "fshp-variant", "variant": repr(bad)}, "accepted", "ValueError/TypeError")
        except (ValueError, TypeError):
            chk("fshp:variant-invalid", True, {"op": "fshp-variant"})
    for key, good, lows in (("block_size", [1, 2, 8], [0, -3, "0"]), ("parallelism", [1, 2, 4], [0, -1, "0"])):
        for ident in ("$scrypt$", "$7$"):
            for g in good:
                inp = {"op": "scrypt", "kwds": {key: g, "ident": ident}}
                try:
                    sub = scrypt.using(**{key: g, "rounds": 1, "ident": ident, **({"block_size": 1} if key != "block_size" else {}), **({"parallelism": 1} if key != "parallelism" else {})})
                    chk("scrypt:" + key, getattr(scrypt.from_string(sub.hash("pw")), key) == g, inp, "other value", g)
                    chain = scrypt.using(**{key: good[0]}).using(**{key: g, "rounds": 1})
                    chk("scrypt:" + key + "-chain", getattr(chain, key) == g, dict(inp, chain=True), getattr(chain, key), g)
                except Exception as e:  # noqa: BLE001
                    chk("scrypt:" + key, False, inp, errname(e) + ": " + str(e)[:80], g)
            for low in lows:
                inp = {"op": "scrypt", "kwds": {key: low, "ident": ident}}
                try:
                    scrypt.using(**{key: low, "ident": ident})
                    chk("scrypt:" + key + "-strict", False, inp, "accepted", "ValueError")
                except ValueError:
                    chk("scrypt:" + key + "-strict", True, inp)
                try:
                    sub = scrypt.using(**{key: low, "ident": ident, "relaxed": True, "rounds": 1})
                    chk("scrypt:" + key + "-relaxed", getattr(sub, key) == 1, dict(inp, relaxed=True), getattr(sub, key), 1)
                except Exception as e:  # noqa: BLE001
                    chk("scrypt:" + key + "-relaxed", False, dict(inp, relaxed=True), errname(e) + ": " + str(e)[:80], "clamped to 1")
    for ver, idents in ((1, ("2a", "2b")), (2, ("2b",))):
        for ident in idents:
            try:
                sub = bcrypt_sha256.using(version=ver, ident=ident, rounds=4)
                p = bcrypt_sha256.from_string(sub.hash("pw"))
                chk("bcrypt_sha256:version", p.version == ver and p.ident.strip("$") == ident, {"op": "bcrypt_sha256", "version": ver, "ident": ident}, (p.version, p.ident), (ver, ident))
            except Exception as e:  # noqa: BLE001
                chk("bcrypt_sha256:version", False, {"op": "bcrypt_sha256", "version": ver, "ident": ident}, errname(e), "accepted")
    for bad in (0, 3, "x"):
        try:
            bcrypt_sha256.using(version=bad)
            chk("bcrypt_sha256:version-invalid", False, {"op": "bcrypt_sha256", "version": repr(bad)}, "accepted", "ValueError")
        except (ValueError, TypeError):
            chk("bcrypt_sha256:version-invalid", True, {"op": "bcrypt_sha256"})
    for algs in ("sha-1", "sha-1,sha-256", ["sha-512", "sha-1"], "sha-1,md5"):
        try:
            sub = scram.using(algs=algs, rounds=2)
            want = sorted(algs.split(",") if isinstance(algs, str) else algs)
            chk("scram:algs", sorted(scram.from_string(sub.hash("pw")).algs) == want, {"op": "scram-algs", "algs": repr(algs)}, scram.from_string(sub.hash("pw")).algs, want)
        except Exception as e:  # noqa: BLE001
            chk("scram:algs", False, {"op": "scram-algs", "algs": repr(algs)}, errname(e), "accepted")
    try:
        scram.using(algs="sha-256")
        chk("scram:algs-without-sha1", False, {"op": "scram-algs", "algs": "sha-256"}, "accepted", "ValueError (sha-1 is mandatory)")
    except ValueError:
        chk("scram:algs-without-sha1", True, {"op": "scram-algs"})
    for marker in ("!", "*", "!locked"):
        sub = unix_disabled.using(marker=marker)
        chk("unix_disabled:marker", sub.hash("pw") == marker and unix_disabled.hash("pw") == unix_disabled.default_marker, {"op": "marker", "marker": marker}, sub.hash("pw"), marker)
    for name in ("des_crypt", "bcrypt", "crypt16", "lmhash", "django_des_crypt"):
        h = registry.get_crypt_handler(name)
        n = getattr(h, "wrapped", h).truncate_size
        for te in (True, False, "true", "false", "1", "0"):
            want_raise = te in (True, "true", "1")
            sub = h.using(truncate_error=te, **({"rounds": 4} if name == "bcrypt" else {}))
            try:
                sub.hash("a" * (n + 1))
                raised = False
            except exc.PasswordTruncateError:
                raised = True
            chk(name + ":truncate_error", raised == want_raise, {"op": "truncate_error", "hasher": name, "value": repr(te)}, raised, want_raise)
    # ---- the truncation policy holds for EVERY identifier the hasher can write (bcrypt's legacy $2$ takes a code path of its own) and for
    #      text whose UTF-8 form, not its character count, exceeds the limit; exactly the limit is accepted
    from passlib.hash import bcrypt as _bc

    for ident in ("2", "2a", "2b", "2y"):
        for te in (True, False):
            sub = _bc.using(ident=ident, truncate_error=te, rounds=4)
            for secret, over in (("a" * 72, False), ("a" * 73, True), (b"\xff" * 73, True), ("\u00e9" * 36, False), ("\u00e9" * 36 + "a", True), ("a" * 200, True)):
                inp = {"op": "truncate-ident", "ident": ident, "truncate_error": te, "secret_len": len(secret if isinstance(secret, bytes) else secret.encode())}
                try:
                    hs = sub.hash(secret)
                    raised = False
                except exc.PasswordTruncateError:
                    raised = True
                except Exception as e:  # noqa: BLE001
                    chk("bcrypt:truncate_error-every-ident", False, inp, errname(e) + ": " + str(e)[:60], "hash or PasswordTruncateError")
                    continue
                chk("bcrypt:truncate_error-every-ident", raised == (te and over), inp, raised, te and over)
                if not raised and te:
                    ext = secret + (b"x" if isinstance(secret, bytes) else "x")
                    chk("bcrypt:truncate_error-no-extension-under-limit", len(secret if isinstance(secret, bytes) else secret.encode()) == 72 or sub.verify(ext, hs) is False, inp, "an extension verifies", False)
    # ---- scrypt / argon2-style exact settings: a hash whose block size or parallelism differs from the configured one needs an update,
    #      whichever way it differs
    for key in ("parallelism", "block_size"):
        for conf in (1, 2, 3):
            for have in (1, 2, 3, 4):
                for ident in ("$scrypt$", "$7$"):
                    other = {"block_size": 1, "parallelism": 1}
                    other.pop(key)
                    pol = scrypt.using(**{key: conf, "rounds": 1, "ident": ident}, **other)
                    hs = scrypt.using(**{key: have, "rounds": 1, "ident": ident}, **other).hash("pw")
                    inp = {"op": "scrypt-needs-update", "setting": key, "configured": conf, "hash_has": have, "ident": ident}
                    chk("scrypt:needs_update-" + key, pol.needs_update(hs) is (conf != have), inp, pol.needs_update(hs), conf != have)
    # ---- "not set" spellings leave an inherited truncation policy alone (chains), real values override it
    for name in ("des_crypt", "bcrypt", "crypt16", "lmhash", "django_des_crypt", "ldap_des_crypt", "ldap_bcrypt"):
        h = registry.get_crypt_handler(name)
        n = getattr(getattr(h, "wrapped", h), "truncate_size", None)
        if not n:
            continue
        extra = {"rounds": 4} if "bcrypt" in name else {}
        for parent_te in (True, False):
            parent = h.using(truncate_error=parent_te, **extra)
            for v, want in ((None, parent_te), ("none", parent_te), ("", parent_te), ("None", parent_te), (" none ", parent_te), (True, True), ("yes", True), (False, False), ("no", False), ("false", False)):
                inp = {"op": "truncate-chain", "hasher": name, "parent": parent_te, "value": repr(v)}
                try:
                    child = parent.using(truncate_error=v)
                    try:
                        child.hash("a" * (n + 1))
                        raised = False
                    except exc.PasswordTruncateError:
                        raised = True
                    chk(name + ":truncate_error-chain", raised == want, inp, raised, want)
                except Exception as e:  # noqa: BLE001
                    chk(name + ":truncate_error-chain", False, inp, errname(e) + ": " + str(e)[:60], want)
    # ---- the long spellings of the settings (default_ident, default_salt_size, default_rounds) go through the same checks as the short ones
    for name in sorted(names):
        h = registry.get_crypt_handler(name)
        t = getattr(h, "wrapped", h)
        sk = h.setting_kwds or ()
        if "ident" in sk and getattr(t, "ident_values", None):
            for ident in list(t.ident_values) + ["$nosuch$"]:
                if "2x" in ident:
                    continue
                res = []
                for key in ("ident", "default_ident"):
                    try:
                        sub = h.using(**{key: ident}, **cheap(h))
                    except Exception as e:  # noqa: BLE001
                        res.append(("refused", errname(e)))
                        continue
                    try:
                        hs = sub.hash("pw")
                        res.append(("accepted", parsed(sub, hs).ident, bool(h.verify("pw", hs))))
                    except Exception as e:  # noqa: BLE001
                        res.append(("accepted", "then " + errname(e) + ": " + str(e)[:60], False))
                chk(name + ":default_ident-alias", res[0] == res[1] and (res[0][0] == "refused" or res[0][2] is True), {"op": "using-alias", "hasher": name, "ident": ident}, res,
                    "ident= and default_ident= are accepted or refused alike, and what is produced verifies under the stock hasher")
        if "salt_size" in sk and h.min_salt_size != h.max_salt_size:
            for k in (h.min_salt_size, (h.max_salt_size or h.min_salt_size + 40), h.min_salt_size - 1, (h.max_salt_size + 1) if h.max_salt_size else None):
                if k is None or k < 0:
                    continue
                res = []
                for key in ("salt_size", "default_salt_size"):
                    try:
                        sub = h.using(**{key: k}, **cheap(h))
                        res.append(("ok", len(parsed(sub, sub.hash("pw")).salt)))
                    except Exception as e:  # noqa: BLE001
                        res.append(("err", errname(e)))
                chk(name + ":default_salt_size-alias", res[0] == res[1], {"op": "using-alias", "hasher": name, "salt_size": k}, res, "salt_size= and default_salt_size= behave alike")
    # ---- needs_update honours the configured window for every ident / variant the hasher can read
    for name in sorted(names):
        h = registry.get_crypt_handler(name)
        t = getattr(h, "wrapped", h)
        sk = h.setting_kwds or ()
        if "rounds" not in sk or not hasattr(h, "needs_update"):
            continue
        lo = max(h.min_rounds, 1)
        log2 = h.rounds_cost == "log2"
        costs = [lo, lo + 1, lo + 2, lo + 5] if log2 else [lo | 1, (lo + 2) | 1, (lo + 10) | 1, (lo + 50) | 1]
        if name == "sun_md5_crypt":
            costs = [0, 1, 2, 7]
        idents = [i for i in (getattr(t, "ident_values", None) or [None]) if i is None or "2x" not in i] if "ident" in sk else [None]
        if name in ("bcrypt_sha256", "django_bcrypt_sha256"):
            idents = [None]
        for ident in idents:
            mk = {"ident": ident} if ident is not None else {}
            if name == "scrypt":
                mk.update(block_size=1, parallelism=1)
            hashes = {}
            for c in costs:
                try:
                    hashes[c] = h.using(rounds=c, **mk).hash("pw")
                except Exception:  # noqa: BLE001
                    pass
            for wlo, whi in ((costs[1], costs[2]), (costs[0], costs[0]), (costs[3], costs[3]), (costs[0], costs[3])):
                try:
                    pol = h.using(min_rounds=wlo, max_rounds=whi, **({"block_size": 1, "parallelism": 1} if name == "scrypt" else {}))
                except Exception:  # noqa: BLE001
                    continue
                for c, hs in hashes.items():
                    inp = {"op": "needs-update-window", "hasher": name, "ident": ident, "window": [wlo, whi], "hash_rounds": c}
                    try:
                        got = pol.needs_update(hs)
                    except Exception as e:  # noqa: BLE001
                        got = errname(e)
                    want = not (wlo <= c and (whi == 0 or c <= whi))     # a maximum of 0 means "no maximum" (Python truthiness, as in Model/Rounds.lean)
                    if name in ("bsdi_crypt", "ldap_bsdi_crypt") and not c & 1:
                        want = True
                    chk(name + ":needs_update-window", got is want, inp, got, want)
        if fails and first_only:
            return fails
    # ---- rounds variation on a chained hasher stays inside the CHILD's window
    for name in ("pbkdf2_sha256", "sha256_crypt", "sha1_crypt"):
        h = registry.get_crypt_handler(name)
        lo = h.min_rounds
        for vary in (0.5, 400, "30%"):
            parent = h.using(min_rounds=lo, max_rounds=lo + 2000, default_rounds=lo + 1000, vary_rounds=vary)
            child = parent.using(min_rounds=lo + 900, max_rounds=lo + 1100)
            rs = {child(use_defaults=True).rounds for _ in range(60)}
            inp = {"op": "chain-vary", "hasher": name, "vary_rounds": vary, "parent": [lo, lo + 2000, lo + 1000], "child": [lo + 900, lo + 1100]}
            chk(name + ":chain-vary-window", all(lo + 900 <= r <= lo + 1100 for r in rs), inp, [min(rs), max(rs)], "inside the child's window")
            prs = {parent(use_defaults=True).rounds for _ in range(60)}
            chk(name + ":chain-vary-parent", all(lo <= r <= lo + 2000 for r in prs) and max(prs) - min(prs) > 50, inp, [min(prs), max(prs)], "the parent still varies over its own window")
    return fails


# ------------------------------------------------------------------------------------------
def search(ctx, broken, seeds):
    fails = settings_oracle(ctx, Oracle(ctx, "search"), first_only=True)
    if fails:
        return fails[0]
    return search_rounds(ctx, broken, seeds)


def search_rounds(ctx, broken, seeds):
    """the property's statement on the real code: derived hasher's hashes carry the configured cost, stay within the window and the
    hard limits, its own update check does not flag them; strict/relaxed behaviour at the limits; parents untouched."""
    warnings.simplefilter("ignore")
    from passlib import registry

    rng = ctx.rng
    for name in ["sha256_crypt", "pbkdf2_sha256", "sha1_crypt", "bcrypt", "phpass", "sun_md5_crypt"]:
        h = registry.get_crypt_handler(name)
        lo, hi, d = h.min_rounds, h.max_rounds, h.default_rounds
        if hasattr(h, "get_backend"):
            h.get_backend()  # lazy backend selection rewrites class attributes once; not part of using()
        before = snapshot(h)
        cheap = (lambda r: r <= 5000) if h.rounds_cost != "log2" else (lambda r: r <= 8)
        for _ in range(120 if not ctx.thorough else 600):
            a = rng.randrange(lo, min(hi, lo + 3000) + 1) if h.rounds_cost != "log2" else rng.randrange(lo, min(hi, lo + 4) + 1)
            b = rng.randrange(a, min(hi, a + 2000) + 1) if h.rounds_cost != "log2" else rng.randrange(a, min(hi, a + 3) + 1)
            dflt = rng.randrange(a, b + 1)
            kw = dict(min_rounds=a, max_rounds=b, default_rounds=dflt)
            if h.rounds_cost != "log2" and rng.random() < 0.5:
                kw["vary_rounds"] = rng.choice([1, 5, 100, 0.1])
            try:
                sub = h.using(**kw)
            except Exception as e:  # noqa: BLE001
                return {"input": {"op": "using", "hasher": name, "kwds": kw}, "observed": errname(e), "expected": "accepted: values are inside the hard limits and ordered"}
            if not cheap(b):
                continue
            hs = sub.hash("pw")
            r = sub.from_string(hs).rounds
            if not (a <= r <= b) or sub.needs_update(hs) or not sub.verify("pw", hs):
                return {"input": {"op": "using-hash", "hasher": name, "kwds": kw}, "observed": {"hash": hs, "rounds": r, "needs_update": sub.needs_update(hs)},
                        "expected": "rounds inside [min,max], not flagged by its own update check"}
            if "vary_rounds" not in kw and r != dflt:
                return {"input": {"op": "using-hash", "hasher": name, "kwds": kw}, "observed": {"rounds": r}, "expected": f"exactly {dflt}"}
            for probe, want in ((a - 1, True), (b + 1, True), (a, False), (b, False)):
                if probe < lo or probe > hi or not cheap(probe):
                    continue
                ph = h.using(rounds=probe).hash("pw")
                if sub.needs_update(ph) != want:
                    return {"input": {"op": "needs_update", "hasher": name, "kwds": kw, "rounds": probe}, "observed": not want, "expected": want}
        # variation next to the hard limits: the cost hash() generates for itself is never outside them (the constructor
        # path of hash() is used, so no digest is computed and costs near max_rounds are cheap to probe)
        if h.rounds_cost != "log2":
            for dflt in sorted({lo, lo + 1, lo + 3, min(hi, lo + 40), hi, hi - 1, hi - 3, max(lo, hi - 40)}):
                for vary in (1, 7, 50, 0.05, 0.5):
                    kw = dict(default_rounds=dflt, vary_rounds=vary)
                    sub = h.using(**kw)
                    for _ in range(25):
                        try:
                            r = sub(use_defaults=True).rounds
                        except Exception as e:  # noqa: BLE001
                            return {"input": {"op": "generate", "hasher": name, "kwds": kw}, "observed": errname(e) + ": " + str(e),
                                    "expected": f"a cost inside the hard limits [{lo}, {hi}]"}
                        if not lo <= r <= hi:
                            return {"input": {"op": "generate", "hasher": name, "kwds": kw}, "observed": r, "expected": f"inside [{lo}, {hi}]"}
        # hard limits: strict refuses, relaxed clamps
        for key in ("min_rounds", "max_rounds", "default_rounds", "rounds"):
            for v, clamp in ((lo - 1, lo), (hi + 1, hi)):
                if v < 0 and key == "rounds":
                    pass
                try:
                    h.using(**{key: v})
                    if not (lo == 0 and v == -1 and False):
                        return {"input": {"op": "strict", "hasher": name, "kwds": {key: v}}, "observed": "accepted", "expected": "ValueError"}
                except ValueError:
                    pass
                try:
                    sub = h.using(relaxed=True, **{key: v})
                    got = {"min_rounds": sub.min_desired_rounds, "max_rounds": sub.max_desired_rounds, "default_rounds": sub.default_rounds, "rounds": sub.default_rounds}[key]
                    if got != clamp:
                        return {"input": {"op": "relaxed", "hasher": name, "kwds": {key: v}}, "observed": got, "expected": clamp}
                except ValueError as e:
                    # relaxed clamping of one bound may legitimately collide with the other inherited bound
                    if key in ("min_rounds", "max_rounds", "rounds"):
                        return {"input": {"op": "relaxed", "hasher": name, "kwds": {key: v}}, "observed": "ValueError " + str(e), "expected": clamp}
        if snapshot(h) != before:
            return {"input": {"op": "isolation", "hasher": name}, "observed": "original hasher's attributes changed", "expected": "unchanged"}
    # bsdi_crypt writes odd costs only: inside a window whose upper end is odd there is always an odd cost at or above the lower end, so the
    # generated cost stays inside the window and the hasher's own update check accepts it (an even upper end is the recorded C04 finding)
    h = registry.get_crypt_handler("bsdi_crypt")
    for _ in range(80 if not ctx.thorough else 600):
        a = rng.choice([rng.randrange(1, 3000), 2 * rng.randrange(1, 1500), 6000, 5002])
        b = a + rng.choice([0, 1, 2, 3, 50, 51])
        if b % 2 == 0:
            b += 1
        dflt = rng.choice([a, b, rng.randrange(a, b + 1)])
        for kw in (dict(min_rounds=a, max_rounds=b, default_rounds=dflt), dict(min_rounds=a, max_rounds=b), dict(min_rounds=a), dict(min_rounds=a, max_rounds=b, default_rounds=dflt, vary_rounds=rng.choice([1, 3, 0.1]))):
            try:
                sub = h.using(**kw)
                hs = sub.hash("pw")
                r = sub.from_string(hs).rounds
                lo_eff, hi_eff = a, (b if "max_rounds" in kw else h.max_rounds)
                ok = lo_eff <= r <= hi_eff and r % 2 == 1 and not sub.needs_update(hs) and sub.verify("pw", hs)
                obs = {"hash": hs, "rounds": r, "needs_update": sub.needs_update(hs)}
            except Exception as e:  # noqa: BLE001
                ok, obs = False, errname(e) + ": " + str(e)[:80]
            if not ok:
                return {"input": {"op": "using-hash", "hasher": "bsdi_crypt", "kwds": kw}, "observed": obs, "expected": "an odd cost inside [min,max], not flagged by its own update check"}
    return None


def replay(ctx, inp):
    warnings.simplefilter("ignore")
    if inp.get("op") == "chain":
        from passlib import registry

        h = registry.get_crypt_handler(inp["hasher"])
        try:
            for kw in inp["chain"]:
                h = h.using(**kw)
        except ValueError as e:
            return {"fails": False, "observed": "refused: " + str(e)}
        hs = h.hash("pw")
        flagged = h.needs_update(hs)
        return {"fails": bool(flagged), "observed": {"window": [h.min_desired_rounds, h.max_desired_rounds], "fresh_hash": hs, "needs_update": flagged}}
    if inp.get("op") == "setting-then-hash":
        # a setting using() accepts must give a class that can hash; a setting it cannot serve is refused with a value / type error
        from passlib import registry

        h = registry.get_crypt_handler(inp["hasher"])
        try:
            sub = h.using(**inp["kwds"])
        except (ValueError, TypeError) as e:
            return {"fails": False, "observed": "refused: " + type(e).__name__ + ": " + str(e)[:80]}
        try:
            hs = sub.hash("pw")
            return {"fails": False, "observed": {"hash": hs}}
        except Exception as e:  # noqa: BLE001
            return {"fails": True, "observed": "accepted by using(), then hash() raised " + type(e).__name__ + ": " + str(e)[:80]}
    if inp.get("op") == "scrypt-using":
        from passlib.hash import scrypt

        try:
            scrypt.using(block_size=1 << 30, parallelism=2)
            return {"fails": True, "observed": "accepted"}
        except ValueError as e:
            return {"fails": False, "observed": "refused: " + str(e)}
    if inp.get("op") == "generate":
        from passlib import registry

        h = registry.get_crypt_handler(inp["hasher"])
        sub = h.using(**inp["kwds"])
        for _ in range(400):
            try:
                r = sub(use_defaults=True).rounds
            except Exception as e:  # noqa: BLE001
                return {"fails": True, "observed": errname(e) + ": " + str(e)}
            if not h.min_rounds <= r <= h.max_rounds:
                return {"fails": True, "observed": r}
        return {"fails": False, "observed": "400 generated costs inside the hard limits"}
    r = search(ctx, [], [])
    return {"fails": r is not None, "observed": r}
