"""C06 — generated values are uniform over their declared space."""
from __future__ import annotations

import collections
import itertools
import math
import warnings

from .common import Oracle, Suite, errname, hx, merge

GEN_UNITS = ["Rng", "Handlers", "B64", "SaltGen"]
LEAN_TARGETS = ["PasslibVerif.Props.C06", "PasslibVerif.Props.C06Pwd", "PasslibVerif.Props.C06PwdPhrase"]
ASSUMPTIONS = [
    "random.SystemRandom (passlib.utils.rng), secrets.choice (libpass._salt) and rng.choice (PhraseGenerator) are assumed uniform",
    "float length-from-entropy (ceil(entropy/log2 N)) is enumerated against the exact integer minLen, not proved",
]
EXPLANATION = (
    "Theorems: value -> getrandbytes / getrandstr output is a bijection between the random source's range and the declared "
    "space (injective + surjective, every size and alphabet), stated about the generated shift/mask/div/mod expressions; "
    "bcrypt's salt repair is exactly 16-to-1; every salted hasher's declared salt parameters are consistent. "
    "Correspondence: real helpers, every salted hasher's _generate_salt, TOTP keys, under a controlled random source."
)
ONLY_CORRESPONDENCE = ["pwd.genword/genphrase length-from-entropy (float)", "totp.generate_secret length (float)", "libpass._salt (secrets.choice)"]


class FixedRng:
    """random source answering with a preset value (records what was asked)."""

    def __init__(self, value):
        self.value = value
        self.asked = []

    def getrandbits(self, k):
        self.asked.append(("bits", k))
        return self.value % (1 << k) if k else 0

    def randrange(self, a, b=None):
        if b is None:
            a, b = 0, a
        self.asked.append(("range", a, b))
        return a + self.value % (b - a)

    def randint(self, a, b):
        return self.randrange(a, b + 1)

    def choice(self, seq):
        return seq[self.value % len(seq)]


def salted_handlers():
    warnings.simplefilter("ignore")
    from passlib import registry
    import passlib.utils.handlers as uh

    out = []
    for n in sorted(registry.list_crypt_handlers()):
        h = registry.get_crypt_handler(n)
        cls = h.wrapped if isinstance(h, uh.PrefixWrapper) else h
        if isinstance(cls, type) and issubclass(cls, uh.HasSalt):
            out.append((n, h, cls))
    return out


def correspond(ctx):
    import passlib.utils as pu
    import passlib.utils.handlers as uh

    rng = ctx.rng
    s_help = Suite(ctx, "getrandbytes-getrandstr")
    s_salt = Suite(ctx, "hasher-salts")
    s_len = Suite(ctx, "length-from-entropy")
    # --- helpers: exhaustive for small spaces
    for n in (0, 1, 2):
        for v in range(256 ** n):
            s_help.add(f"rng grb {n} {v}", lambda n=n, v=v: hx(pu.getrandbytes(FixedRng(v), n)), f"grb{n}")
    for n in (3, 4, 8, 16, 20, 32, 64):
        for _ in range(400 if not ctx.thorough else 20000):
            v = rng.randrange(256 ** n)
            s_help.add(f"rng grb {n} {v}", lambda n=n, v=v: hx(pu.getrandbytes(FixedRng(v), n)), f"grb{n}")
    for n in range(0, 70):
        s_help.add(f"rng bits {n}", lambda n=n: str((lambda r: (pu.getrandbytes(r, n), r.asked[0][1] if r.asked else 0))(FixedRng(0))[1]), "bits")
    alphabets = [bytes(range(48, 48 + k)) for k in (1, 2, 3, 5, 10, 16, 26, 62, 64, 94)]
    for cs in alphabets:
        N = len(cs)
        for n in (0, 1, 2, 3, 4):
            space = N ** n
            vals = range(space) if space <= (1 << 16 if ctx.thorough else 1 << 12) else [rng.randrange(space) for _ in range(600)]
            for v in vals:
                s_help.add(f"rng grs {hx(cs)} {n} {v}", lambda cs=cs, n=n, v=v: hx(pu.getrandstr(FixedRng(v), cs, n)), f"grs-N{N}")
        for n in (8, 16, 22, 40):
            for _ in range(100):
                v = rng.randrange(N ** n)
                s_help.add(f"rng grs {hx(cs)} {n} {v}", lambda cs=cs, n=n, v=v: hx(pu.getrandstr(FixedRng(v), cs, n)), f"grs-N{N}")
                # text alphabets go through the same helper
                s_help.add(f"rng grs {hx(cs)} {n} {v}", lambda cs=cs, n=n, v=v: hx(pu.getrandstr(FixedRng(v), cs.decode("latin-1"), n).encode("latin-1")), f"grs-text-N{N}")
    s_help.add("rng grs - 3 5", lambda: hx(pu.getrandstr(FixedRng(5), b"", 3)), "grs-empty")
    # --- every salted hasher: _generate_salt under a controlled source
    old = uh.rng
    try:
        for name, h, cls in salted_handlers():
            for _ in range(40 if not ctx.thorough else 2000):
                v = rng.randrange(1 << 600)

                def gen(cls=cls, v=v, name=name):
                    uh.rng = FixedRng(v)
                    # plain HasSalt._generate_salt / HasRawSalt._generate_salt (format-specific post-processing
                    # such as bcrypt's repair is modelled separately)
                    base = uh.HasRawSalt if issubclass(cls, uh.HasRawSalt) else uh.HasSalt
                    s = base._generate_salt.__func__(cls)
                    return hx(s if isinstance(s, bytes) else s.encode("latin-1"))

                s_salt.add(f"rng salt {name} {v}", gen, "salt")
        # bcrypt's own _generate_salt: last symbol repaired
        from passlib.hash import bcrypt
        from passlib.utils.binary import bcrypt64

        for d in range(64):
            s_salt.add(f"rng bcryptfix {d}", lambda d=d: str(bcrypt64.bytemap.index(bcrypt64.repair_unused(b"." * 21 + bcrypt64.bytemap[d:d + 1])[-1])), "bcrypt-repair")
    finally:
        uh.rng = old
    # --- TOTP keys / wallet salts draw through getrandbytes
    import passlib.totp as pt

    oldt = pt.rng
    try:
        for size in (10, 16, 20, 32, 64):
            for _ in range(20):
                v = rng.randrange(256 ** size)

                def newkey(size=size, v=v):
                    pt.rng = FixedRng(v)
                    return hx(pt.TOTP(new=True, size=size, alg="sha512").key)

                s_salt.add(f"rng grb {size} {v}", newkey, "totp-new-key")
    finally:
        pt.rng = oldt
    # --- float part: length-from-entropy vs exact integer minLen
    import passlib.pwd as pwd

    for N in range(2, 95):
        chars = "".join(chr(33 + i) for i in range(N))
        for e in (list(range(1, 513)) if ctx.thorough else list(range(1, 130)) + [192, 255, 256, 257, 384, 511, 512]):
            s_len.add(f"rng minlen {N} {e}", lambda chars=chars, e=e: str(pwd.WordGenerator(chars=chars, entropy=e).length), "genword")
    for e in (36, 48, 60, 128, 256, 257):
        for cs in (pt.BASE64_CHARS[:-2], "ab", "abcdefgh", "0123456789"):
            # generate_secret may only err on the long side
            def gs(cs=cs, e=e):
                got = len(pt.generate_secret(e, cs))
                exact = next(L for L in itertools.count() if len(cs) ** L >= 2 ** e)
                return str(exact if exact <= got <= exact + 1 else got)
            s_len.add(f"rng minlen {len(cs)} {e}", gs, "generate_secret")
    o_cfg = Oracle(ctx, "declared-space-guards")
    guards_oracle(ctx, o_cfg)
    o_lp = Oracle(ctx, "libpass-salts-uniform-and-secret-lengths")
    for gen in (libpass_salt_cases(), secret_length_cases(), libpass_hasher_salt_cases(256)):
        for tag, inp, ok, obs, exp in gen:
            o_lp.check(tag, ok, inp, obs, exp)
    # the generators of passlib/pwd.py over a table random source (option resolution, alphabets, returns=, batches): Model.PwdGen (suite `pgen`)
    from . import c06_pwd

    s_pwd = Suite(ctx, "pwd-generators-model")
    c06_pwd.model_suite(ctx, s_pwd)
    return merge(s_help, s_salt, s_len, o_cfg, o_lp, s_pwd, exhaustive=False)


class FakeSecrets:
    """stands in for the `secrets` module inside libpass._salt: every primitive returns its `i`-th equally likely outcome (mixed radix over the
    calls of one invocation), so that enumerating i enumerates the source's outcomes exactly once each"""

    def __init__(self):
        self.i = 0
        self.rest = 0
        self.domains = []

    def start(self, i):
        self.i, self.rest, self.domains = i, i, []

    def _draw(self, d):
        self.domains.append(d)
        v = self.rest % d
        self.rest //= d
        return v

    def choice(self, seq):
        return seq[self._draw(len(seq))]

    def randbelow(self, k):
        return self._draw(k)

    def randbits(self, k):
        return self._draw(1 << k)

    def token_bytes(self, n=32):
        return self._draw(256 ** n).to_bytes(n, "big")

    def token_hex(self, n=32):
        return self.token_bytes(n).hex()

    def __getattr__(self, name):
        import secrets

        return getattr(secrets, name)


def libpass_salt_cases():
    """libpass._salt.generate_salt over an enumerated source: every salt of the declared length over the alphabet is produced by the same
    number of source outcomes (uniform), for alphabets whose size does and does not divide 256; yields (tag, input, ok, observed, expected)"""
    import collections
    import string

    import libpass._salt as ls

    fake = FakeSecrets()
    real = ls.secrets
    ls.secrets = fake
    try:
        for chars, length in ((ls.DEFAULT_CHARS, 1), ("abc", 1), ("abc", 2), (string.digits, 1), ("ab", 3), (string.ascii_lowercase + string.digits + "./", 1)):
            fake.start(0)
            ls.generate_salt(length, chars)
            total = 1
            for d in fake.domains:
                total *= d
            inp = {"op": "libpass-salt", "alphabet_size": len(chars), "length": length, "source_outcomes": total}
            if total > 1 << 17:
                yield ("libpass-salt:enumerable", inp, False, f"{total} source outcomes for {len(chars)}^{length} salts", "a source demand proportional to the output space")
                continue
            counts = collections.Counter()
            for i in range(total):
                fake.start(i)
                out = ls.generate_salt(length, chars)
                counts[out] += 1
            ok = len(counts) == len(chars) ** length and len(set(counts.values())) == 1 and all(len(o) == length and all(c in chars for c in o) for o in counts)
            worst = counts.most_common(1)[0], counts.most_common()[-1]
            yield ("libpass-salt:uniform", inp, ok, {"distinct": len(counts), "most": worst[0], "least": worst[1]}, f"each of the {len(chars) ** length} salts from the same number of source outcomes")
    finally:
        ls.secrets = real


def libpass_hasher_salt_cases(n):
    """the salts the libpass hashers draw themselves: declared size, the format's alphabet, and every symbol of it in use (n·16 symbols per
    hasher: a symbol missing by chance has probability 64·(63/64)^(16n), below 1e-25 for n = 256)"""
    from libpass.hashers.sha_crypt import SHA256Hasher, SHA512Hasher

    h64 = set("./0123456789ABCDEFGHIJKLMNOPQRSTUVWXYZabcdefghijklmnopqrstuvwxyz")
    for cls in (SHA256Hasher, SHA512Hasher):
        h = cls(rounds=1000)
        seen, bad, salts = set(), [], set()
        for _ in range(n):
            hs = h.hash("")
            salt = hs.split("$")[-2]
            salts.add(salt)
            seen |= set(salt)
            if len(salt) != 16 or not set(salt) <= h64:
                bad.append(salt)
        inp = {"op": "libpass-hasher-salt", "hasher": cls.__name__, "draws": n}
        yield ("libpass-hasher-salt", inp, not bad and seen == h64 and len(salts) == n,
               {"malformed": bad[:2], "symbols_never_drawn": "".join(sorted(h64 - seen)), "distinct": len(salts)}, "16 symbols of the crypt alphabet, every symbol in use, no repeats")


def secret_length_cases():
    """totp.generate_secret / libpass generate_salt_by_entropy: the generated string carries at least the requested entropy and not a symbol more
    than float rounding can add (exact integer arithmetic: N^count >= 2^entropy > N^(count-2))"""
    import string

    import libpass._salt as ls
    import passlib.totp as pt

    sets = [None, string.hexdigits[:16], "01", "abc", string.ascii_letters + string.digits, "".join(chr(c) for c in range(33, 127))]
    for cs in sets:
        for entropy in list(range(1, 70)) + [96, 120, 126, 128, 130, 160, 190, 192, 250, 252, 255, 256, 258, 500, 510, 512]:
            for fn_name, fn in (("totp.generate_secret", lambda: pt.generate_secret(entropy) if cs is None else pt.generate_secret(entropy, cs)),
                                ("libpass.generate_salt_by_entropy", lambda: ls.generate_salt_by_entropy(entropy) if cs is None else ls.generate_salt_by_entropy(entropy, cs))):
                alphabet = cs if cs is not None else (pt.BASE64_CHARS[:-2] if fn_name.startswith("totp") else ls.DEFAULT_CHARS)
                n = len(alphabet)
                inp = {"op": "secret-length", "function": fn_name, "entropy": entropy, "alphabet_size": n}
                try:
                    out = fn()
                except Exception as e:  # noqa: BLE001
                    yield ("secret-length:" + fn_name, inp, False, errname(e), "a string")
                    continue
                k = len(out)
                ok = n ** k >= 2 ** entropy and (k < 2 or n ** (k - 2) < 2 ** entropy) and all(c in alphabet for c in out)
                yield ("secret-length:" + fn_name, inp, ok, {"length": k, "bits": round(k * math.log2(n), 2)}, f">= {entropy} bits, at most one symbol beyond the minimum")


def guards_oracle(ctx, o, first_only=False):
    """real-code checks of what keeps the declared space honest: a configuration can never pin a salt; a symbol set with repeated symbols
    (which would skew the draw and overstate the entropy) is refused on EVERY call"""
    import warnings

    warnings.simplefilter("ignore")
    import passlib.pwd as pwd
    from passlib.context import CryptContext

    fails = []

    def chk(tag, ok, inp, observed=None, expected=None):
        o.check(tag, ok, inp, observed, expected)
        if not ok:
            fails.append({"input": inp, "observed": observed, "expected": expected})

    for key in ("md5_crypt__salt", "all__salt", "admin__md5_crypt__salt", "sha256_crypt__salt", "admin__all__salt"):
        for val in ("abcdefgh", b"abcdefgh", bytearray(b"abcdefgh"), 12345678, ["a"], None):
            for how in ("constructor", "update", "copy", "load-dict"):
                inp = {"op": "context-salt", "key": key, "value": repr(val), "via": how}
                try:
                    if how == "constructor":
                        c = CryptContext(["md5_crypt", "sha256_crypt"], **{key: val})
                    elif how == "update":
                        c = CryptContext(["md5_crypt", "sha256_crypt"])
                        c.update(**{key: val})
                    elif how == "copy":
                        c = CryptContext(["md5_crypt", "sha256_crypt"]).copy(**{key: val})
                    else:
                        c = CryptContext(["md5_crypt", "sha256_crypt"])
                        c.load({"schemes": ["md5_crypt", "sha256_crypt"], key: val})
                except (KeyError, TypeError, ValueError):
                    chk("context-salt-refused", True, inp, "refused", "refused")
                    continue
                # accepted: then it must at least not pin the salt
                cat = "admin" if key.startswith("admin__") else None
                hs = {c.hash("pw", category=cat) for _ in range(4)}
                chk("context-salt-refused", len(hs) == 4 and val is None, inp, f"accepted; {len(hs)} distinct hashes out of 4", "refused (a configuration must not fix the salt)")
        if fails and first_only:
            return fails
    for bad in ("aabc", "abca", "zz", ("a", "b", "a"), ("x", "x"), "ab" * 3):
        for attempt in range(3):
            inp = {"op": "duplicate-symbols", "symbols": repr(bad), "attempt": attempt + 1}
            try:
                if isinstance(bad, str):
                    r = pwd.genword(entropy=40, chars=bad)
                else:
                    r = pwd.genphrase(entropy=40, words=bad)
                chk("duplicate-symbols-refused", False, inp, "accepted: " + repr(r)[:60], "ValueError on every call")
            except ValueError:
                chk("duplicate-symbols-refused", True, inp, "refused", "refused")
        if fails and first_only:
            return fails
    # ---- new TOTP keys: the default key size is the digest size of the algorithm the object will actually use, whichever way it is named
    #      (class default, using(alg=…), per-call alg=…), an explicit size is taken exactly, and the bytes are the random source's bytes
    import hashlib
    import random

    import passlib.totp as pt
    import passlib.utils as pu

    algs = ("sha1", "sha256", "sha512")
    for a_cls in (None,) + algs:
        factory = pt.TOTP if a_cls is None else pt.TOTP.using(alg=a_cls)
        for a_call in (None,) + algs:
            eff = a_call or a_cls or "sha1"
            want = hashlib.new(eff).digest_size
            for how in ("new()", "TOTP(new=True)"):
                for size in (None, 10, 16, want, want + 3):
                    if size is not None and size > want:
                        continue        # larger than the digest is refused by design
                    kw = {}
                    if a_call:
                        kw["alg"] = a_call
                    if size is not None:
                        kw["size"] = size
                    inp = {"op": "totp-new-key", "class_alg": a_cls, "call_alg": a_call, "size": size, "via": how}
                    old = pt.rng
                    v = random.Random(f"{a_cls}{a_call}{size}{how}").getrandbits(8 * 64)
                    pt.rng = FixedRng(v)
                    try:
                        t = factory.new(**kw) if how == "new()" else factory(new=True, **kw)
                        n = size if size is not None else want
                        exp = pu.getrandbytes(FixedRng(v), n)
                        chk("totp-new-key", t.key == exp and t.alg == eff, inp, {"alg": t.alg, "key_len": len(t.key)}, {"alg": eff, "key_len": n, "key": "the source's bytes"})
                    except Exception as e:  # noqa: BLE001
                        chk("totp-new-key", False, inp, type(e).__name__ + ": " + str(e)[:80], "a new key")
                    finally:
                        pt.rng = old
        if fails and first_only:
            return fails
    # ---- batches: N values asked for at once are N independent draws — exactly what N single calls on the same source give
    import itertools

    for mk, tag in ((lambda r: pwd.WordGenerator(rng=r, length=9, chars="abcdefghijklmnopqrstuvwxyz0123456789"), "genword"),
                    (lambda r: pwd.WordGenerator(rng=r, entropy=70), "genword-entropy-arg"),
                    (lambda r: pwd.PhraseGenerator(rng=r, length=4, words=["alpha", "bravo", "charlie", "delta", "echo", "foxtrot", "golf"]), "genphrase")):
        for n in (1, 2, 3, 7):
            for seed in (1, 2):
                inp = {"op": "batch", "generator": tag, "returns": n, "seed": seed}
                try:
                    batch = mk(random.Random(seed))(n)
                    g = mk(random.Random(seed))
                    singles = [g() for _ in range(n)]
                    it = list(itertools.islice(mk(random.Random(seed))(iter), n))
                    chk("batch-equals-singles", list(batch) == singles == it, inp, {"batch": batch, "iter": it}, {"singles": singles})
                except Exception as e:  # noqa: BLE001
                    chk("batch-equals-singles", False, inp, type(e).__name__ + ": " + str(e)[:80], "n independent values")
        if fails and first_only:
            return fails
    for fn, kw, tag in ((pwd.genword, dict(length=12), "genword()"), (pwd.genphrase, dict(length=5), "genphrase()")):
        for n in (2, 5):
            r = fn(returns=n, **kw)
            sep = " " if tag == "genphrase()" else None
            parts = [x.split(sep) if sep else list(x) for x in r]
            # no value of a batch is a shifted copy of its neighbour (n·length independent symbols, not length+n−1)
            shifted = any(a[1:] == b[:-1] for a, b in zip(parts, parts[1:]))
            chk("batch-not-sliding-window", len(r) == n and not shifted, {"op": "batch-window", "function": tag, "returns": n}, r, "independent values")
    # ---- every named character set and word set: over an enumerated source each of the N^L values is produced, each by the same number
    #      of source outcomes (L = 1, and L = 2 where N^2 stays small); the source counts up on every question, so a generator that
    #      draws again cannot loop forever
    class CountingRng:
        def __init__(self, start):
            self.v = start
            self.asks = 0

        def _next(self, n):
            self.asks += 1
            if self.asks > 20000:
                raise RuntimeError("the generator keeps asking the source")
            r = self.v % n
            self.v += 1
            return r

        def randrange(self, a, b=None):
            if b is None:
                a, b = 0, a
            return a + self._next(b - a)

        def getrandbits(self, k):
            return self._next(1 << k) if k else 0

        def choice(self, seq):
            return seq[self._next(len(seq))]

        def random(self):
            return self._next(1 << 30) / (1 << 30)

    import collections

    for kind, names in (("charset", sorted(pwd.default_charsets)), ("wordset", sorted(pwd.default_wordsets))):
        for nm in names:
            size = len(pwd.default_charsets[nm]) if kind == "charset" else len(pwd.default_wordsets[nm])
            for L in (1, 2):
                if size ** L > (6000 if not ctx.thorough else 70000):
                    continue
                inp = {"op": "named-set-reachable", kind: nm, "length": L, "size": size}
                counts = collections.Counter()
                try:
                    for v in range(size ** L):
                        r = CountingRng(v)
                        g = pwd.WordGenerator(charset=nm, length=L, rng=r) if kind == "charset" else pwd.PhraseGenerator(wordset=nm, length=L, rng=r, sep="\x00")
                        counts[g()] += 1
                    ok = len(counts) == size ** L and set(counts.values()) == {1}
                    obs = {"distinct": len(counts), "most": counts.most_common(1)[0][1], "declared_entropy": round(g.entropy, 2)}
                except Exception as e:  # noqa: BLE001
                    ok, obs = False, type(e).__name__ + ": " + str(e)[:80]
                chk("named-set-reachable", ok, inp, obs, {"distinct": size ** L, "most": 1})
        if fails and first_only:
            return fails
    # ---- custom alphabets and word lists are used AS GIVEN: entries that differ only by blanks, case or a line ending are different
    #      symbols (each of the N^L values from one source outcome), or the constructor refuses the list — never a silent merge
    for kind, items in (("words", ["red", "red\n", " red", "Red", "blue"]), ("words", ["a b", "a", "b"]), ("chars", "aA \t\n"), ("words", ["x\u00e9", "xe\u0301", "x"])):
        for L in (1, 2):
            inp = {"op": "custom-set-reachable", kind: items if isinstance(items, list) else [items], "length": L}
            n_ = len(items)
            counts = collections.Counter()
            try:
                for v in range(n_ ** L):
                    r = CountingRng(v)
                    # successive questions read successive base-n digits of v: one value of v = one outcome of the whole source
                    r._next = lambda n, r=r: (lambda d: (setattr(r, "v", r.v // n), d)[1])(r.v % n)
                    g = pwd.PhraseGenerator(words=items, length=L, rng=r, sep="\x00") if kind == "words" else pwd.WordGenerator(chars=items, length=L, rng=r)
                    counts[g()] += 1
                ok = len(counts) == n_ ** L and set(counts.values()) == {1} and g.symbol_count == n_
                obs = {"distinct": len(counts), "most": counts.most_common(1)[0][1], "symbol_count": g.symbol_count}
            except ValueError as e:
                ok, obs = True, "refused: " + str(e)[:60]
            except Exception as e:  # noqa: BLE001
                ok, obs = False, type(e).__name__ + ": " + str(e)[:80]
            chk("custom-set-reachable", ok, inp, obs, {"distinct": n_ ** L, "most": 1, "symbol_count": n_})
    for N in range(2, 95, 3 if not ctx.thorough else 1):
        chars = "".join(chr(33 + i) for i in range(N))
        for e in (1, 7, 40, 64, 128, 199):
            L = pwd.WordGenerator(chars=chars, entropy=e).length
            chk("genword-entropy", N ** L >= 2 ** e, {"op": "genword-entropy", "alphabet_size": N, "entropy": e}, L, "N^L >= 2^entropy")
    return fails


# ------------------------------------------------------------------------------------------
def search(ctx, broken, seeds):
    """multiplicity count on the real code: two source values with equal output, or an
    unreachable output, for small spaces; marginal bit statistics for larger ones."""
    import passlib.utils as pu

    for n in (1, 2):
        seen = {}
        for v in range(256 ** n):
            out = pu.getrandbytes(FixedRng(v), n)
            if len(out) != n:
                return {"input": {"op": "getrandbytes", "count": n, "value": v}, "observed": out.hex(), "expected": f"{n} bytes"}
            if out in seen:
                return {"input": {"op": "getrandbytes", "count": n, "values": [seen[out], v]}, "observed": f"both give {out.hex()}",
                        "expected": "distinct source values give distinct byte strings (bijection onto 256^n)"}
            seen[out] = v
    r = FixedRng(0)
    pu.getrandbytes(r, 7)
    if r.asked != [("bits", 56)]:
        return {"input": {"op": "getrandbytes-source", "count": 7}, "observed": r.asked, "expected": "exactly 56 random bits requested"}
    for cs in (b"ab", b"abc", b"0123456789", bytes(range(33, 127))):
        N = len(cs)
        for n in (1, 2, 3):
            if N ** n > 1 << 16:
                continue
            seen = {}
            for v in range(N ** n):
                out = pu.getrandstr(FixedRng(v), cs, n)
                if len(out) != n or any(c not in cs for c in out):
                    return {"input": {"op": "getrandstr", "charset": cs.hex(), "count": n, "value": v}, "observed": out.hex(), "expected": "n symbols of the alphabet"}
                if out in seen:
                    return {"input": {"op": "getrandstr", "charset": cs.hex(), "count": n, "values": [seen[out], v]}, "observed": f"both give {out!r}",
                            "expected": "bijection onto N^n"}
                seen[out] = v
        r = FixedRng(0)
        pu.getrandstr(r, cs, 5)
        if r.asked != [("range", 0, N ** 5)]:
            return {"input": {"op": "getrandstr-source", "charset": cs.hex(), "count": 5}, "observed": r.asked, "expected": f"randrange(0, {N}**5)"}
    # free-running statistics with the real rng: every bit of every position ~ 1/2, adjacent bytes unrelated
    from passlib.utils import rng as real_rng

    for n in (4, 16, 20, 64):
        trials = 4000
        ones = [0] * (8 * n)
        eq_shift = 0
        for _ in range(trials):
            b = pu.getrandbytes(real_rng, n)
            for i, byte in enumerate(b):
                for k in range(8):
                    ones[8 * i + k] += (byte >> k) & 1
            eq_shift += sum(1 for i in range(n - 1) if (b[i] >> 3) == (b[i + 1] & 0x1F))
        # 6.5 sigma bounds: false-alarm probability < 1e-10 per counter
        lim = 6.5 * math.sqrt(trials * 0.25)
        for i, c in enumerate(ones):
            if abs(c - trials / 2) > lim:
                return {"input": {"op": "bit-bias", "count": n, "bit": i}, "observed": c, "expected": f"{trials/2} ± {lim:.0f}"}
        exp = trials * (n - 1) / 32
        if abs(eq_shift - exp) > 6.5 * math.sqrt(exp) + 5:
            return {"input": {"op": "adjacent-bytes-related", "count": n}, "observed": eq_shift, "expected": f"≈{exp:.0f}"}
    # salts parsed back from hash(): declared size and alphabet
    import passlib.utils.handlers as uh

    for name, h, cls in salted_handlers():
        if name in ("argon2", "django_argon2"):
            continue
        for _ in range(3):
            try:
                salt = cls._generate_salt() if not name.startswith("scrypt") else cls(use_defaults=True, salt=None, checksum=None)._generate_salt()
            except TypeError:
                continue
            size = cls.default_salt_size
            chars = cls.default_salt_chars
            if name.startswith("scrypt"):
                continue
            if len(salt) != size or (chars is not None and any(c not in chars for c in salt)):
                return {"input": {"op": "salt", "hasher": name}, "observed": repr(salt), "expected": f"{size} symbols of {chars!r}"}
    fails = guards_oracle(ctx, Oracle(ctx, "search"), first_only=True)
    if fails:
        return fails[0]
    for gen in (libpass_salt_cases(), secret_length_cases(), libpass_hasher_salt_cases(256)):
        for tag, inp, ok, obs, exp in gen:
            if not ok:
                return {"input": inp, "observed": obs, "expected": exp, "check": tag}
    # a context never lets a configuration pin a salt
    from passlib.context import CryptContext

    for key in ("md5_crypt__salt", "all__salt", "admin__md5_crypt__salt"):
        try:
            CryptContext(["md5_crypt"], **{key: "abcdefgh"})
            return {"input": {"op": "context-salt", "key": key}, "observed": "accepted", "expected": "KeyError"}
        except KeyError:
            pass
    # generated passwords carry at least the requested entropy
    import passlib.pwd as pwd

    for N in range(2, 95):
        chars = "".join(chr(33 + i) for i in range(N))
        for e in range(1, 200):
            L = pwd.WordGenerator(chars=chars, entropy=e).length
            if N ** L < 2 ** e:
                return {"input": {"op": "genword-entropy", "alphabet_size": N, "entropy": e}, "observed": L, "expected": "N^L >= 2^entropy"}
    return None


def replay(ctx, inp):
    r = search(ctx, [], [])
    return {"fails": r is not None, "observed": r}
