"""C20 — the libpass bcrypt hashers' string assembly (lean/PasslibVerif/Model/LibpassBcryptStr.lean, driver suite `lpbs`) against the
REAL code of $PASSLIB_REPO/libpass/hashers/bcrypt.py: BcryptHasher.hash/verify/identify/needs_update and
BcryptSHA256Hasher._prepare_secret/hash/verify/identify/needs_update.

The `bcrypt` package is a parameter of the model: the module attribute `libpass.hashers.bcrypt.bcrypt` is replaced by a recorder that
forwards to the real package; each protocol line carries the one recorded call (arguments, answer) and the model must (a) make exactly
that call and (b) assemble the same result around it.  `Panic` (libpass.errors) is written `AssertionError` (Model: `PANIC`).

    cd /tmp/wp/c20b/verif && PASSLIB_REPO=/tmp/repo_clean /venv/bin/python -m tools.corr.c20_bcrypt_str [--thorough] [--seed N]
"""
from __future__ import annotations

import os
import sys
import warnings

if __name__ == "__main__":
    _here = os.path.dirname(os.path.abspath(__file__))
    sys.path.insert(0, os.path.dirname(_here))
sys.path.insert(0, os.environ.get("PASSLIB_REPO", "/repo"))

from .common import Suite, errname, hx  # noqa: E402

LEAN_TARGETS = ["PasslibVerif.Props.C20BcryptStr"]
BC64 = "./ABCDEFGHIJKLMNOPQRSTUVWXYZabcdefghijklmnopqrstuvwxyz0123456789"


def cps(s) -> str:
    return ",".join(str(ord(c)) for c in s) if s else "-"


def sec_arg(secret) -> str:
    return ("t:" + cps(secret)) if isinstance(secret, str) else ("b:" + hx(secret))


class Recorder:
    """stands in for the `bcrypt` module inside libpass.hashers.bcrypt"""

    def __init__(self, real):
        self.real = real
        self.calls = []

    def gensalt(self, *a, **k):
        return self.real.gensalt(*a, **k)

    def hashpw(self, password, salt):
        try:
            r = self.real.hashpw(password, salt)
        except Exception as e:  # noqa: BLE001
            self.calls.append((password, salt, "E:" + errname(e)))
            raise
        self.calls.append((password, salt, "h:" + hx(r)))
        return r

    def checkpw(self, password, hashed_password):
        try:
            r = self.real.checkpw(password, hashed_password)
        except Exception as e:  # noqa: BLE001
            self.calls.append((password, hashed_password, "E:" + errname(e)))
            raise
        self.calls.append((password, hashed_password, "1" if r else "0"))
        return r


def run(rec, thunk, conv):
    """-> (canonical answer, call fields)"""
    rec.calls.clear()
    try:
        r = thunk()
        a = "ok " + conv(r)
    except Exception as e:  # noqa: BLE001
        n = errname(e)
        a = "err " + ("AssertionError" if n == "Panic" else n)
    assert len(rec.calls) <= 1, rec.calls
    if rec.calls:
        p, s, ans = rec.calls[0]
        call = f"{hx(bytes(p))} {hx(bytes(s))} {ans}"
    else:
        call = "- - N"
    return a, call


def tf(x):
    assert x is True or x is False, x
    return "True" if x else "False"


def secrets_for(rng, thorough):
    out = []
    for n in (0, 1, 71, 72, 73):
        out.append(bytes(rng.randrange(1, 256) for _ in range(n)))
        out.append("".join(chr(rng.randrange(33, 127)) for _ in range(n)))
    out += ["pässwörd", "€" * 24, "€" * 25, "a\x00b", b"a\x00b", "\ud800x", "\U0001f600" * 18, b"\xff" * 72]
    for _ in range(12 if thorough else 4):
        n = rng.choice([2, 8, 16, 31, 44, 64, 70])
        out.append(bytes(rng.randrange(256) for _ in range(n)) if rng.random() < 0.5 else "".join(chr(rng.choice([rng.randrange(32, 127), rng.randrange(160, 0x800), rng.randrange(0x4e00, 0x9000)])) for _ in range(n // 3 + 1)))
    return out


def mutations(rng, hs):
    """(tag, string) for a libpass bcrypt-sha256 record"""
    head, params, salt, dig = hs[1:].split("$")
    out = [("same", hs)]
    out.append(("shift-right", f"${head}${params}${salt}{dig[0]}${dig[1:]}"))
    out.append(("shift-left", f"${head}${params}${salt[:-1]}${salt[-1]}{dig}"))
    out.append(("shift-right2", f"${head}${params}${salt}{dig[:2]}${dig[2:]}"))
    out.append(("no-sep", f"${head}${params}${salt}{dig}"))
    for v in ("1", "3", "02", "22", "+2", "-2", "2.0"):
        out.append(("v=" + v, hs.replace("v=2,", f"v={v},")))
    for t in ("2a", "2y", "2x", "2", "2B", "bcrypt"):
        out.append(("t=" + t, hs.replace("t=2b", "t=" + t).replace("t=2a", "t=" + t) if t != "2a" else hs.replace("t=2b", "t=2a")))
    r = params.split("r=")[1]
    for rr in ("0" + r, "00" + r, "+" + r, "-" + r, r + "0", "3", "32", "x", r + ".0", "0", "100"):
        out.append(("r=" + ("pad" if rr.lstrip("0") == r else rr if len(rr) < 4 else "other"), f"${head}${params.split('r=')[0]}r={rr}${salt}${dig}"))
    out.append(("extra-param", f"${head}${params},x=1${salt}${dig}"))
    out.append(("dup-r", f"${head}${params},r=7${salt}${dig}"))
    out.append(("dup-v", f"${head}v=1,{params}${salt}${dig}"))
    out.append(("order", f"${head}$r={r},t=2b,v=2${salt}${dig}"))
    out.append(("missing-t", f"${head}$v=2,r={r}${salt}${dig}"))
    out.append(("version-field", f"${head}$v=2${params}${salt}${dig}"))
    out.append(("extra-field", hs + "$abcdefghijklmnopq"))
    out.append(("trailing-nl", hs + "\n"))
    out.append(("leading", "x" + hs))
    out.append(("other-id", hs.replace("bcrypt-sha256", "bcrypt-sha512")))
    out.append(("upper-id", hs.replace("bcrypt-sha256", "BCRYPT-SHA256")))
    out.append(("digest-flip", hs[:-1] + ("a" if hs[-1] != "a" else "b")))
    out.append(("salt-flip", f"${head}${params}${'a' if salt[0] != 'a' else 'b'}{salt[1:]}${dig}"))
    out.append(("salt-bad-char", f"${head}${params}${salt[:-1]}!${dig}"))
    out.append(("digest-short", hs[:-1]))
    out.append(("salt-10", f"${head}${params}${salt[:10]}${dig}"))
    out.append(("bcrypt-string", f"$2b${int(r) if r.isdigit() else 4:02}${salt}{dig}"))
    out.append(("empty", ""))
    return out


def bc_mutations(rng, hs):
    out = [("same", hs)]
    out.append(("2a", "$2a" + hs[3:]))
    out.append(("2y", "$2y" + hs[3:]))
    out.append(("2x", "$2x" + hs[3:]))
    out.append(("2", "$2" + hs[3:]))
    out.append(("cost-1digit", hs[:4] + hs[5:]))
    out.append(("cost-3digit", hs[:4] + "0" + hs[4:]))
    out.append(("cost-arabic", hs[:4] + "٠٤" + hs[6:]))
    out.append(("cost-32", hs[:4] + "32" + hs[6:]))
    out.append(("cost-03", hs[:4] + "03" + hs[6:]))
    out.append(("cost-other", hs[:4] + "07" + hs[6:]))
    out.append(("short", hs[:-1]))
    out.append(("long", hs + "a"))
    out.append(("trailing-nl", hs + "\n"))
    out.append(("nl-inside", hs[:-1] + "\n"))
    out.append(("flip", hs[:-1] + ("a" if hs[-1] != "a" else "b")))
    out.append(("non-ascii", hs[:-1] + "é"))
    out.append(("surrogate", hs[:-1] + "\ud800"))
    out.append(("salt-flip", hs[:7] + ("a" if hs[7] != "a" else "b") + hs[8:]))
    out.append(("phc", "$bcrypt-sha256$v=2,t=2b,r=4$" + hs[7:29] + "$" + hs[29:]))
    out.append(("empty", ""))
    return out


def model_suite(ctx, s_m):
    warnings.simplefilter("ignore")
    import bcrypt as real_bcrypt
    import libpass.hashers.bcrypt as mod
    from libpass.hashers.bcrypt import BcryptHasher, BcryptSHA256Hasher

    rng = ctx.rng
    rec = Recorder(real_bcrypt)
    saved = mod.bcrypt
    mod.bcrypt = rec
    try:
        costs = [4, 5, 6]
        secs = secrets_for(rng, ctx.thorough)
        ident = lambda x: x  # noqa: E731
        made_bsha, made_bc = [], []
        for A in costs:
            H, G = BcryptSHA256Hasher(rounds=A), BcryptHasher(rounds=A)
            for B in costs:
                for pfx in (b"2b", b"2a"):
                    salts = [real_bcrypt.gensalt(rounds=B, prefix=pfx)]
                    if A == 4 and pfx == b"2b":
                        base = salts[0]
                        full = real_bcrypt.hashpw(b"x", base)
                        salts += [b"$2y" + base[3:], b"$2x" + base[3:], base[:4] + str(B).encode() + base[6:], base[:4] + b"0" + base[4:],
                                  base[:-1] + b"v", base[:-1], base + b"XYZ", full, base[:4] + b"03" + base[6:], base[:4] + b"32" + base[6:],
                                  base[7:], b"$2b$" + base[7:], base.replace(b"$", b"", 1), b"", base[:-1] + b"\xff", base[:-1] + b"$"]
                    for salt in salts:
                        for sec in (secs if (A == B or len(salts) > 1) else secs[:10]):
                            # --- BcryptSHA256Hasher
                            if salt:
                                a, call = run(rec, lambda: H.hash(sec, salt=salt), ident)
                                s_m.add_raw(f"lpbs bsha hash {sec_arg(sec)} {hx(salt)} {call}", a if a.startswith("err") else "ok " + cps(a[3:]), tag=f"bsha-hash")
                                if a.startswith("ok"):
                                    made_bsha.append((A, B, sec, a[3:]))
                                key = salt.rsplit(b"$")[-1]
                                a2, _ = run(rec, lambda: H._prepare_secret(sec, key), lambda r: hx(r))
                                s_m.add_raw(f"lpbs bsha prep {sec_arg(sec)} {hx(key)}", a2, tag="bsha-prep")
                                # --- BcryptHasher
                                a, call = run(rec, lambda: G.hash(sec, salt=salt), ident)
                                s_m.add_raw(f"lpbs bc hash {sec_arg(sec)} {hx(salt)} {call}", a if a.startswith("err") else "ok " + cps(a[3:]), tag="bc-hash")
                                if a.startswith("ok"):
                                    made_bc.append((A, B, sec, a[3:]))
        # fresh hashes with the hashers' own random salts (salt=None): only the consumers are modelled
        for A in costs:
            hs = BcryptSHA256Hasher(rounds=A).hash("own")
            made_bsha.append((A, A, "own", hs))
            hs = BcryptHasher(rounds=A).hash("own")
            made_bc.append((A, A, "own", hs))
        rng.shuffle(made_bsha)
        rng.shuffle(made_bc)
        n_mut = 60 if ctx.thorough else 18
        for i, (A, B, sec, hs) in enumerate(made_bsha):
            H = BcryptSHA256Hasher(rounds=A)
            variants = mutations(rng, hs) if i < n_mut else [("same", hs)]
            for tag, x in variants:
                for A2 in ([4, 5, 6] if i < n_mut else [A, B]):
                    H2 = BcryptSHA256Hasher(rounds=A2)
                    a, _ = run(rec, lambda: H2.needs_update(x), tf)
                    s_m.add_raw(f"lpbs bsha needs {A2} {cps(x)}", a, tag="bsha-needs:" + tag)
                a, _ = run(rec, lambda: H.identify(x), tf)
                s_m.add_raw(f"lpbs bsha identify {cps(x)}", a, tag="bsha-identify:" + tag)
                others = [sec, "other", sec[:-1] if len(sec) else b"z"]
                for s2 in others:
                    a, call = run(rec, lambda: H.verify(x, s2), tf)
                    s_m.add_raw(f"lpbs bsha verify {cps(x)} {sec_arg(s2)} {call}", a, tag="bsha-verify:" + tag + (":own" if s2 is sec else ":other"))
                # the bcrypt hasher on a bcrypt-sha256 record and vice versa
                a, _ = run(rec, lambda: BcryptHasher(rounds=A).identify(x), tf)
                s_m.add_raw(f"lpbs bc identify {cps(x)}", a, tag="bc-identify-foreign:" + tag)
        for i, (A, B, sec, hs) in enumerate(made_bc):
            G = BcryptHasher(rounds=A)
            variants = bc_mutations(rng, hs) if i < n_mut else [("same", hs)]
            for tag, x in variants:
                for A2 in ([4, 5, 6] if i < n_mut else [A, B]):
                    a, _ = run(rec, lambda: BcryptHasher(rounds=A2).needs_update(x), tf)
                    s_m.add_raw(f"lpbs bc needs {A2} {cps(x)}", a, tag="bc-needs:" + tag)
                a, _ = run(rec, lambda: G.identify(x), tf)
                s_m.add_raw(f"lpbs bc identify {cps(x)}", a, tag="bc-identify:" + tag)
                for s2 in [sec, "other"]:
                    a, call = run(rec, lambda: G.verify(x, s2), tf)
                    s_m.add_raw(f"lpbs bc verify {cps(x)} {sec_arg(s2)} {call}", a, tag="bc-verify:" + tag + (":own" if s2 is sec else ":other"))
                a, _ = run(rec, lambda: BcryptSHA256Hasher(rounds=A).identify(x), tf)
                s_m.add_raw(f"lpbs bsha identify {cps(x)}", a, tag="bsha-identify-foreign:" + tag)
    finally:
        mod.bcrypt = saved


if __name__ == "__main__":
    import argparse
    import json
    import time

    sys.path.insert(0, os.path.dirname(os.path.dirname(os.path.abspath(__file__))))
    from runner import Ctx  # type: ignore

    ap = argparse.ArgumentParser()
    ap.add_argument("--thorough", action="store_true")
    ap.add_argument("--seed", type=int, default=1)
    a = ap.parse_args()
    import libpass

    assert os.path.realpath(libpass.__file__).startswith(os.path.realpath(os.environ.get("PASSLIB_REPO", "/repo"))), libpass.__file__
    cx = Ctx("C20bcryptStr", "thorough" if a.thorough else "quick", a.seed)
    t0 = time.time()
    sm = Suite(cx, "c20-bcrypt-str-model")
    model_suite(cx, sm)
    res = sm.result()
    print(json.dumps({"cases": res["cases"], "mismatches": len(res["mismatches"]), "unmodelled": res["unmodelled"],
                      "seconds": round(time.time() - t0, 1), "libpass": os.path.dirname(libpass.__file__)}))
    for m in res["mismatches"][:12]:
        print("MISMATCH", json.dumps(m)[:900])
    print(json.dumps(res["distribution"], indent=0)[:9000])
