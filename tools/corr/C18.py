"""C18 — a disabled account can never log in and can be restored intact."""
from __future__ import annotations

import warnings

from .common import Oracle, Suite, errname, merge

GEN_UNITS = ["Disabled", "ContextPolicy", "DisabledHashers"]
LEAN_TARGETS = ["PasslibVerif.Props.C18"]
ASSUMPTIONS = [
    "schemes listed before the disabled hasher do not claim marker-led or empty strings (true of every non-catch-all format; C17 checks the shipped contexts)",
    "dummy_verify's cost is an event in the model; its timing is not measured",
]
EXPLANATION = (
    "Theorems about unix_disabled/django_disabled and CryptContext.is_enabled/disable/enable/verify(None): disabled strings are identified, "
    "verify False for every password, disabling is idempotent and normalises either marker style, enable∘disable = id on non-marker hashes, "
    "bare markers cannot be enabled, normal hashes are returned unchanged. Correspondence: real contexts with the disabled hasher at every "
    "list position over original hashes from several schemes, None, empty, already-disabled strings with both marker styles, and "
    "disable/enable histories."
)


def cps(s):
    return ",".join(str(ord(c)) for c in s) if s else "-"


CONTEXTS = [
    (["md5_crypt", "unix_disabled"], "id.md5_crypt.36,49,36+unix.33"),
    (["unix_disabled", "md5_crypt"], "unix.33+id.md5_crypt.36,49,36"),
    (["sha256_crypt", "unix_disabled", "md5_crypt"], "id.sha256_crypt.36,53,36+unix.33+id.md5_crypt.36,49,36"),
    (["md5_crypt", "django_disabled"], "id.md5_crypt.36,49,36+django"),
    (["django_disabled", "unix_disabled", "md5_crypt"], "django+unix.33+id.md5_crypt.36,49,36"),
    (["unix_disabled", "django_disabled", "md5_crypt"], "unix.33+django+id.md5_crypt.36,49,36"),
    (["md5_crypt", "ldap_md5"], "id.md5_crypt.36,49,36+id.ldap_md5.123,77,68,53,125"),
    (["md5_crypt", "unix_disabled", "plaintext"], "id.md5_crypt.36,49,36+unix.33+plain.plaintext"),
    (["plaintext", "unix_disabled"], "plain.plaintext+unix.33"),
]
STAR = (["md5_crypt", "unix_disabled"], "id.md5_crypt.36,49,36+unix.42", {"unix_disabled__marker": "*"})


def correspond(ctx):
    warnings.simplefilter("ignore")
    from passlib.context import CryptContext
    from passlib.hash import ldap_md5, md5_crypt, sha256_crypt

    rng = ctx.rng
    suite = Suite(ctx, "context-disable-enable")
    s_hist = Suite(ctx, "disable-enable-histories")
    md5h = md5_crypt.hash("pw")
    originals = [None, "", "!", "*", "!!", "!*", "*!x", "!" + md5h, "*" + md5h, md5h, sha256_crypt.using(rounds=1000).hash("pw"), ldap_md5.hash("pw"),
                 "plain text", "$1$", "$unknown$abc", " !", "x", "!x", "é!", "!" * 5 + "a",
                 "a9993e364706816aba3e25717850c26c9cd0d89d", "*" + "A9993E364706816ABA3E25717850C26C9CD0D89D", "900150983cd24fb0d6963f7d28e17f72"]
    ctxs = [(CryptContext(s), spec) for s, spec in CONTEXTS] + [(CryptContext(STAR[0], **STAR[2]), STAR[1])]
    for c, spec in ctxs:
        for h in originals:
            if h is not None:
                suite.add(f"dis identify {spec} {cps(h)}", lambda c=c, h=h: c.identify(h, required=True), "identify")
                suite.add(f"dis isenabled {spec} {cps(h)}", lambda c=c, h=h: str(int(c.is_enabled(h))), "is_enabled")
                suite.add(f"dis enable {spec} {cps(h)}", lambda c=c, h=h: cps(c.enable(h)), "enable")
            # disable: django's suffix is random -> observe it and hand it to the model
            try:
                d = c.disable(h)
                sfx = d[1:] if "django" in spec.split("+")[0:1] or (spec.find("django") != -1 and (spec.find("unix") == -1 or spec.find("django") < spec.find("unix"))) else ""
                suite.add(f"dis disable {spec} {cps(sfx)} {'none' if h is None else cps(h)}", lambda d=d: cps(d), "disable")
                # the disabled string: identified, not enabled, never verifies, idempotent, enable restores
                suite.add(f"dis isenabled {spec} {cps(d)}", lambda c=c, d=d: str(int(c.is_enabled(d))), "disabled-is_enabled")
                for p in ("", "pw", d, "too many secrets"):
                    suite.add(f"dis verify {spec} {cps(p)} {cps(d)}", lambda c=c, d=d, p=p: str(int(c.verify(p, d))) + " dummy=0", "disabled-verify")
                suite.add(f"dis enable {spec} {cps(d)}", lambda c=c, d=d: cps(c.enable(d)), "enable-disabled")
                if not sfx:
                    suite.add(f"dis disable {spec} - {cps(d)}", lambda c=c, d=d: cps(c.disable(d)), "disable-twice")
            except RuntimeError:
                suite.add(f"dis disable {spec} - {'none' if h is None else cps(h)}", lambda c=c, h=h: cps(c.disable(h)), "disable-no-hasher")
        # verify against a missing hash: False + exactly one dummy verification
        calls = []
        orig = c.dummy_verify
        c.dummy_verify = lambda *a, calls=calls, orig=orig, **k: (calls.append(1), orig(*a, **k))[1]
        # … for every secret, the one the library itself uses for its dummy verification included
        for p in ("", "pw", "too many secrets", str(getattr(CryptContext, "_dummy_secret", "x"))):
            calls.clear()
            suite.add(f"dis verify {spec} {cps(p)} none", lambda c=c, p=p, calls=calls: str(int(c.verify(p, None))) + f" dummy={len(calls)}", "verify-none")
            # the same promise through the entry point applications use for logins
            suite.add(f"dis verify {spec} {cps(p)} none", lambda c=c, p=p, calls=calls: (lambda r: ("0" if r == (False, None) else repr(r)) + f" dummy={len(calls)}")(
                (calls.clear(), c.verify_and_update(p, None))[1]), "verify_and_update-none")
    # histories
    for _ in range(300 if not ctx.thorough else 5000):
        c, spec = rng.choice([x for x in ctxs if "django" not in x[1]][:3] + [ctxs[-1]])
        cur = rng.choice([md5h, "!", "", "*" + md5h, "x"])
        for _k in range(rng.randrange(1, 7)):
            if rng.random() < 0.6:
                s_hist.add(f"dis disable {spec} - {cps(cur)}", lambda c=c, cur=cur: cps(c.disable(cur)), "disable")
                try:
                    cur = c.disable(cur)
                except Exception:  # noqa: BLE001
                    break
            else:
                s_hist.add(f"dis enable {spec} {cps(cur)}", lambda c=c, cur=cur: cps(c.enable(cur)), "enable")
                try:
                    cur = c.enable(cur)
                except Exception:  # noqa: BLE001
                    break
    o_none = Oracle(ctx, "missing-hash-after-reconfiguration")
    for tag, inp, ok, obs, exp in none_after_reconfiguration_cases(rng, 25 if not ctx.thorough else 500):
        o_none.check(tag, ok, inp, obs, exp)
    for gen in (none_any_default_cases(), disabled_edge_cases()):
        for tag, inp, ok, obs, exp in gen:
            o_none.check(tag, ok, inp, obs, exp)
    return merge(suite, s_hist, o_none)


def disabled_edge_cases():
    """(tag, input, ok, observed, expected): the disabled hasher works whatever the deprecation policy says about it (it never makes password
    hashes, so being 'deprecated' cannot take it out of service), and a disabled string given as BYTES that are not ASCII after the marker
    is still a disabled string"""
    from passlib.context import CryptContext

    for kw in ({"deprecated": "auto"}, {"deprecated": ["auto"]}, {"deprecated": ["unix_disabled"]}, {"deprecated": ["unix_disabled", "des_crypt"]}, {}):
        for schemes in (["md5_crypt", "des_crypt", "unix_disabled"], ["unix_disabled", "md5_crypt", "des_crypt"]):
            if kw.get("deprecated") in ("auto", ["auto"]) and schemes[0] == "unix_disabled":
                continue        # the default scheme cannot be the disabled hasher
            inp = {"op": "disable-under-deprecation", "schemes": schemes, "kwds": kw}
            try:
                c = CryptContext(schemes, **kw)
            except Exception:  # noqa: BLE001
                continue
            try:
                h = c.handler("md5_crypt").hash("pw")
                d = c.disable(h)
                obs = (c.is_enabled(d), c.verify("pw", d), c.enable(d) == h, c.is_enabled(c.disable()), c.verify("", c.disable()))
            except Exception as e:  # noqa: BLE001
                obs = errname(e) + ": " + str(e)[:80]
            yield ("disable-under-deprecation", inp, obs == (False, False, True, False, False), obs, (False, False, True, False, False))
    c = CryptContext(["md5_crypt", "unix_disabled"])
    for raw, back in ((b"!caf\xc3\xa9", "caf\u00e9"), (b"*\xff\xfe", None), (b"!\xe9t\xe9", None), ("!caf\u00e9".encode("utf-8"), "caf\u00e9")):
        inp = {"op": "disabled-bytes", "hash": raw.hex()}
        try:
            obs = [c.is_enabled(raw), c.verify("pw", raw), c.verify_and_update("pw", raw)]
            if back is not None:
                obs.append(c.enable(raw))
            want = [False, False, (False, None)] + ([back] if back is not None else [])
        except Exception as e:  # noqa: BLE001
            obs, want = errname(e) + ": " + str(e)[:80], "recognised as disabled"
        yield ("disabled-bytes", inp, obs == want, obs, want)


def none_any_default_cases():
    """verification against a missing hash is False whatever scheme is the context's default — the ones that cannot hash without a user
    name or realm (postgres_md5, oracle10, msdcc, msdcc2, cisco_*, htdigest) included — with and without the caller's own keywords;
    yields (tag, input, ok, observed, expected)"""
    from passlib import registry
    from passlib.context import CryptContext

    from .formats_common import EXPENSIVE

    for name in registry.list_crypt_handlers():
        if name in EXPENSIVE or name in ("argon2", "django_argon2", "scrypt", "sun_md5_crypt"):
            continue
        try:
            h = registry.get_crypt_handler(name)
        except Exception:  # noqa: BLE001
            continue
        ck = set(getattr(h, "context_kwds", ()) or ())
        for schemes in ([name], [name, "md5_crypt"], ["md5_crypt", name]):
            if len(set(schemes)) != len(schemes):
                continue
            for kw in ({}, {"user": "u"} if "user" in ck else None, {"user": "u", "realm": "r"} if "realm" in ck else None):
                if kw is None:
                    continue
                inp = {"op": "verify-none-any-default", "schemes": schemes, "kwds": kw}
                obs = []
                try:
                    c = CryptContext(schemes, **({f"{name}__rounds": h.min_rounds} if "rounds" in (h.setting_kwds or ()) and name not in ("bsdi_crypt",) else {}))
                except Exception:  # noqa: BLE001
                    try:
                        c = CryptContext(schemes)
                    except Exception:  # noqa: BLE001
                        continue
                for call in (lambda: c.verify("pw", None, **kw), lambda: c.verify_and_update("pw", None, **kw), lambda: c.dummy_verify(), lambda: c.verify("", None, **kw)):
                    try:
                        obs.append(call())
                    except Exception as e:  # noqa: BLE001
                        obs.append(errname(e) + ": " + str(e)[:60])
                yield ("verify-none-any-default", inp, obs == [False, (False, None), False, False], obs, [False, (False, None), False, False])


def every_scheme_hash():
    """one hash of "pw" from every registered scheme that can make one quickly (original hashes 'from every scheme')"""
    from passlib import registry

    out = []
    for name in sorted(registry.list_crypt_handlers()):
        if name.endswith("_disabled") or name in ("roundup_plaintext",):
            continue
        try:
            h = registry.get_crypt_handler(name)
            kw = {}
            if getattr(h, "min_rounds", None) is not None and "rounds" in getattr(h, "setting_kwds", ()):
                kw["rounds"] = max(h.min_rounds, 1)
            if name == "scrypt":
                kw["rounds"] = 1
            hh = h.using(**kw) if kw else h
            ckw = {"user": "user"} if "user" in getattr(h, "context_kwds", ()) else {}
            v = hh.hash("pw", **ckw)
            if isinstance(v, str):
                out.append((name, v))
        except Exception:  # noqa: BLE001
            continue
    return out


def none_after_reconfiguration_cases(rng, rounds):
    """verification against a missing hash stays False and costs one dummy verification of the CURRENT default scheme after the
    context was reconfigured in place (update / load(update=True) / load), whether or not the dummy hash had been primed before.
    yields (tag, input, ok, observed, expected)"""
    from passlib.context import CryptContext

    pool = ["md5_crypt", "sha256_crypt", "des_crypt", "ldap_md5", "sha1_crypt"]
    for _ in range(rounds):
        first = rng.sample(pool, rng.randrange(1, 4))
        c = CryptContext(schemes=first + ["unix_disabled"], sha256_crypt__rounds=1000, sha1_crypt__rounds=2)
        hist = []
        for _k in range(rng.randrange(1, 4)):
            prime = rng.random() < 0.7
            if prime:
                c.verify("x", None) if rng.random() < 0.5 else c.dummy_verify()
            new = rng.sample(pool, rng.randrange(1, 4))
            how = rng.choice(["update-schemes", "update-default", "load-update", "load"])
            hist.append([how, new, "primed" if prime else "fresh"])
            try:
                if how == "update-schemes":
                    c.update(schemes=new + ["unix_disabled"])
                elif how == "update-default":
                    c.update(schemes=sorted(set(c.schemes()) | set(new)), default=new[0])
                elif how == "load-update":
                    c.load({"schemes": new + ["unix_disabled"]}, update=True)
                else:
                    c.load({"schemes": new + ["unix_disabled"], "sha256_crypt__rounds": 1000, "sha1_crypt__rounds": 2})
            except Exception as e:  # noqa: BLE001
                hist[-1].append(errname(e))
                continue
            used = []
            real_verify = c.verify

            def spy(secret, hash, *a, _rv=real_verify, **k):
                if hash is not None:
                    used.append(c.identify(hash))
                return _rv(secret, hash, *a, **k)

            c.verify = spy
            try:
                obs = []
                for call in (lambda: real_verify("letmein", None), lambda: c.verify_and_update("letmein", None)):
                    del used[:]
                    try:
                        r = call()
                    except Exception as e:  # noqa: BLE001
                        r = errname(e)
                    obs.append((r, list(used)))
            finally:
                del c.verify
            want_scheme = c.default_scheme()
            exp = [(False, [want_scheme]), ((False, None), [want_scheme])]
            # verify(None) calls dummy_verify -> self.verify(dummy_secret, dummy_hash): one verification, of the current default scheme
            yield ("none-after-reconfiguration", {"op": "none-after-reconfiguration", "first": first, "history": list(hist)}, obs == exp, obs, exp)


def search(ctx, broken, seeds):
    """the property's statement evaluated on the real code"""
    warnings.simplefilter("ignore")
    from passlib.context import CryptContext
    from passlib.hash import bcrypt, des_crypt, ldap_md5, md5_crypt, sha256_crypt

    for tag, inp, ok, obs, exp in none_after_reconfiguration_cases(ctx.rng, 40):
        if not ok:
            return {"input": inp, "observed": obs, "expected": exp, "check": tag}
    for gen in (none_any_default_cases(), disabled_edge_cases()):
        for tag, inp, ok, obs, exp in gen:
            if not ok:
                return {"input": inp, "observed": obs, "expected": exp, "check": tag}
    originals = [md5_crypt.hash("pw"), sha256_crypt.using(rounds=1000).hash("pw"), des_crypt.hash("pw"), ldap_md5.hash("pw")]
    extra = [v for _n, v in every_scheme_hash()]
    # both disabled hashers in one context, either order: enable() restores through the handler that recognises the string (the first claimer)
    from passlib import registry

    for order in (["django_disabled", "unix_disabled"], ["unix_disabled", "django_disabled"]):
        for pos in (0, 1, 2):
            sl = ["md5_crypt", "sha256_crypt"][:pos] + order + ["md5_crypt", "sha256_crypt"][pos:]
            c = CryptContext(sl)
            for h0 in originals[:2]:
                for x in ("*" + h0, "!" + h0, "!", "*", h0, "!abcdef"):
                    claimer = next((n for n in sl if registry.get_crypt_handler(n).identify(x)), None)
                    if claimer == "unix_disabled":
                        want = x[1:] if len(x) > 1 else "ValueError"
                    elif claimer == "django_disabled":
                        want = "ValueError"
                    else:
                        want = x
                    try:
                        got = c.enable(x)
                    except ValueError:
                        got = "ValueError"
                    except Exception as e:  # noqa: BLE001
                        got = errname(e)
                    if got != want or c.is_enabled(x) is not (claimer not in ("unix_disabled", "django_disabled")):
                        return {"input": {"op": "enable-two-disabled-hashers", "schemes": sl, "string": x}, "observed": {"enable": got, "is_enabled": c.is_enabled(x)},
                                "expected": {"enable": want, "recognised_by": claimer}}
    # (a catch-all scheme listed AFTER the disabled hasher must not get to see disabled strings: the configured order is the order of attribution)
    lists = [["md5_crypt", "sha256_crypt", "des_crypt", "ldap_md5"], ["md5_crypt", "sha256_crypt", "plaintext"], ["ldap_md5", "ldap_plaintext"]]
    for schemes in lists:
        last = min([schemes.index(n) for n in ("plaintext", "ldap_plaintext") if n in schemes] + [len(schemes)])
        for pos in range(last + 1):
            for dname, kw in (("unix_disabled", {}), ("unix_disabled", {"unix_disabled__marker": "*"}), ("django_disabled", {})):
                sl = schemes[:pos] + [dname] + schemes[pos:]
                c = CryptContext(sl, **kw)
                for orig in [None, "", "!", "*"] + originals + ["!" + originals[0], "*" + originals[0]] + extra + ["!" + x for x in extra] + ["*" + x for x in extra]:
                    def fail(what, observed):
                        return {"input": {"op": "disabled", "schemes": sl, "options": kw, "original": orig}, "observed": {what: observed},
                                "expected": "disabled string identified as disabled, verifies False for every password, stable under disable, enable restores the embedded hash"}
                    try:
                        d = c.disable(orig)
                    except Exception as e:  # noqa: BLE001
                        return fail("disable raised", errname(e))
                    try:
                        if c.is_enabled(d):
                            return fail("is_enabled", True)
                        for p in ("", "pw", d, "x" * 50):
                            if c.verify(p, d):
                                return fail("verify", p)
                        d2 = c.disable(d)
                        if c.is_enabled(d2) or (dname == "unix_disabled" and d2 != d):
                            return fail("disable twice", d2)
                    except Exception as e:  # noqa: BLE001
                        return fail("raised", errname(e))
                    # what enable() must give back: the embedded hash (an already marker-led original
                    # embeds what follows its marker); nothing for bare markers / None / django
                    want = None
                    if dname == "unix_disabled" and orig:
                        want = orig[1:] if orig[0] in "!*" else orig
                        want = want or None
                    try:
                        back = c.enable(d)
                        if want is None or back != want:
                            return fail("enable", back)
                    except ValueError:
                        if want is not None:
                            return fail("enable", "ValueError")
                for orig in originals:
                    if c.enable(orig) != orig:
                        return fail("enable(normal hash)", c.enable(orig))
                n = []
                real = c.dummy_verify
                c.dummy_verify = lambda *a, n=n, real=real, **k: (n.append(1), real(*a, **k))[1]
                dummy = getattr(CryptContext, "_dummy_secret", "x")
                for secret in ("pw", "", "too many secrets", dummy, dummy.encode() if isinstance(dummy, str) else dummy):
                    del n[:]
                    got = c.verify(secret, None)
                    if got is not False or len(n) != 1:
                        return {"input": {"op": "verify-none", "schemes": sl, "secret": repr(secret)}, "observed": {"result": got, "dummy_calls": len(n)}, "expected": "False and one dummy verification"}
                del n[:]
                r = c.verify_and_update("pw", None)
                if r != (False, None) or len(n) != 1:
                    return {"input": {"op": "verify_and_update-none", "schemes": sl}, "observed": {"result": repr(r), "dummy_calls": len(n)},
                            "expected": "(False, None) and one dummy verification"}
    return None


def replay(ctx, inp):
    if inp.get("op") == "verify-none-any-default":
        warnings.simplefilter("ignore")
        from passlib.context import CryptContext

        c = CryptContext(inp["schemes"])
        obs = []
        for call in (lambda: c.verify("pw", None, **inp.get("kwds", {})), lambda: c.verify_and_update("pw", None, **inp.get("kwds", {})), lambda: c.dummy_verify()):
            try:
                obs.append(call())
            except Exception as e:  # noqa: BLE001
                obs.append(errname(e) + ": " + str(e)[:60])
        return {"fails": obs != [False, (False, None), False], "observed": repr(obs)}
    r = search(ctx, [], [])
    return {"fails": r is not None, "observed": r}
