"""fresh-process helper for C17: import the preset modules in the order given on the command line and print every exported context's
scheme list (json).  argv: repo, then module names (hosts / apache / apps) in import order."""
import json
import sys
import warnings

warnings.simplefilter("ignore")
sys.path.insert(0, sys.argv[1])
import importlib

mods = {}
for m in sys.argv[2:]:
    mods[m] = importlib.import_module("passlib." + m)
from passlib import registry
from passlib.context import CryptContext

out = {"os_crypt": list(registry.get_supported_os_crypt_schemes())}
for m, mod in mods.items():
    for attr in dir(mod):
        v = getattr(mod, attr)
        if isinstance(v, CryptContext) and not attr.startswith("_"):
            try:
                out[f"{m}.{attr}"] = list(v.schemes())
            except Exception as e:  # noqa: BLE001
                out[f"{m}.{attr}"] = "err " + type(e).__name__
json.dump(out, sys.stdout)
