"""C01 for the "Misc" family (fshp, scrypt `$scrypt$` / `$7$`, scram): the compiled Lean hash / verify / identify model
(lean/Driver/VerifyFmtMisc.lean, suite `vfyM`) against the real hashers of /repo.

    cd <verif> && /venv/bin/python -m tools.corr.c01_misc [--thorough] [--seed N]
"""
from __future__ import annotations

import warnings

from .common import Suite, hx
from .common import errname as _errname
from .formats_common import cps

warnings.simplefilter("ignore")


def errname(e):
    return _errname(e)


def sec_arg(secret):
    return ("t:" + cps(secret)) if isinstance(secret, str) else ("b:" + hx(secret))


def handler(name):
    from passlib import registry

    return registry.get_crypt_handler(name)


def safe_hash(h, secret):
    try:
        hs = h.hash(secret)
        return hs, "ok " + cps(hs)
    except Exception as e:  # noqa: BLE001
        return None, "err " + errname(e)


def safe_verify(h, secret, hs, **kw):
    try:
        return "ok " + ("True" if h.verify(secret, hs, **kw) else "False")
    except Exception as e:  # noqa: BLE001
        return "err " + errname(e)


def safe_identify(h, hs):
    try:
        return "ok " + ("True" if h.identify(hs) else "False")
    except Exception as e:  # noqa: BLE001
        return "err " + errname(e)


TEXT_ALPHABET = "aZ9 !~_é€𝄞ß"


def gen_secret(rng, printable_only=False):
    """text or bytes; multi-byte, NUL, boundary and oversize lengths"""
    r = rng.random()
    if r < 0.06:
        n = rng.choice([4095, 4096, 4097, 5000])
        b = bytes(rng.choice(b"abcdefgh") for _ in range(n))
        return b.decode() if rng.random() < 0.5 else b
    if r < 0.09 and not printable_only:
        # 4096 characters but more bytes: the size limit counts characters of text
        return "".join(rng.choice("aé") for _ in range(rng.choice([4096, 4097])))
    n = rng.choice([0, 1, 2, 3, 7, 8, 9, 16, 31, 55, 56, 63, 64, 65, 72, 73, 119, 128, 200])
    kind = rng.choice(["ascii", "ascii", "text", "bytes", "nul"]) if not printable_only else "ascii"
    if kind == "ascii":
        b = bytes(rng.choice(b"abcdefgXYZ0189 !~_") for _ in range(n))
        return b.decode() if rng.random() < 0.5 else b
    if kind == "text":
        s = "".join(rng.choice(TEXT_ALPHABET) for _ in range(n))
        if rng.random() < 0.08:
            s += "\ud800"                       # not encodable
        return s if rng.random() < 0.6 else s.encode("utf-8", "surrogatepass")
    if kind == "nul":
        b = bytes(rng.choice(b"ab\x00") for _ in range(n + 1))
        return b.decode() if rng.random() < 0.5 else b
    return bytes(rng.randrange(0, 256) for _ in range(n))


def other_secrets(rng, secret):
    """the same secret in the other form, and near misses"""
    out = []
    if isinstance(secret, str):
        try:
            out.append(secret.encode("utf-8"))
        except UnicodeEncodeError:
            pass
        out.append(secret + "x")
        if secret:
            out.append(secret[:-1])
            i = rng.randrange(len(secret))
            out.append(secret[:i] + chr(ord(secret[i]) ^ 1) + secret[i + 1:])
    else:
        try:
            out.append(secret.decode("utf-8"))
        except UnicodeDecodeError:
            pass
        out.append(secret + b"x")
        if secret:
            out.append(secret[:-1])
            i = rng.randrange(len(secret))
            out.append(secret[:i] + bytes([secret[i] ^ 1]) + secret[i + 1:])
    return out


def mutate(rng, hs, seps="$"):
    """strings near a valid hash: mutated checksum character, truncations, trailing newline, empty, doubled separator …"""
    last = hs[-1]
    i = len(hs) - 1
    while i > 0 and hs[i] == "=":
        i -= 1
    repl = "A" if hs[i] != "A" else "B"
    cands = [
        hs[:i] + repl + hs[i + 1:],               # a checksum character changed
        hs[:-1],
        hs + "\n",
        hs + "\n\n",
        hs + " ",
        hs[: len(hs) // 2],
        "",
        hs + last,
        hs.upper(),
    ]
    for sep in seps:
        if sep in hs:
            cands.append(hs.replace(sep, sep + sep, 1))
            cands.append(hs.rsplit(sep, 1)[0])
            cands.append(hs.rsplit(sep, 1)[0] + sep)
    k = rng.randrange(len(hs))
    cands.append(hs[:k] + rng.choice("$|}{=,.+/09azAZ٣é\x00\n") + hs[k + 1:])
    k = rng.randrange(len(hs))
    cands.append(hs[:k] + hs[k + 1:])
    return cands


FOREIGN = [
    "$1$abcdefgh$G//4keteveJp0qb8z2DxG/",
    "$5$rounds=1000$salt$0IWH9hkYXqPdO1xA0dsRZ.7aSzhGQ8ZQ0Qj8Gs4G0w1",
    "{FSHP1|2|2}YWJpYlln5w9KZlF30tVFXa94Gyw4iHUPVnU1J+SSDdL/QQ==",
    "$scrypt$ln=1,r=1,p=1$YWI$ZGfst6dF2gC55C4amW5naWLSki7rCsqLaWVNvydepwI",
    "$7$//..../....ab$YR4vrSOFO1EiYvW4NuqNd7aoGumu8cwWdJKHzSWLb8.",
    "$scram$2$YWI$sha-1=z4BT88hOol4pDIMpScOp2qAnOBE,sha-256=xAkXXeqBnPJpY3DHQ3Dk1Mu.fHQm17FeR0d/CVU6I0M",
    "$scram$2$YWI$sha-1,sha-256",
    "{FSHP9|2|2}YWJpYlln5w9KZlF30tVFXa94Gyw4iHUPVnU1J+SSDdL/QQ==",
    "{FSHP1|2|0}YWJpYlln5w9KZlF30tVFXa94Gyw4iHUPVnU1J+SSDdL/QQ==",
    "{FSHP1|40|2}YWJpYlln5w9KZlF30tVFXa94Gyw4iHUPVnU1J+SSDdL/QQ==",
    "{FSHP١|2|2}YWJpYlln5w9KZlF30tVFXa94Gyw4iHUPVnU1J+SSDdL/QQ==",
]


# ------------------------------------------------------------------------------------------------ fshp
def fshp_cases(ctx, s_m):
    rng = ctx.rng
    h = handler("fshp")
    n = 45 if not ctx.thorough else 450
    for k in range(n):
        variant = k % 4
        salt = bytes(rng.randrange(256) for _ in range(rng.choice([0, 1, 2, 8, 16, 17, 64])))
        rounds = rng.choice([1, 1, 2, 3, 7, 20])
        secret = gen_secret(rng)
        hh = h.using(variant=variant, salt=salt, rounds=rounds)
        hs, ans = safe_hash(hh, secret)
        s_m.add_raw(f"vfyM fshp hash {sec_arg(secret)} {hx(salt)} {rounds} {variant}", ans, "fshp:hash")
        if hs is None:
            hs = hh.hash("pw")
        for sec in [secret] + other_secrets(rng, secret):
            s_m.add_raw(f"vfyM fshp verify {sec_arg(sec)} {cps(hs)}", safe_verify(h, sec, hs), "fshp:verify-own")
        s_m.add_raw(f"vfyM fshp identify {cps(hs)}", safe_identify(h, hs), "fshp:identify")
        sec2 = secret if len(secret) <= 4096 else "pw"
        for c in mutate(rng, hs, "|}") + [rng.choice(FOREIGN)]:
            s_m.add_raw(f"vfyM fshp verify {sec_arg(sec2)} {cps(c)}", safe_verify(h, sec2, c), "fshp:verify-mutated")
            s_m.add_raw(f"vfyM fshp identify {cps(c)}", safe_identify(h, c), "fshp:identify-mutated")
    for c in FOREIGN:
        s_m.add_raw(f"vfyM fshp verify t:112,119 {cps(c)}", safe_verify(h, "pw", c), "fshp:verify-foreign")
        s_m.add_raw(f"vfyM fshp identify {cps(c)}", safe_identify(h, c), "fshp:identify-foreign")


# ------------------------------------------------------------------------------------------------ scrypt
SALT7 = "./0123456789ABCDEFGHIJKLMNOPQRSTUVWXYZabcdefghijklmnopqrstuvwxyz+=,-_ \n"


def scrypt_cases(ctx, s_m):
    rng = ctx.rng
    h = handler("scrypt")
    n = 40 if not ctx.thorough else 400
    for k in range(n):
        i7 = k % 2 == 1
        if i7:
            r = rng.random()
            if r < 0.06:
                salt = bytes(rng.randrange(128, 256) for _ in range(3))            # to_string refuses: NotImplementedError
            elif r < 0.12:
                salt = b"a$b"                                                     # renders, does not parse back (see REPORT)
            else:
                salt = "".join(rng.choice(SALT7) for _ in range(rng.choice([0, 1, 8, 22, 43, 100]))).encode()
        else:
            salt = bytes(rng.randrange(256) for _ in range(rng.choice([0, 1, 2, 16, 32, 33, 1024])))
        logN = rng.choice([1, 1, 2, 3, 4])
        r_, p_ = rng.choice([(1, 1), (1, 1), (2, 1), (1, 2), (2, 2)])
        secret = gen_secret(rng)
        hh = h.using(ident="$7$" if i7 else "$scrypt$", salt=salt, rounds=logN, block_size=r_, parallelism=p_)
        hs, ans = safe_hash(hh, secret)
        tag = "scrypt7" if i7 else "scrypt"
        s_m.add_raw(f"vfyM scrypt hash {sec_arg(secret)} {'7' if i7 else 's'} {hx(salt)} {logN} {r_} {p_}", ans, tag + ":hash")
        if hs is None:
            hs = h.using(ident="$7$" if i7 else "$scrypt$", salt=b"ab", rounds=logN, block_size=r_, parallelism=p_).hash("pw")
        for sec in [secret] + other_secrets(rng, secret):
            s_m.add_raw(f"vfyM scrypt verify {sec_arg(sec)} {cps(hs)}", safe_verify(h, sec, hs), tag + ":verify-own")
        s_m.add_raw(f"vfyM scrypt identify {cps(hs)}", safe_identify(h, hs), tag + ":identify")
        sec2 = secret if len(secret) <= 200 else "pw"
        # keep mutated strings cheap: a mutation may turn the cost digits into a large N / r / p — those go to the real code only when small
        for c in mutate(rng, hs, "$,") + [rng.choice(FOREIGN)]:
            if not cheap_scrypt(h, c):
                continue
            s_m.add_raw(f"vfyM scrypt verify {sec_arg(sec2)} {cps(c)}", safe_verify(h, sec2, c), tag + ":verify-mutated")
            s_m.add_raw(f"vfyM scrypt identify {cps(c)}", safe_identify(h, c), tag + ":identify-mutated")
    for c in FOREIGN:
        s_m.add_raw(f"vfyM scrypt verify t:112,119 {cps(c)}", safe_verify(h, "pw", c), "scrypt:verify-foreign")
        s_m.add_raw(f"vfyM scrypt identify {cps(c)}", safe_identify(h, c), "scrypt:identify-foreign")


def cheap_scrypt(h, c):
    """a string is sent to model and real code when it does not parse, or parses to a cost both can afford"""
    try:
        o = h.from_string(c)
    except Exception:  # noqa: BLE001
        return True
    return o.rounds <= 4 and o.block_size <= 2 and o.parallelism <= 2


# ------------------------------------------------------------------------------------------------ scram
SIX = ["md5", "sha-1", "sha-224", "sha-256", "sha-384", "sha-512"]
PRINTABLE = bytes(range(32, 127))


def scram_algs(rng):
    others = [a for a in SIX if a != "sha-1"]
    pick = rng.sample(others, rng.choice([0, 1, 1, 2, 2, 3, 5]))
    return sorted(pick + ["sha-1"])


def scram_secret(rng):
    r = rng.random()
    if r < 0.75:
        n = rng.choice([0, 1, 2, 8, 16, 55, 56, 64, 65, 128, 200])
        b = bytes(rng.choice(PRINTABLE) for _ in range(n))
        return b.decode() if rng.random() < 0.5 else b
    return gen_secret(rng)


def scram_tamper(rng, h, hs, secret, algs, salt, rounds):
    """records whose digests disagree with each other: one digest replaced by the digest of another secret, mis-sized, re-ordered"""
    from passlib.utils.binary import ab64_encode

    out = []
    head, body = hs.rsplit("$", 1)
    items = body.split(",")
    for k in range(len(items)):
        a, d = items[k].split("=")
        other = ab64_encode(h.derive_digest("another", salt, rounds, a)).decode()
        out.append(head + "$" + ",".join(items[:k] + [a + "=" + other] + items[k + 1:]))
        out.append(head + "$" + ",".join(items[:k] + [a + "=" + d[:-4]] + items[k + 1:]))        # mis-sized
    out.append(head + "$" + ",".join(reversed(items)))
    out.append(head + "$" + ",".join(items + [items[0]]))                                         # repeated key
    out.append(head + "$" + ",".join(algs))                                                       # config string
    out.append(head + "$" + ",".join(items + ["foo=" + "AAAA"]))                                  # a digest hashlib does not know
    if len(items) > 1:
        out.append(head + "$" + ",".join(i for i in items if not i.startswith("sha-1=")))         # sha-1 missing
    return out


def scram_cases(ctx, s_m):
    import logging

    logging.disable(logging.WARNING)        # passlib.crypto.digest logs every unrecognised digest name it normalises
    try:
        _scram_cases(ctx, s_m)
    finally:
        logging.disable(logging.NOTSET)


def _scram_cases(ctx, s_m):
    rng = ctx.rng
    h = handler("scram")

    def vfy(sec, c, tag):
        s_m.add_raw(f"vfyM scram verify {sec_arg(sec)} {cps(c)}", safe_verify(h, sec, c), "scram:" + tag)
        s_m.add_raw(f"vfyM scram verifyfull {sec_arg(sec)} {cps(c)}", safe_verify(h, sec, c, full=True), "scram:" + tag + "-full")

    n = 40 if not ctx.thorough else 400
    for k in range(n):
        algs = scram_algs(rng)
        salt = bytes(rng.randrange(256) for _ in range(rng.choice([0, 1, 12, 16, 33])))
        rounds = rng.choice([1, 1, 2, 3, 20])
        secret = scram_secret(rng)
        hh = h.using(algs=list(algs), salt=salt, rounds=rounds)
        hs, ans = safe_hash(hh, secret)
        s_m.add_raw(f"vfyM scram hash {sec_arg(secret)} {cps(','.join(algs))} {hx(salt)} {rounds}", ans, "scram:hash")
        base = secret
        if hs is None:
            base = "pw"
            hs = hh.hash(base)
        for sec in [secret] + other_secrets(rng, secret):
            vfy(sec, hs, "verify-own")
        s_m.add_raw(f"vfyM scram identify {cps(hs)}", safe_identify(h, hs), "scram:identify")
        sec2 = secret if len(secret) <= 200 else "pw"
        for c in scram_tamper(rng, h, hs, base, algs, salt, rounds):
            vfy(base, c, "verify-tampered")
            vfy("another", c, "verify-tampered")
        for c in mutate(rng, hs, "$,=") + [rng.choice(FOREIGN)]:
            vfy(sec2, c, "verify-mutated")
            s_m.add_raw(f"vfyM scram identify {cps(c)}", safe_identify(h, c), "scram:identify-mutated")
        for alg in rng.sample(SIX + ["SCRAM-SHA-1", "sha1", "SHA-256", "sha256", "scram-sha-512-plus", "SHA_384", "foo", ""], 4):
            def info():
                salt_, r_, d_ = h.extract_digest_info(hs, alg)
                return f"{hx(salt_)} {r_} {hx(d_)}"
            try:
                a3 = "ok " + info()
            except Exception as e:  # noqa: BLE001
                a3 = "err " + errname(e)
            s_m.add_raw(f"vfyM scram info {cps(hs)} {cps(alg)}", a3, "scram:extract_digest_info")
        alg = rng.choice(SIX)
        try:
            a4 = "ok " + hx(h.derive_digest(secret, salt, rounds, alg))
        except Exception as e:  # noqa: BLE001
            a4 = "err " + errname(e)
        s_m.add_raw(f"vfyM scram derive {sec_arg(secret)} {cps(alg)} {hx(salt)} {rounds}", a4, "scram:derive_digest")
    for c in FOREIGN:
        vfy("pw", c, "verify-foreign")
        s_m.add_raw(f"vfyM scram identify {cps(c)}", safe_identify(h, c), "scram:identify-foreign")


# ------------------------------------------------------------------------------------------------ fixed records of Props/C01Misc.lean
REAL_FSHP = "{FSHP1|2|2}YWJpYlln5w9KZlF30tVFXa94Gyw4iHUPVnU1J+SSDdL/QQ=="
REAL_SCRYPT = "$scrypt$ln=1,r=1,p=1$YWI$ZGfst6dF2gC55C4amW5naWLSki7rCsqLaWVNvydepwI"
REAL_SCRYPT7 = "$7$//..../....ab$YR4vrSOFO1EiYvW4NuqNd7aoGumu8cwWdJKHzSWLb8."
REAL_SCRAM = "$scram$2$YWI$sha-1=z4BT88hOol4pDIMpScOp2qAnOBE,sha-256=xAkXXeqBnPJpY3DHQ3Dk1Mu.fHQm17FeR0d/CVU6I0M"


def fixed_cases(ctx, s_m):
    """the concrete hashes quoted in the Lean examples: made here by the real code (must equal the quoted text), then model vs real"""
    from passlib.utils.binary import ab64_encode

    fshp, scrypt, scram = handler("fshp"), handler("scrypt"), handler("scram")
    made = {
        REAL_FSHP: fshp.using(variant=1, salt=b"ab", rounds=2).hash("pw"),
        REAL_SCRYPT: scrypt.using(salt=b"ab", rounds=1, block_size=1, parallelism=1).hash("pw"),
        REAL_SCRYPT7: scrypt.using(ident="$7$", salt=b"ab", rounds=1, block_size=1, parallelism=1).hash("pw"),
        REAL_SCRAM: scram.using(algs="sha-1,sha-256", salt=b"ab", rounds=2).hash("pw"),
    }
    for quoted, real in made.items():
        # the text quoted in the Lean file is what the real code returns today (a False here is reported as a mismatch)
        s_m.add_raw("vfyM fshp identify " + cps("{FSHP" if quoted == real else "quoted-hash-differs-from-real:" + quoted), "ok True", "fixed:quoted-equals-real")
    s_m.add_raw(f"vfyM fshp hash t:112,119 6162 2 1", "ok " + cps(made[REAL_FSHP]), "fixed:hash")
    s_m.add_raw(f"vfyM scrypt hash t:112,119 s 6162 1 1 1", "ok " + cps(made[REAL_SCRYPT]), "fixed:hash")
    s_m.add_raw(f"vfyM scrypt hash t:112,119 7 6162 1 1 1", "ok " + cps(made[REAL_SCRYPT7]), "fixed:hash")
    s_m.add_raw(f"vfyM scram hash t:112,119 {cps('sha-1,sha-256')} 6162 2", "ok " + cps(made[REAL_SCRAM]), "fixed:hash")
    # `$7$` with a `$` in the salt: refused by hash (scrypt7_dollar_salt_refused; before the fix: commit the result did not verify)
    h7 = scrypt.using(ident="$7$", salt=b"a$b", rounds=1, block_size=1, parallelism=1)
    hs7, ans = safe_hash(h7, "pw")
    s_m.add_raw("vfyM scrypt hash t:112,119 7 612462 1 1 1", ans, "fixed:scrypt7-dollar-salt")
    if hs7 is not None:
        s_m.add_raw(f"vfyM scrypt verify t:112,119 {cps(hs7)}", safe_verify(scrypt, "pw", hs7), "fixed:scrypt7-dollar-salt")
    # scram: sha-1 digest of another password next to the right sha-256 digest
    other = ab64_encode(scram.derive_digest("another", b"ab", 2, "sha-1")).decode()
    t1 = "$scram$2$YWI$sha-1=" + other + ",sha-256=xAkXXeqBnPJpY3DHQ3Dk1Mu.fHQm17FeR0d/CVU6I0M"
    t2 = "$scram$2$YWI$sha-256=xAkXXeqBnPJpY3DHQ3Dk1Mu.fHQm17FeR0d/CVU6I0M,sha-1=" + other
    other256 = ab64_encode(scram.derive_digest("another", b"ab", 2, "sha-256")).decode()
    t3 = "$scram$2$YWI$sha-1=z4BT88hOol4pDIMpScOp2qAnOBE,sha-256=" + other256
    for c in (REAL_SCRAM, t1, t2, t3):
        for sec in ("pw", b"pw", "another", "px"):
            s_m.add_raw(f"vfyM scram verify {sec_arg(sec)} {cps(c)}", safe_verify(scram, sec, c), "fixed:scram-verify")
            s_m.add_raw(f"vfyM scram verifyfull {sec_arg(sec)} {cps(c)}", safe_verify(scram, sec, c, full=True), "fixed:scram-verify-full")


def model_suite(ctx, s_m, only=None):
    for name, fn in (("fshp", fshp_cases), ("scrypt", scrypt_cases), ("scram", scram_cases), ("fixed", fixed_cases)):
        if only is None or name in only:
            fn(ctx, s_m)


def correspond(ctx):
    from .common import merge

    s_m = Suite(ctx, "misc-hash-verify-model")
    model_suite(ctx, s_m)
    return merge(s_m)


if __name__ == "__main__":
    import argparse
    import json
    import time

    from tools.runner import Ctx

    ap = argparse.ArgumentParser()
    ap.add_argument("--thorough", action="store_true")
    ap.add_argument("--seed", type=int, default=0)
    ap.add_argument("--only", default=None)
    a = ap.parse_args()
    ctx = Ctx("C01misc", "thorough" if a.thorough else "quick", a.seed)
    s = Suite(ctx, "misc-hash-verify-model")
    t0 = time.time()
    model_suite(ctx, s, a.only.split(",") if a.only else None)
    t1 = time.time()
    r = s.result()
    print(json.dumps({"cases": r["cases"], "mismatches": len(r["mismatches"]), "unmodelled": r["unmodelled"],
                      "seconds_real_code": round(t1 - t0, 1), "seconds_total": round(time.time() - t0, 1)}))
    for k, v in r["distribution"].items():
        print(f"  {k}: {v}")
    for m in r["mismatches"][:15]:
        print("MISMATCH", json.dumps(m)[:900])
