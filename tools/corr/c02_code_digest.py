"""C02, code level, group Digest: the REAL `_calc_checksum` routines of passlib that compose external digests with encodings vs the
compiled statement-level model (`cdig` suite, lean/PasslibVerif/Model/Code/Digest.lean).

  passlib.handlers.digests      : hex_md4/md5/sha1/sha256/sha512 ._calc_checksum, htdigest.hash
  passlib.handlers.ldap_digests : ldap_md5 / ldap_sha1 ._calc_checksum, ldap_salted_* ._calc_checksum + .to_string
  passlib.handlers.mysql        : mysql41._calc_checksum
  passlib.handlers.postgres     : postgres_md5._calc_checksum
  passlib.handlers.oracle       : oracle11._calc_checksum
  passlib.handlers.mssql        : _raw_mssql, mssql2000 / mssql2005 ._calc_checksum + .to_string
  passlib.handlers.windows      : nthash / msdcc / msdcc2 .raw + ._calc_checksum
  passlib.handlers.pbkdf2       : pbkdf2_sha1/sha256/sha512, cta, dlitz (+ _get_config), atlassian, grub ._calc_checksum + to_string fields
  passlib.handlers.django       : django_salted_sha1 / md5, django_pbkdf2_sha256 / sha1 ._calc_checksum
  passlib.handlers.scram        : scram.derive_digest, scram._calc_checksum
  passlib.handlers.scrypt       : scrypt._calc_checksum (builtin backend) + the checksum field of to_string

Where the Python code goes through a text codec that is external to passlib (`bytes.decode("utf-8")`, `str.encode("utf-16-le")`,
`str.lower()/upper()` in windows.py / mssql.py; saslprep in scram.py) the model starts from the encoded bytes: the harness computes
them with the interpreter and gives them to the model, the real function gets the original argument.

Run alone:  cd <verif> && PASSLIB_REPO=/tmp/repo_clean /venv/bin/python -m tools.corr.c02_code_digest [--thorough] [--seed N]
"""
from __future__ import annotations

import warnings

from .common import Suite, hx
from .common import errname as _errname

LENS = list(range(0, 41)) + [63, 64, 65, 127, 128]
GROUPS = ("hex", "ldap", "db", "win", "pbkdf2", "django", "scram", "scrypt")


def errname(e):
    if isinstance(e, OverflowError):
        return "ValueError"
    return _errname(e)


def run(thunk) -> str:
    try:
        r = thunk()
    except Exception as e:  # noqa: BLE001
        return "err " + errname(e)
    if isinstance(r, str):
        return "ok " + hx(r.encode("latin-1"))
    return "ok " + hx(r)


def cps(s: str) -> str:
    return ",".join(str(ord(c)) for c in s) if s else "-"


def sec_arg(secret):
    return ("t:" + cps(secret)) if isinstance(secret, str) else ("b:" + hx(secret))


def opt_arg(x):
    return "none" if x is None else sec_arg(x)


def secrets(rng, thorough: bool):
    """bytes secrets: every length of LENS x several kinds of content, every byte value (NUL included: none of these routines
    refuses it), NUL at several positions"""
    out = []
    for n in LENS:
        out.append(bytes(rng.choice(b"abcdefgXYZ0189 !~_") for _ in range(n)))
        out.append(bytes(rng.randrange(0, 256) for _ in range(n)))
        out.append(bytes(rng.choice([0x80, 0x81, 0xFF, 0x41, 0xC1, 0x7F, 0xFE, 0x00]) for _ in range(n)))
        if thorough:
            for _ in range(3):
                out.append(bytes(rng.randrange(0, 256) for _ in range(n)))
    for v in range(0, 256):
        out.append(bytes([v]))
        out.append(b"abc" + bytes([v]) + b"d")
    for i in range(0, 20, 3):
        s = bytearray(b"ABCDEFGHIJKLMNOPQRST")
        s[i] = 0
        out.append(bytes(s))
    out.append(b"a" * 4096)
    out.append(b"a" * 4097)
    return out


def texts(rng):
    """str secrets (encoded as UTF-8 by the code): multi-byte characters, NUL, lone surrogates (cannot be encoded)"""
    alpha = "aZ9é€\U0001d11eß ÿĀ"
    out = ["", "a", "é", "€", "\U0001d11e", "pässword", "abcdefg€", "\x00", "ab\x00", "\ud800", "ab\udfffcd", "\x7f\x80", "Straße", "ǆ",
           "a" * 4096, "a" * 4097, "€" * 4096, "€" * 4097]
    for n in list(range(0, 20)) + [31, 32, 33, 64]:
        out.append("".join(rng.choice(alpha) for _ in range(n)))
    return out


def utf8_texts(rng, thorough):
    """secrets for the classes that work on text (`to_unicode(secret, "utf-8")`): str, and bytes that are valid UTF-8"""
    alpha = "aZ9zAé€\U0001d11eß ÿĀǆİı\x00"
    out = ["", "a", "password", "Passw0rd", "é", "€", "\U0001d11e", "pässword", "\x00", "straße", "ǆ", "İ", "ﬁ", "￿", "\U0010ffff"]
    for n in LENS:
        out.append("".join(rng.choice(alpha) for _ in range(n)))
        out.append("".join(chr(rng.randrange(0x20, 0x7F)) for _ in range(n)))
        if thorough:
            out.append("".join(chr(rng.choice([rng.randrange(0, 0xD800), rng.randrange(0xE000, 0x110000)])) for _ in range(n)))
    for v in list(range(0, 0x180)) + [0x7FF, 0x800, 0xD7FF, 0xE000, 0xFFFF, 0x10000, 0x10FFFF]:
        out.append("a" + chr(v))
    res = []
    for k, t in enumerate(out):
        res.append(t.encode("utf-8") if k % 3 == 2 else t)
    return res


def as_text(s):
    return s.decode("utf-8") if isinstance(s, bytes) else s


def model_suite(ctx, s_m, groups=GROUPS):
    warnings.simplefilter("ignore")
    rng = ctx.rng
    thorough = ctx.thorough
    add = lambda line, thunk, tag: s_m.add_raw(line, run(thunk), tag=tag)  # noqa: E731

    secs = secrets(rng, thorough)
    txt = texts(rng)
    both = secs + txt

    def with_attrs(h, f, **kw):
        for k_, v_ in kw.items():
            setattr(h, k_, v_)
        return f(h)

    # ------------------------------------------------------------------ digests.py
    if "hex" in groups:
        from passlib.handlers import digests as D

        for alg in ("md4", "md5", "sha1", "sha256", "sha512"):
            h = getattr(D, "hex_" + alg)(use_defaults=False)
            for s in both:
                add(f"cdig hex {alg} {sec_arg(s)}", lambda s=s, h=h: h._calc_checksum(s), "hex_" + alg)
        users = ["user", "", "ü€r", b"us\xffer", b"", "a:b", None, "\ud800", "u" * 300]
        realms = ["realm", "", "r€alm", b"\x80\x00", "x:y", None, "\udc00"]
        for k, s in enumerate(both):
            u = users[k % len(users)]
            r = realms[(k // 2) % len(realms)]
            add(f"cdig htdigest {sec_arg(s)} {opt_arg(u)} {opt_arg(r)}", lambda s=s, u=u, r=r: D.htdigest.hash(s, u, r), "htdigest")
        for u in users:
            for r in realms:
                for s in [b"pw", "p€", "\ud800", b"a" * 4097]:
                    add(f"cdig htdigest {sec_arg(s)} {opt_arg(u)} {opt_arg(r)}", lambda s=s, u=u, r=r: D.htdigest.hash(s, u, r), "htdigest-ctx")

    # ------------------------------------------------------------------ ldap_digests.py
    if "ldap" in groups:
        from passlib.handlers import ldap_digests as L

        for alg in ("md5", "sha1"):
            h = getattr(L, "ldap_" + alg)(use_defaults=False)
            for s in both:
                add(f"cdig ldap {alg} {sec_arg(s)}", lambda s=s, h=h: h._calc_checksum(s), "ldap_" + alg)
        salts = [b"", b"\x00", b"1234", b"\xff\xfe\xfd\xfc", b"\x00\x00\x00\x00", b"12345", b"0123456789abcdef", b"0123456789abcdefg", b"=+/ "]
        salts += [bytes(rng.randrange(256) for _ in range(n)) for n in (4, 5, 6, 7, 8, 12, 16)]
        for alg in ("md5", "sha1", "sha256", "sha512"):
            cls = getattr(L, "ldap_salted_" + alg)
            h = cls(salt=b"1234")
            for k, s in enumerate(both):
                for salt in ([salts[k % len(salts)]] if not thorough else salts[:: 3] + [salts[k % len(salts)]]):
                    add(f"cdig ldapsalted {alg} {sec_arg(s)} {hx(salt)}", lambda s=s, salt=salt, h=h: with_attrs(h, lambda h: h._calc_checksum(s), salt=salt), "ldap_salted_" + alg)

                    def whole(s=s, salt=salt, h=h, cls=cls):
                        h.salt = salt
                        h.checksum = None
                        chk = h._calc_checksum(s)
                        h.checksum = chk
                        out = h.to_string()
                        assert out.startswith(cls.ident)
                        return out[len(cls.ident):]

                    add(f"cdig ldapsaltedstr {alg} {sec_arg(s)} {hx(salt)}", whole, "ldap_salted_" + alg + "-str")
            for salt in salts:
                for s in [b"", b"password", "p€", "\ud800"]:
                    add(f"cdig ldapsalted {alg} {sec_arg(s)} {hx(salt)}", lambda s=s, salt=salt, h=h: with_attrs(h, lambda h: h._calc_checksum(s), salt=salt), "ldap_salted-salt")

    # ------------------------------------------------------------------ mysql / postgres / oracle11 / mssql
    if "db" in groups:
        from passlib.handlers import mssql as MS
        from passlib.handlers.mysql import mysql41
        from passlib.handlers.oracle import oracle11
        from passlib.handlers.postgres import postgres_md5

        h = mysql41(use_defaults=False)
        for s in both:
            add(f"cdig mysql41 {sec_arg(s)}", lambda s=s: h._calc_checksum(s), "mysql41")
        users = ["postgres", "", "ü€r", b"us\xffer", b"", None, "\ud800", "u" * 70, b"\x00"]
        hp = postgres_md5(user="x", use_defaults=False)
        for k, s in enumerate(both):
            for u in ([users[k % len(users)]] if not thorough else users):
                add(f"cdig postgres {sec_arg(s)} {opt_arg(u)}", lambda s=s, u=u: with_attrs(hp, lambda h: h._calc_checksum(s), user=u), "postgres_md5")
        for u in users:
            for s in [b"", b"pw", "p€", "\ud800"]:
                add(f"cdig postgres {sec_arg(s)} {opt_arg(u)}", lambda s=s, u=u: with_attrs(hp, lambda h: h._calc_checksum(s), user=u), "postgres_md5-user")
        osalts = ["0123456789ABCDEF0123", "AABBCCDDEEFF00112233", "aabbccddeeff00112233", "", "AB", "ABC", "GG", "0x", "A" * 19, "A" * 21, "ÿÿ", "AA€",
                  " AB", "AB\n", "00" * 10, "FF" * 10]
        osalts += ["".join(rng.choice("0123456789ABCDEF") for _ in range(20)) for _ in range(6)]
        ho = oracle11(salt="0" * 20, use_defaults=False)
        for k, s in enumerate(both):
            for salt in ([osalts[k % len(osalts)]] if not thorough else osalts[::4] + [osalts[k % len(osalts)]]):
                add(f"cdig oracle11 {sec_arg(s)} {cps(salt)}", lambda s=s, salt=salt: with_attrs(ho, lambda h: h._calc_checksum(s), salt=salt), "oracle11")
        for salt in osalts:
            for s in [b"", b"pw", "p€", "\ud800"]:
                add(f"cdig oracle11 {sec_arg(s)} {cps(salt)}", lambda s=s, salt=salt: with_attrs(ho, lambda h: h._calc_checksum(s), salt=salt), "oracle11-salt")

        msalts = [b"", b"\x00\x00\x00\x00", b"1234", b"\xff\xfe\xfd\xfc", b"12345", b"\x80"] + [bytes(rng.randrange(256) for _ in range(4)) for _ in range(6)]
        h0 = MS.mssql2000(salt=b"1234", use_defaults=False)
        h5 = MS.mssql2005(salt=b"1234", use_defaults=False)
        for k, s in enumerate(utf8_texts(rng, thorough)):
            t = as_text(s)
            try:
                enc = t.encode("utf-16-le")
                encu = t.upper().encode("utf-16-le")
            except UnicodeError:
                continue
            salt = msalts[k % len(msalts)]
            add(f"cdig rawmssql {hx(enc)} {hx(salt)}", lambda t=t, salt=salt: MS._raw_mssql(t, salt), "_raw_mssql")
            add(f"cdig mssql2000 {hx(enc)} {hx(encu)} {hx(salt)}", lambda s=s, salt=salt: with_attrs(h0, lambda h: h._calc_checksum(s), salt=salt), "mssql2000")
            add(f"cdig mssql2005 {hx(enc)} {hx(salt)}", lambda s=s, salt=salt: with_attrs(h5, lambda h: h._calc_checksum(s), salt=salt), "mssql2005")
        for k in range(60 if not thorough else 400):
            salt = bytes(rng.randrange(256) for _ in range(rng.choice([0, 1, 4, 4, 4, 7])))
            c0 = bytes(rng.randrange(256) for _ in range(rng.choice([0, 40, 40, 3])))
            c5 = bytes(rng.randrange(256) for _ in range(rng.choice([0, 20, 20, 3])))
            add(f"cdig mssql2000str {hx(salt)} {hx(c0)}", lambda salt=salt, c0=c0: with_attrs(h0, lambda h: h.to_string(), salt=salt, checksum=c0), "mssql2000.to_string")
            add(f"cdig mssql2005str {hx(salt)} {hx(c5)}", lambda salt=salt, c5=c5: with_attrs(h5, lambda h: h.to_string(), salt=salt, checksum=c5), "mssql2005.to_string")
        for v in range(256):
            add(f"cdig mssql2000str {hx(bytes([v]))} {hx(bytes([255 - v]))}", lambda v=v: with_attrs(h0, lambda h: h.to_string(), salt=bytes([v]), checksum=bytes([255 - v])), "mssql2000.to_string")
            add(f"cdig mssql2005str {hx(bytes([v]))} {hx(bytes([255 - v]))}", lambda v=v: with_attrs(h5, lambda h: h.to_string(), salt=bytes([v]), checksum=bytes([255 - v])), "mssql2005.to_string")

    # ------------------------------------------------------------------ windows.py
    if "win" in groups:
        from passlib.handlers import windows as W

        hn = W.nthash(use_defaults=False)
        users = ["Administrator", "user", "", "ÜSER", "İ", "ǅ", "u\U0001d11e", "x" * 30, b"Bytes", "A\x00b", "ΑΣ"]
        hm = W.msdcc(user="x", use_defaults=False)
        hm2 = W.msdcc2(user="x", use_defaults=False)
        k2 = 0
        for k, s in enumerate(utf8_texts(rng, thorough)):
            t = as_text(s)
            try:
                enc = t.encode("utf-16-le")
            except UnicodeError:
                continue
            add(f"cdig ntraw {hx(enc)}", lambda s=s: W.nthash.raw(s), "nthash.raw")
            add(f"cdig ntcalc {hx(enc)}", lambda s=s: hn._calc_checksum(s), "nthash")
            u = users[k % len(users)]
            uenc = as_text(u).lower().encode("utf-16-le")
            add(f"cdig msdccraw {hx(enc)} {hx(uenc)}", lambda s=s, u=u: W.msdcc.raw(s, u), "msdcc.raw")
            add(f"cdig msdcccalc {hx(enc)} {hx(uenc)}", lambda s=s, u=u: with_attrs(hm, lambda h: h._calc_checksum(s), user=u), "msdcc")
            if thorough or k % 9 == 0:
                k2 += 1
                add(f"cdig msdcc2raw {hx(enc)} {hx(uenc)} 10240", lambda s=s, u=u: W.msdcc2.raw(s, u), "msdcc2.raw")
                add(f"cdig msdcc2calc {hx(enc)} {hx(uenc)} 10240", lambda s=s, u=u: with_attrs(hm2, lambda h: h._calc_checksum(s), user=u), "msdcc2")

    # ------------------------------------------------------------------ pbkdf2.py
    if "pbkdf2" in groups:
        import base64
        from binascii import hexlify

        from passlib.handlers import pbkdf2 as P
        from passlib.utils.binary import ab64_encode

        rounds_list = [1, 2, 3, 5, 1, 2, 17, 1, 400, 0]
        bsalts = [b"", b"\x00", b"salt", b"\xff" * 16, b"0123456789abcdef", b"x" * 64, b"y" * 65, b"z" * 129] + [bytes(rng.randrange(256) for _ in range(n)) for n in (1, 8, 16, 16, 32)]
        psecs = [s for i, s in enumerate(secs) if thorough or i % 2 == 0 or len(s) in (63, 64, 65, 127, 128, 129)] + txt
        for alg in ("sha1", "sha256", "sha512"):
            h = getattr(P, "pbkdf2_" + alg)(salt=b"salt", rounds=1, use_defaults=False)
            for k, s in enumerate(psecs):
                salt = bsalts[k % len(bsalts)]
                r = rounds_list[k % len(rounds_list)]
                add(f"cdig pbkdf2 {alg} {sec_arg(s)} {hx(salt)} {r}", lambda s=s, salt=salt, r=r, h=h: with_attrs(h, lambda h: h._calc_checksum(s), salt=salt, rounds=r), "pbkdf2_" + alg)
        hc = P.cta_pbkdf2_sha1(salt=b"salt", rounds=1, use_defaults=False)
        hg = P.grub_pbkdf2_sha512(salt=b"salt", rounds=1, use_defaults=False)
        ha = P.atlassian_pbkdf2_sha1(salt=b"0123456789abcdef", use_defaults=False)
        hd = P.dlitz_pbkdf2_sha1(salt="salt", rounds=1, use_defaults=False)
        dsalts = ["", "salt", ".pPqsEwHD7MiECU0", "XXXXXXXX", "a" * 64, "./", "sält", "a$b", "€", "\ud800"]
        drounds = [1, 2, 400, 3, 10, 15, 16, 17, 255, 256, 401, 399, 0, 4095, 4096]
        for k, s in enumerate(psecs):
            salt = bsalts[k % len(bsalts)]
            r = rounds_list[k % len(rounds_list)]
            add(f"cdig cta {sec_arg(s)} {hx(salt)} {r}", lambda s=s, salt=salt, r=r: with_attrs(hc, lambda h: h._calc_checksum(s), salt=salt, rounds=r), "cta_pbkdf2_sha1")
            add(f"cdig grub {sec_arg(s)} {hx(salt)} {r}", lambda s=s, salt=salt, r=r: with_attrs(hg, lambda h: h._calc_checksum(s), salt=salt, rounds=r), "grub_pbkdf2_sha512")
            ds = dsalts[k % len(dsalts)]
            dr = drounds[k % len(drounds)] if len(s) < 50 else drounds[k % 5]
            add(f"cdig dlitz {sec_arg(s)} {cps(ds)} {dr}", lambda s=s, ds=ds, dr=dr: with_attrs(hd, lambda h: h._calc_checksum(s), salt=ds, rounds=dr), "dlitz_pbkdf2_sha1")
        for ds in dsalts:
            if any(ord(c) > 255 for c in ds):
                continue  # the line protocol shows text results as latin-1
            for dr in drounds + [65535, 65536, 0xFFFFFFFF, 10**12]:
                add(f"cdig dlitzconfig {cps(ds)} {dr}", lambda ds=ds, dr=dr: with_attrs(hd, lambda h: h._get_config(), salt=ds, rounds=dr), "dlitz._get_config")
        # atlassian: the real code has the literal 10000
        for k, s in enumerate(psecs):
            if thorough or k % 8 == 0:
                salt = bsalts[k % len(bsalts)]
                add(f"cdig atlassian {sec_arg(s)} {hx(salt)} 10000", lambda s=s, salt=salt: with_attrs(ha, lambda h: h._calc_checksum(s), salt=salt), "atlassian_pbkdf2_sha1")
        # the checksum fields of to_string
        for n in list(range(0, 70)) + [127, 128, 129]:
            for rep in range(2 if not thorough else 6):
                c = bytes(rng.randrange(256) for _ in range(n)) if rep else bytes(rng.choice([0xFB, 0xFF, 0xFE, 0x3E, 0x3F]) for _ in range(n))
                sa = bytes(rng.randrange(256) for _ in range(rng.choice([0, 1, 16, 16, 5])))
                add(f"cdig ab64field {hx(c)}", lambda c=c: ab64_encode(c).decode("ascii"), "to_string:ab64_encode")
                add(f"cdig ctafield {hx(c)}", lambda c=c: base64.b64encode(c, P.CTA_ALTCHARS).decode("ascii"), "to_string:b64encode(alt)")
                add(f"cdig grubfield {hx(c)}", lambda c=c: hexlify(c).decode("ascii").upper(), "to_string:hexlify.upper")
                add(f"cdig atlassianfield {hx(sa)} {hx(c)}", lambda c=c, sa=sa: with_attrs(ha, lambda h: h.to_string()[len(P.atlassian_pbkdf2_sha1.ident):], salt=sa, checksum=c), "atlassian.to_string")

    # ------------------------------------------------------------------ django.py
    if "django" in groups:
        from passlib.handlers import django as DJ

        jsalts = ["", "salt", "aB3", "a" * 12, "x" * 70, "sält", "€", "a$b", "\x00", "\x7f", "\ud800"]
        for alg, cls in (("sha1", DJ.django_salted_sha1), ("md5", DJ.django_salted_md5)):
            h = cls(salt="salt", use_defaults=False)
            for k, s in enumerate(both):
                for salt in ([jsalts[k % len(jsalts)]] if not thorough else jsalts):
                    add(f"cdig djsalted {alg} {sec_arg(s)} {cps(salt)}", lambda s=s, salt=salt, h=h: with_attrs(h, lambda h: h._calc_checksum(s), salt=salt), "django_salted_" + alg)
        rounds_list = [1, 2, 3, 5, 1, 2, 17, 0]
        psecs = [s for i, s in enumerate(secs) if thorough or i % 2 == 0] + txt
        for alg, cls in (("sha256", DJ.django_pbkdf2_sha256), ("sha1", DJ.django_pbkdf2_sha1)):
            h = cls(salt="salt", rounds=1, use_defaults=False)
            for k, s in enumerate(psecs):
                salt = jsalts[k % len(jsalts)]
                r = rounds_list[k % len(rounds_list)]
                add(f"cdig djpbkdf2 {alg} {sec_arg(s)} {cps(salt)} {r}", lambda s=s, salt=salt, r=r, h=h: with_attrs(h, lambda h: h._calc_checksum(s), salt=salt, rounds=r), "django_pbkdf2_" + alg)

    # ------------------------------------------------------------------ scram.py
    if "scram" in groups:
        from passlib.handlers.scram import scram
        from passlib.utils import saslprep

        algs_all = ["sha-1", "sha-256", "sha-512", "md5", "sha-224", "sha-384"]
        ssalts = [b"", b"salt", b"\x00" * 4, b"\xff" * 12, b"x" * 64] + [bytes(rng.randrange(256) for _ in range(12)) for _ in range(4)]
        pw = ["", "a", "password", "pässword", "ª", "I­X", "Ⅸ", "a b", "\u0007", "ا1", "€" * 30, "\ud800", "x" * 70, "ﬁ", "Å"]
        pw += ["".join(rng.choice("aZ9é€ßÿ !~") for _ in range(n)) for n in LENS]
        pw2 = []
        for k, p in enumerate(pw):
            pw2.append(p)
            try:
                if k % 3 == 1:
                    pw2.append(p.encode("utf-8"))
            except UnicodeError:
                pass
        pw2 += [b"\xff\xfe", b"a\x80"]
        h = scram(salt=b"salt", rounds=1, algs="sha-1,sha-256", use_defaults=False)
        for k, p in enumerate(pw2):
            try:
                prepared = saslprep(p.decode("utf-8") if isinstance(p, bytes) else p).encode("utf-8")
                parg = hx(prepared)
            except UnicodeDecodeError:
                continue  # bytes.decode("utf-8") of the caller's bytes: external codec, before saslprep
            except (ValueError, UnicodeError):
                parg = "!"
            salt = ssalts[k % len(ssalts)]
            r = [1, 2, 3, 7, 0][k % 5]
            for alg in ([algs_all[k % len(algs_all)], "sha-1"] if not thorough else algs_all):
                add(f"cdig scramderive {alg} {parg} {hx(salt)} {r}", lambda p=p, salt=salt, r=r, alg=alg: scram.derive_digest(p, salt, r, alg), "scram.derive_digest")
            algs = [algs_all[(k + j) % len(algs_all)] for j in range(1 + k % 4)]
            if "sha-1" not in algs:
                algs.append("sha-1")
            algs = sorted(set(algs))

            def calc(p=p, salt=salt, r=r, algs=algs):
                h.salt, h.rounds, h.algs = salt, r, algs
                d = h._calc_checksum(p)
                assert list(d.keys()) == algs
                return ",".join(hx(d[a]) for a in algs).encode()

            try:
                res = "ok " + calc().decode()
            except Exception as e:  # noqa: BLE001
                res = "err " + errname(e)
            s_m.add_raw(f"cdig scram {','.join(algs)} {parg} {hx(salt)} {r}", res, tag="scram._calc_checksum")

    # ------------------------------------------------------------------ scrypt.py
    if "scrypt" in groups:
        from passlib.handlers.scrypt import scrypt as SC
        from passlib.utils.binary import b64s_encode, h64

        SC.set_backend("builtin")
        h = SC(salt=b"salt", rounds=1, block_size=1, parallelism=1, ident="$scrypt$", use_defaults=False)
        params = [(1, 1, 1), (2, 1, 1), (3, 1, 1), (1, 2, 1), (1, 1, 2), (2, 2, 2), (4, 1, 1), (1, 3, 1), (1, 1, 3), (2, 8, 1)]
        bad = [(0, 1, 1), (1, 0, 1), (1, 1, 0), (1, 2 ** 15, 2 ** 15)]
        ssalts = [b"", b"salt", b"\x00" * 4, b"\xff" * 16, b"x" * 64, b"NaCl"] + [bytes(rng.randrange(256) for _ in range(16)) for _ in range(3)]
        ssecs = [s for i, s in enumerate(secs) if len(s) <= 128 and (thorough or i % 6 == 0)] + txt[:14] + txt[18:]
        for k, s in enumerate(ssecs):
            salt = ssalts[k % len(ssalts)]
            n, r, p = params[k % len(params)] if len(s) <= 130 else (1, 1, 1)
            add(f"cdig scrypt {sec_arg(s)} {hx(salt)} {n} {r} {p}", lambda s=s, salt=salt, n=n, r=r, p=p: with_attrs(h, lambda h: h._calc_checksum(s), salt=salt, rounds=n, block_size=r, parallelism=p), "scrypt")
        for (n, r, p) in bad:
            for s in [b"pw", "p€", "\ud800"]:
                add(f"cdig scrypt {sec_arg(s)} {hx(b'salt')} {n} {r} {p}", lambda s=s, n=n, r=r, p=p: with_attrs(h, lambda h: h._calc_checksum(s), salt=b"salt", rounds=n, block_size=r, parallelism=p), "scrypt-params")
        for n in list(range(0, 40)) + [64, 65]:
            c = bytes(rng.randrange(256) for _ in range(n))
            add(f"cdig scryptphcfield {hx(c)}", lambda c=c: b64s_encode(c).decode("ascii"), "to_string:b64s_encode")
            add(f"cdig scrypt7field {hx(c)}", lambda c=c: h64.encode_bytes(c).decode("ascii"), "to_string:h64.encode_bytes")
    return s_m


def correspond(ctx, groups=GROUPS) -> dict:
    s_m = Suite(ctx, "c02-code-digest-model")
    model_suite(ctx, s_m, groups)
    return s_m.result()


if __name__ == "__main__":
    import argparse
    import json
    import os
    import sys
    import time

    here = os.path.dirname(os.path.dirname(os.path.abspath(__file__)))
    sys.path.insert(0, here)
    sys.path.insert(0, os.environ.get("PASSLIB_REPO", "/repo"))
    from runner import Ctx

    ap = argparse.ArgumentParser()
    ap.add_argument("--thorough", action="store_true")
    ap.add_argument("--seed", type=int, default=1)
    ap.add_argument("--groups", default=",".join(GROUPS))
    a = ap.parse_args()
    ctx = Ctx("C02", "thorough" if a.thorough else "quick", a.seed)
    t0 = time.time()
    res = correspond(ctx, tuple(a.groups.split(",")))
    print(json.dumps({"cases": res["cases"], "mismatches": len(res["mismatches"]), "unmodelled": res["unmodelled"], "seconds": round(time.time() - t0, 1)}))
    for k, v in res["distribution"].items():
        print(f"  {k}: {v}")
    for m in res["mismatches"][:25]:
        print("MISMATCH", json.dumps(m)[:600])
    sys.exit(1 if res["mismatches"] else 0)
