"""C01 end to end for the PBKDF family: the compiled hash / verify / identify model (driver suite `vfyP`) vs the real hashers.

  sha1_crypt, pbkdf2_sha1/_sha256/_sha512, ldap_pbkdf2_sha1/_sha256/_sha512, cta_pbkdf2_sha1, dlitz_pbkdf2_sha1, atlassian_pbkdf2_sha1,
  grub_pbkdf2_sha512, django_pbkdf2_sha1/_sha256, django_salted_md5/_sha1

Run alone:   cd <verif> && /venv/bin/python -m tools.corr.c01_pbkdf [--thorough] [--seed N]
"""
from __future__ import annotations

import warnings

from . import verify_common as vc
from .common import Suite, hx
from .common import errname as _errname
from .formats_common import cps

H64 = "./0123456789ABCDEFGHIJKLMNOPQRSTUVWXYZabcdefghijklmnopqrstuvwxyz"
DJ = "abcdefghijklmnopqrstuvwxyzABCDEFGHIJKLMNOPQRSTUVWXYZ0123456789"

#: name -> (salt kind, salt sizes, rounds choices or None, repetitions weight)
FORMATS = {
    "pbkdf2_sha256": ("raw", [0, 1, 2, 3, 15, 16, 17, 64, 1024], [1, 2, 3, 5, 17, 50], 1.0),
    "pbkdf2_sha512": ("raw", [0, 1, 2, 3, 15, 16, 17, 64, 1024], [1, 2, 3, 5, 17, 50], 1.0),
    "pbkdf2_sha1": ("raw", [0, 1, 2, 3, 15, 16, 17, 64, 1024], [1, 2, 3, 5, 17, 50], 1.0),
    "sha1_crypt": ("h64", [0, 1, 7, 8, 9, 63, 64], [1, 2, 3, 9, 10, 11, 50], 1.0),
    "django_pbkdf2_sha256": ("dj", [1, 2, 12, 13, 40], [1, 2, 3, 9, 10, 50], 0.7),
    "django_pbkdf2_sha1": ("dj", [1, 2, 12, 13, 40], [1, 2, 3, 9, 10, 50], 0.7),
    "django_salted_md5": ("dj", [0, 1, 12, 13, 40], None, 0.7),
    "django_salted_sha1": ("dj", [0, 1, 12, 13, 40], None, 0.7),
    "ldap_pbkdf2_sha1": ("raw", [0, 1, 16, 17, 1024], [1, 2, 5, 50], 0.5),
    "ldap_pbkdf2_sha256": ("raw", [0, 1, 16, 17, 1024], [1, 2, 5, 50], 0.5),
    "ldap_pbkdf2_sha512": ("raw", [0, 1, 16, 17, 1024], [1, 2, 5, 50], 0.5),
    "cta_pbkdf2_sha1": ("raw", [0, 1, 2, 3, 16, 17, 1024], [1, 2, 9, 10, 15, 16, 17, 50], 0.7),
    "dlitz_pbkdf2_sha1": ("h64", [0, 1, 15, 16, 17, 1024], [1, 2, 9, 10, 15, 16, 17, 50, 400], 0.7),
    "grub_pbkdf2_sha512": ("raw", [0, 1, 2, 63, 64, 65, 1024], [1, 2, 3, 9, 10, 50], 0.7),
    "atlassian_pbkdf2_sha1": ("raw", [16], None, 0.05),        # fixed 10000 rounds: a few cases only
}
NAMES = list(FORMATS)

FOREIGN = [
    "$pbkdf2-sha256$5$MDEyMzQ1Njc4OWFiY2RlZg$yGlt2Up7axJ9TB/POZje1JSSfQSpKa24FVw.oheNSuQ",
    "$pbkdf2$5$MDEyMzQ1Njc4OWFiY2RlZg$RQUiL8fLUuoFx1cm7juMWC2gA4k",
    "$1$abcdefgh$G//4keteveJp0qb8z2DxG/",
    "$sha1$5$8QBd3jkw$HVEEkVWSi6MpWguF/wrPKzvb/lOL",
    "{PBKDF2}3$MDEyMzQ1Njc4OWFiY2RlZg$YMFFAcPTHhlehBU0CD8tYp7Wthw",
    "$p5k2$$mEOgYElUHFo6vg$bCXmclOepOxTecFeXBjXT/huoA0ONRJx",
    "$p5k2$1f4$MDEyMzQ1Njc4OWFiY2Rl_w==$J4hsR97h5Vhq_2-3AHm_upXBMkU=",
    "sha1$7D7FJw2WlwiN$65c720c7a9224db1c45837a9fab1c1c934d41d5a",
    "pbkdf2_sha256$5$A86S0gQzxlcQ$I8NIKI+o5BdAlcBQvlUbA6LBjK8bUxJLngltqx494AY=",
]


def errname(e):
    return _errname(e)


def sec_arg(secret):
    return ("t:" + cps(secret)) if isinstance(secret, str) else ("b:" + hx(secret))


def gen_salt(rng, kind, size):
    if kind == "raw":
        return bytes(rng.choice([0, 1, 0x24, 0x2E, 0x3D, 0x7F, 0x80, 0xFB, 0xFF, rng.randrange(256)]) for _ in range(size))
    alphabet = H64 if kind == "h64" else DJ
    return "".join(rng.choice(alphabet) for _ in range(size))


def gen_form(rng, ctx, name):
    """a secret as the caller passes it: bytes or text; NUL, unencodable text, boundary / oversize lengths"""
    r = rng.random()
    if r < 0.05:
        # the size check precedes everything; 4095 / 4096 are admissible
        n = rng.choice([4097, 5000, 4095, 4096])
        secret = vc.gen_secret(rng, n, "ascii")
        return secret.decode() if rng.random() < 0.5 else secret
    if r < 0.08:
        # text of 4096 characters whose UTF-8 is longer than the limit: admissible (the limit counts characters)
        return "".join(rng.choice("aé€") for _ in range(rng.choice([4096, 4097])))
    secret = vc.gen_secret(rng)
    if rng.random() < 0.15:
        i = rng.randrange(len(secret) + 1)
        secret = secret[:i] + b"\x00" + secret[i:]
    form = secret
    if rng.random() < 0.45:
        try:
            form = secret.decode("utf-8")
        except UnicodeDecodeError:
            pass
    if isinstance(form, str) and rng.random() < 0.06:
        i = rng.randrange(len(form) + 1)
        form = form[:i] + rng.choice(["\ud800", "\udfff", "\udc80"]) + form[i:]       # a lone surrogate cannot be encoded
    return form


def other_form(form):
    if isinstance(form, str):
        try:
            return form.encode("utf-8")
        except UnicodeEncodeError:
            return None
    try:
        return form.decode("utf-8")
    except UnicodeDecodeError:
        return None


def mutations(rng, hs, name):
    sep = "." if name.startswith("grub") else "$"
    out = [hs]
    if hs:
        last = hs[-1]
        out.append(hs[:-1] + ("A" if last != "A" else "B"))                      # last checksum character (base64: may only touch padding bits)
        i = len(hs) - 1 - rng.randrange(min(12, len(hs)))
        c = hs[i]
        out.append(hs[:i] + ("0" if c != "0" else "1") + hs[i + 1:])              # a checksum character
        out.append(hs[:i] + hs[i + 1:])                                           # one character short
    out.append(hs.rsplit(sep, 1)[0])                                              # config string: no checksum
    out.append(hs.rsplit(sep, 1)[0] + sep)
    out.append(hs + "\n")
    out.append(hs + "=")
    out.append(hs[: len(hs) // 2])
    out.append("")
    out.append(hs.replace(sep, sep + sep, 1))
    out.append(hs.upper() if rng.random() < 0.5 else hs.lower())
    out.append(hs[1:])
    out.append(hs[:-1] + "é")
    out.append(rng.choice(FOREIGN))
    return out


def model_suite(ctx, s_m, names=None, scale=1.0):
    warnings.simplefilter("ignore")
    rng = ctx.rng
    base = (80 if not ctx.thorough else 800) * scale
    for name in names or NAMES:
        kind, sizes, rounds_c, weight = FORMATS[name]
        h = vc.handler(name)
        n = max(1, round(base * weight))
        for k in range(n):
            form = gen_form(rng, ctx, name)
            salt = gen_salt(rng, kind, sizes[k] if k < len(sizes) else rng.choice(sizes))
            rounds = (rounds_c[k % len(rounds_c)] if k < 2 * len(rounds_c) else rng.choice(rounds_c)) if rounds_c else 0
            if name == "atlassian_pbkdf2_sha1" and len(form) > 300:
                form = form[:300]
            kw = dict(salt=salt)
            if rounds_c:
                kw["rounds"] = rounds
            hh = h.using(**kw)
            try:
                hs = hh.hash(form)
                ans = "ok " + cps(hs)
            except Exception as e:  # noqa: BLE001
                hs = None
                ans = "err " + errname(e)
            s_m.add_raw(f"vfyP {name} hash {sec_arg(form)} {cps(salt)} {rounds}", ans, name + ":hash")
            if hs is None:
                hs = hh.hash("pw")
            cands = mutations(rng, hs, name)
            if name == "atlassian_pbkdf2_sha1":
                cands = cands[:2] + rng.sample(cands[2:], 2)
            alt = other_form(form)
            near = form + ("x" if isinstance(form, str) else b"x")
            for ci, c in enumerate(cands):
                try:
                    a3 = "ok " + ("True" if h.identify(c) else "False")
                except Exception as e:  # noqa: BLE001
                    a3 = "err " + errname(e)
                s_m.add_raw(f"vfyP {name} identify {cps(c)}", a3, name + ":identify")
                secs = [form]
                if ci < 3:
                    secs += [near] + ([alt] if alt is not None else [])
                for sec in secs:
                    try:
                        a2 = "ok " + ("True" if h.verify(sec, c) else "False")
                    except Exception as e:  # noqa: BLE001
                        a2 = "err " + errname(e)
                    s_m.add_raw(f"vfyP {name} verify {sec_arg(sec)} {cps(c)}", a2, name + ":verify")


def canon(o):
    # NullPasswordError is a ValueError; sha1_crypt's os_crypt back end refuses NUL with a plain ValueError of its own
    return "err ValueError" if o == "err NullPasswordError" else o


def correspond(ctx):
    from .common import merge

    s_m = Suite(ctx, "pbkdf-family-hash-verify-model", model_canon=canon)
    model_suite(ctx, s_m)
    return merge(s_m)


if __name__ == "__main__":
    import argparse
    import json
    import os
    import sys
    import time

    here = os.path.dirname(os.path.dirname(os.path.abspath(__file__)))
    sys.path.insert(0, here)
    sys.path.insert(0, os.environ.get("PASSLIB_REPO", "/repo"))
    from tools.runner import Ctx

    ap = argparse.ArgumentParser()
    ap.add_argument("--thorough", action="store_true")
    ap.add_argument("--seed", type=int, default=0)
    ap.add_argument("--only", default="")
    a = ap.parse_args()
    ctx = Ctx("C01pbkdf", "thorough" if a.thorough else "quick", a.seed)
    t0 = time.time()
    s = Suite(ctx, "pbkdf-family-hash-verify-model", model_canon=canon)
    model_suite(ctx, s, names=[x for x in a.only.split(",") if x] or None)
    t1 = time.time()
    res = s.result()
    print(json.dumps({"cases": res["cases"], "mismatches": len(res["mismatches"]), "unmodelled": res["unmodelled"],
                      "real_seconds": round(t1 - t0, 1), "model_seconds": round(time.time() - t1, 1)}))
    for k, v in res["distribution"].items():
        print(f"  {k}: {v}")
    for m in res["mismatches"][:10]:
        print("MISMATCH", json.dumps(m)[:1500])
    sys.exit(1 if res["mismatches"] else 0)
