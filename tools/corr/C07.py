"""C07 — hash strings parse and re-render without loss."""
from __future__ import annotations

import warnings

from . import formats_common as fc
from .common import Oracle, Suite, errname, merge

GEN_UNITS = ["B64", "Handlers", "PyUnicode", "PyCase", "StaticFmt", "MiscTables", "FormatParsers", "LibpassAll"]
LEAN_TARGETS = ["PasslibVerif.Props.C07", "PasslibVerif.Props.C07Static", "PasslibVerif.Props.C07DesBcrypt", "PasslibVerif.Props.C07Pbkdf", "PasslibVerif.Props.C07Misc"]
ASSUMPTIONS = [
    "formats without a Lean model yet are explored by the real-code round-trip oracle only (listed under only_correspondence_checked)",
]
EXPLANATION = (
    "Per format with a Lean model: parse(render x) = x for well-formed settings, render(parse s) is a fixed point, parsed settings are the "
    "ones used. Correspondence: from_string/to_string of the real hashers vs the compiled format models on generated hashes over the settings "
    "space (elided defaults, config-only forms, every ident) and on mutated strings. Oracle on ALL registered hashers: from_string(h).to_string() "
    "is stable, verifies the same password, and reports the settings that were used."
)


def correspond(ctx):
    warnings.simplefilter("ignore")
    from passlib import registry

    rng = ctx.rng
    s_fmt = Suite(ctx, "format-models")
    o_rt = Oracle(ctx, "all-hashers-roundtrip")
    for name in fc.MODELLED:
        h = fc.handler(name)
        if name in fc._misc.ADAPTERS:
            hashes = fc.gen_model_hashes(name, rng, 8 if not ctx.thorough else 60)
        else:
            hashes = fc.gen_hashes(name, rng, (3 if name in fc.EXPENSIVE else 8) if not ctx.thorough else 60, vary_secret=True)
        for hs in hashes:
            for v in fc.variants(h, name, hs, rng):
                s_fmt.add(f"fmt parse {name} {fc.cps(v)}", lambda v=v: fc.parse_dump(name, v), name + ":parse")
                s_fmt.add(f"fmt reparse {name} {fc.cps(v)}", lambda v=v: fc.reparse(name, v), name + ":render")
            muts = fc.mutants(hs, rng, 25 if not ctx.thorough else 200) + fc.extra_mutants(name, hs, rng, 12 if not ctx.thorough else 60) + fc.parse_only(name, hs)
            for m in muts:
                s_fmt.add(f"fmt parse {name} {fc.cps(m)}", lambda m=m: fc.parse_dump(name, m), name + ":parse-mutant")
            if name in fc.IDENTIFY_CHECKED:
                for m in fc.variants(h, name, hs, rng) + muts:
                    s_fmt.add(f"fmt identify {name} {fc.cps(m)}", lambda m=m: fc.identify(name, m), name + ":identify")
        # hand-picked edge cases of the Misc family adapters (parse, re-render, identify)
        for x in fc.extra_cases(name, rng):
            s_fmt.add(f"fmt parse {name} {fc.cps(x)}", lambda x=x: fc.parse_dump(name, x), name + ":parse-edge")
            s_fmt.add(f"fmt reparse {name} {fc.cps(x)}", lambda x=x: fc.reparse(name, x), name + ":render-edge")
            s_fmt.add(f"fmt identify {name} {fc.cps(x)}", lambda x=x: fc.identify(name, x), name + ":identify")
    # CPython's lenient base64 decoder (binascii.a2b_base64) as modelled for b64s_decode / ab64_decode / b64decode
    from . import formats_misc as fm

    for data, ans in fm.a2b_cases(rng, 3000 if not ctx.thorough else 60000):
        s_fmt.add_raw(f"fmt a2b {fc.cps(data)}", ans, "a2b_base64")
    # every registered hasher: real-code round trip
    skipped = []
    for name in sorted(registry.list_crypt_handlers()):
        h = fc.handler(name)
        if not hasattr(h, "from_string") and not hasattr(getattr(h, "wrapped", None), "from_string"):
            skipped.append(name)
            continue
        kw = {"user": "user"} if "user" in h.context_kwds else {}
        if "realm" in h.context_kwds:
            kw["realm"] = "realm"
        try:
            hashes = [fc.cheap(h).hash("pw", **kw)] + ([] if kw else fc.gen_hashes(name, rng, (1 if name in fc.EXPENSIVE else 3) if not ctx.thorough else 6))
        except Exception as e:  # noqa: BLE001
            skipped.append(f"{name} ({errname(e)})")
            continue
        target = h if hasattr(h, "from_string") else None
        for hs in hashes:
            for form in (hs, hs.encode("ascii")):
                try:
                    if target is not None:
                        obj = target.from_string(form)
                        back = obj.to_string()
                        again = target.from_string(back).to_string()
                        o_rt.check(name, back == again and h.verify("pw", back, **kw) == h.verify("pw", hs, **kw) and h.identify(back),
                                   {"op": "roundtrip", "hasher": name, "hash": hs}, back, "stable re-rendering that verifies the same password")
                        if back != hs:
                            o_rt.check(name + ":canonical", h.verify("pw", back, **kw) is True, {"op": "canon", "hasher": name, "hash": hs}, back, hs)
                    else:
                        ok = h.verify("pw", form, **kw) is True and h.identify(form) and h._wrap_hash(h._unwrap_hash(hs)) == hs and h.wrapped.identify(h._unwrap_hash(hs))
                        o_rt.check(name, ok, {"op": "wrapped-roundtrip", "hasher": name, "hash": hs}, None, "wrap(unwrap(h)) == h, verifies, identified")
                except Exception as e:  # noqa: BLE001
                    o_rt.check(name, False, {"op": "roundtrip", "hasher": name, "hash": hs}, errname(e) + ": " + str(e)[:100], "no error")
            # parsehash reports the settings used
            if hasattr(h, "parsehash"):
                try:
                    ph = h.parsehash(hs)
                    obj = (target or h).from_string(hs) if target else None
                    ok = True
                    if obj is not None:
                        for k in ("rounds", "salt"):
                            if k in ph and hasattr(obj, k):
                                ok = ok and ph[k] == getattr(obj, k)
                        # independent reading of the documented rule: every parsed setting that is always reported, or whose value differs
                        # from the class default, is in the result with the object's value (a setting whose value is 0 / empty included)
                        UNSET = object()
                        want = {k: getattr(obj, k) for k in obj._parsed_settings
                                if k in obj._always_parse_settings or getattr(obj, k) != getattr(h, k, UNSET)}
                        if obj.checksum is not None:
                            want["checksum"] = obj.checksum
                        ok = ok and ph == want
                    o_rt.check(name + ":parsehash", ok, {"op": "parsehash", "hasher": name, "hash": hs}, repr(ph)[:200], "fields equal to from_string's")
                except Exception as e:  # noqa: BLE001
                    o_rt.check(name + ":parsehash", False, {"op": "parsehash", "hasher": name, "hash": hs}, errname(e), "no error")
    # ---- settings with a falsy value (0, empty) are settings like any other: parsing reports them and they reproduce the hash
    from passlib import hash as H

    falsy = [("fshp", dict(variant=0, rounds=2, salt=b"ab"), {"variant": 0}), ("fshp", dict(variant=1, rounds=2, salt=b""), {"salt": b""}),
             ("cisco_type7", dict(salt=0), {"salt": 0}), ("sun_md5_crypt", dict(rounds=0, salt="abcd"), {"rounds": 0}),
             ("pbkdf2_sha256", dict(rounds=2, salt=b""), {"salt": b""}), ("sha256_crypt", dict(rounds=1000, salt=""), {"salt": ""}),
             ("md5_crypt", dict(salt=""), {"salt": ""}), ("scrypt", dict(rounds=1, block_size=1, parallelism=1, salt=b""), {"salt": b""}),
             ("ldap_salted_sha1", dict(salt=b"\x00\x00\x00\x00"), {"salt": b"\x00\x00\x00\x00"})]
    for name, kw, expect in falsy:
        h = getattr(H, name)
        inp = {"op": "parsehash-falsy", "hasher": name, "kwds": repr(kw)}
        try:
            hs = h.using(**kw).hash("pw")
            ph = h.parsehash(hs)
            got = {k: ph.get(k, "<absent>") for k in expect}
            o_rt.check(name + ":parsehash-falsy-setting", got == expect, inp, repr(ph)[:200], repr(expect))
            again = {k: v for k, v in ph.items() if k != "checksum"}
            hs2 = h.using(**again).hash("pw")
            o_rt.check(name + ":parsehash-reproduces", hs2 == hs, inp, hs2, hs)
        except Exception as e:  # noqa: BLE001
            o_rt.check(name + ":parsehash-falsy-setting", False, inp, errname(e) + ": " + str(e)[:100], "no error")
    if skipped:
        ctx.notes.append("round-trip oracle skipped: " + ", ".join(skipped))
    o_nc = Oracle(ctx, "normalisations-definition-lists-layout-switches")
    for gen in (noncanonical_cases(rng, ctx.thorough), libpass_phc_cases(rng), class_switch_cases(rng)):
        for tag, inp, ok, obs, exp in gen:
            o_nc.check(tag, ok, inp, obs, exp)
    return merge(s_fmt, o_rt, o_nc)


def noncanonical_cases(rng, thorough=False):
    """documented normalisations on the real code: a re-encoding of the very same bits (stray padding bits in bcrypt's salt / digest, hex
    letter case) parses, re-renders to the canonical string and verifies the same password; yields (tag, input, ok, observed, expected)"""
    from passlib.utils.binary import bcrypt64

    cm = bcrypt64.charmap
    for name in ("bcrypt", "ldap_bcrypt", "django_bcrypt", "bcrypt_sha256", "django_bcrypt_sha256"):
        h = fc.handler(name)
        for _ in range(3 if not thorough else 12):
            idents = [i for i in getattr(getattr(h, "wrapped", h), "ident_values", ()) if "2x" not in i and i != "$2$"] or [None]
            ident = rng.choice(idents)
            kw = {"rounds": 4}
            if ident and name not in ("bcrypt_sha256", "django_bcrypt_sha256"):
                kw["ident"] = ident
            pw = "".join(rng.choice("abcXYZ019 é") for _ in range(rng.randrange(0, 20)))
            hs = h.using(**kw).hash(pw)
            salt_end = len(hs) - 32 if hs[-32] == "$" else len(hs) - 31
            i = salt_end - 1
            ci = cm.index(hs[i])
            for k in rng.sample(range(1, 16), 3 if not thorough else 15):
                v = hs[:i] + cm[(ci & 0x30) | ((ci & 0x0F) ^ k)] + hs[i + 1:]
                inp = {"op": "noncanonical", "hasher": name, "hash": v, "canonical": hs, "secret": pw}
                target = h if hasattr(h, "from_string") else None
                try:
                    back = target.from_string(v).to_string() if target is not None else h._wrap_hash(h.wrapped.from_string(h._unwrap_hash(v)).to_string())
                    obs = (back, h.identify(v), h.verify(pw, v), h.verify(pw + "x", v))
                except Exception as e:  # noqa: BLE001
                    obs = errname(e) + ": " + str(e)[:80]
                yield ("padding-bits:" + name, inp, obs == (hs, True, True, False), obs, (hs, True, True, False))
    for name in ("hex_md5", "hex_sha1", "hex_sha256", "hex_sha512", "hex_md4", "ldap_hex_md5", "ldap_hex_sha1", "mssql2000", "mssql2005", "oracle11", "mysql41", "lmhash", "nthash", "msdcc", "msdcc2", "postgres_md5"):
        h = fc.handler(name)
        kw = {"user": "user"} if "user" in (h.context_kwds or ()) else {}
        hs = h.hash("pw", **kw)
        for v in {hs.upper(), hs.lower(), hs.swapcase()} - {hs}:
            if name == "postgres_md5" and not v.startswith("md5"):
                continue
            if name in ("ldap_hex_md5", "ldap_hex_sha1") and not v.startswith(hs[: hs.index("}") + 1]):
                v = hs[: hs.index("}") + 1] + v[hs.index("}") + 1:]
            if name in ("mssql2000", "mssql2005") and not v.startswith("0x"):
                v = "0x" + v[2:]
            inp = {"op": "noncanonical", "hasher": name, "hash": v, "canonical": hs, "secret": "pw"}
            try:
                acc = h.identify(v)
                obs = (acc, h.verify("pw", v, **kw) if acc else None, h.verify("pwx", v, **kw) if acc else None,
                       (h.from_string(v).to_string() if hasattr(h, "from_string") else None) if acc else None)
            except ValueError:
                obs = (False, None, None, None)      # identify() is a loose pre-check; the parser refuses the spelling with the documented error
            except Exception as e:  # noqa: BLE001
                obs = errname(e) + ": " + str(e)[:80]
            # either the spelling is not accepted at all, or it is the same hash: same answers, canonical re-rendering
            ok = (isinstance(obs, tuple) and obs[0] is False) or (isinstance(obs, tuple) and obs[1] is True and obs[2] is False and obs[3] in (None, hs))
            yield ("hex-case:" + name, inp, ok, obs, "rejected, or: verifies the same password and re-renders as " + hs)


def libpass_phc_cases(rng):
    """inspect_phc with one definition, a tuple and a list of definitions in every order: the record that matches one of them is parsed
    by that one and re-renders unchanged; a record matching none gives None"""
    from libpass.inspect.phc import inspect_phc
    from libpass.inspect.phc.defs import Argon2PHC, BcryptSHA256PHCV2

    b64 = "ABCDEFGHIJKLMNOPQRSTUVWXYZabcdefghijklmnopqrstuvwxyz0123456789+/"
    recs = []
    for _ in range(6):
        salt = "".join(rng.choice(b64) for _ in range(rng.choice([11, 16, 22, 64])))
        dig = "".join(rng.choice(b64) for _ in range(rng.choice([16, 43, 86])))
        recs.append((f"$argon2{rng.choice(['id', 'i', 'd'])}$v=19$m={rng.choice([8, 65536])},t={rng.randrange(1, 9)},p={rng.randrange(1, 5)}${salt}${dig}", Argon2PHC))
        recs.append((f"$bcrypt-sha256$v=2,t={rng.choice(['2a', '2b'])},r={rng.randrange(4, 32)}${salt[:22].ljust(22, 'A')}${dig[:31].ljust(31, 'A')}", BcryptSHA256PHCV2))
    for rec, owner in recs:
        other = BcryptSHA256PHCV2 if owner is Argon2PHC else Argon2PHC
        for label, defs in (("single", owner), ("tuple-first", (owner, other)), ("tuple-last", (other, owner)), ("list-last", [other, owner]), ("list-first", [owner, other]), ("one-tuple", (owner,))):
            inp = {"op": "phc", "record": rec, "definitions": label}
            try:
                r = inspect_phc(rec, defs)
                obs = (type(r).__name__, r.as_str() if r is not None else None)
            except Exception as e:  # noqa: BLE001
                obs = errname(e) + ": " + str(e)[:80]
            yield ("phc-definitions:" + label, inp, obs == (owner.__name__, rec), obs, (owner.__name__, rec))
        try:
            r = inspect_phc(rec, (other,))
            obs = r if r is None else type(r).__name__
        except Exception as e:  # noqa: BLE001
            obs = errname(e)
        yield ("phc-definitions:foreign", {"op": "phc", "record": rec, "definitions": "other-only"}, obs is None, obs, None)


def class_switch_cases(rng):
    """layout switches that are class attributes rather than using() settings (django_des_crypt.use_duplicate_salt): both layouts are
    produced, parsed, re-rendered and verified without loss"""
    base = fc.handler("django_des_crypt")
    for flag in (True, False):
        h = type("django_des_crypt_layout", (base,), {"use_duplicate_salt": flag})
        for _ in range(4):
            pw = "".join(rng.choice("abcXYZ019") for _ in range(rng.randrange(0, 12)))
            inp = {"op": "class-switch", "hasher": "django_des_crypt", "use_duplicate_salt": flag, "secret": pw}
            try:
                hs = h.hash(pw)
                obj = h.from_string(hs)
                obs = (obj.to_string() == hs, h.verify(pw, hs), h.verify("~" + pw, hs), base.verify(pw, hs), len(obj.salt) >= 2 and hs.endswith(obj.salt[:2] + obj.checksum))
            except Exception as e:  # noqa: BLE001
                obs = errname(e) + ": " + str(e)[:80]
            yield ("class-switch:django_des_crypt", inp, obs == (True, True, False, True, True), obs, (True, True, False, True, True))


def _uncps(t):
    try:
        return "" if t == "-" else "".join(chr(int(x)) for x in t.split(","))
    except ValueError:
        return t            # an adapter's own answer ("None": the inspector does not recognise the string)


def lossless_on_seeds(ctx, seeds):
    """property-directed use of the disagreeing inputs: the property says parsing and re-rendering loses nothing.  For every input on
    which model and implementation disagreed, ask both to re-render it: where the model returns the input unchanged (it is the canonical
    rendering of well-formed settings — theorems R1/R2) and the REAL hasher returns a different string, the real code loses or alters
    information: that input is the replay."""
    cands = []
    for sd in seeds:
        if not isinstance(sd, str):
            continue
        parts = sd.split(" ")
        if len(parts) == 4 and parts[0] == "fmt" and parts[1] in ("reparse", "parse"):
            cands.append((parts[2], parts[3]))
    seen = set()
    for name, c in cands:
        if (name, c) in seen:
            continue
        seen.add((name, c))
        h = _uncps(c)
        try:
            model = ctx.model([f"fmt reparse {name} {c}"])[0]
        except Exception:  # noqa: BLE001
            continue
        if model != "ok " + c:
            # not canonical — but if the model (the format as it was validated against the code) parses it and re-renders it to a canonical
            # form, it is a well-formed spelling under a documented normalisation: the real hasher must accept it and render that form
            if model.startswith("ok ") and model != "ok None":
                try:
                    real = fc.reparse(name, h)
                except ValueError as e:
                    return {"input": {"op": "reparse-normalised", "hasher": name, "hash": h, "canonical": _uncps(model[3:])}, "observed": errname(e) + ": " + str(e)[:100],
                            "expected": "accepted and re-rendered as " + _uncps(model[3:])}
                except Exception:  # noqa: BLE001
                    continue
                if real != model[3:]:
                    return {"input": {"op": "reparse-normalised", "hasher": name, "hash": h, "canonical": _uncps(model[3:])}, "observed": _uncps(real), "expected": _uncps(model[3:])}
            continue
        try:
            real = fc.reparse(name, h)
        except Exception as e:  # noqa: BLE001
            return {"input": {"op": "reparse", "hasher": name, "hash": h}, "observed": errname(e) + ": " + str(e)[:100], "expected": "the canonical string is accepted and re-rendered unchanged"}
        if real != c:
            return {"input": {"op": "reparse", "hasher": name, "hash": h}, "observed": _uncps(real), "expected": h}
    return None


def search(ctx, broken, seeds):
    hit = lossless_on_seeds(ctx, seeds)
    if hit:
        return hit
    r = correspond(ctx)
    for name, s in r["suites"].items():
        if name.startswith("oracle-") and s["mismatches"]:
            m = s["mismatches"][0]
            return {"input": m["input"], "observed": m["impl"], "expected": m["model"]}
    return None


def replay(ctx, inp):
    warnings.simplefilter("ignore")
    if inp.get("op") == "reparse":
        try:
            real = _uncps(fc.reparse(inp["hasher"], inp["hash"]))
            return {"fails": real != inp["hash"], "observed": real}
        except Exception as e:  # noqa: BLE001
            return {"fails": True, "observed": errname(e)}
    if inp.get("op") == "reparse-normalised":
        try:
            real = _uncps(fc.reparse(inp["hasher"], inp["hash"]))
            return {"fails": real != inp["canonical"], "observed": real}
        except Exception as e:  # noqa: BLE001
            return {"fails": True, "observed": errname(e)}
    if inp.get("op") == "inspect-sha-implicit":
        from libpass.inspect.sha_crypt import SHA256CryptInfo, inspect_sha_crypt

        h = "$5$abc$" + "x" * 43
        return {"fails": inspect_sha_crypt(h, SHA256CryptInfo).as_str() != h, "observed": inspect_sha_crypt(h, SHA256CryptInfo).as_str()}
    r = search(ctx, [], [])
    return {"fails": r is not None, "observed": r}
