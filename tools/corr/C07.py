"""C07 — hash strings parse and re-render without loss."""
from __future__ import annotations

import warnings

from . import formats_common as fc
from .common import Oracle, Suite, errname, merge

GEN_UNITS = ["B64", "Handlers", "PyUnicode", "PyCase", "StaticFmt", "MiscTables"]
LEAN_TARGETS = ["PasslibVerif.Props.C07", "PasslibVerif.Props.C07Static", "PasslibVerif.Props.C07DesBcrypt", "PasslibVerif.Props.C07Pbkdf", "PasslibVerif.Props.C07Misc"]
ASSUMPTIONS = [
    "formats without a Lean model yet are explored by the real-code round-trip oracle only (listed under only_correspondence_checked)",
]
EXPLANATION = (
    "Per format with a Lean model: parse(render x) = x for well-formed settings, render(parse s) is a fixed point, parsed settings are the "
    "ones used. Correspondence: from_string/to_string of the real hashers vs the compiled format models on generated hashes over the settings "
    "space (elided defaults, config-only forms, every ident) and on mutated strings. Oracle on ALL registered hashers: from_string(h).to_string() "
    "is stable, verifies the same password, and reports the settings that were used."
)


def correspond(ctx):
    warnings.simplefilter("ignore")
    from passlib import registry

    rng = ctx.rng
    s_fmt = Suite(ctx, "format-models")
    o_rt = Oracle(ctx, "all-hashers-roundtrip")
    for name in fc.MODELLED:
        h = fc.handler(name)
        if name in fc._misc.ADAPTERS:
            hashes = fc.gen_model_hashes(name, rng, 8 if not ctx.thorough else 60)
        else:
            hashes = fc.gen_hashes(name, rng, (3 if name in fc.EXPENSIVE else 8) if not ctx.thorough else 60, vary_secret=True)
        for hs in hashes:
            for v in fc.variants(h, name, hs, rng):
                s_fmt.add(f"fmt parse {name} {fc.cps(v)}", lambda v=v: fc.parse_dump(name, v), name + ":parse")
                s_fmt.add(f"fmt reparse {name} {fc.cps(v)}", lambda v=v: fc.reparse(name, v), name + ":render")
            muts = fc.mutants(hs, rng, 25 if not ctx.thorough else 200) + fc.extra_mutants(name, hs, rng, 12 if not ctx.thorough else 60) + fc.parse_only(name, hs)
            for m in muts:
                s_fmt.add(f"fmt parse {name} {fc.cps(m)}", lambda m=m: fc.parse_dump(name, m), name + ":parse-mutant")
            if name in fc.IDENTIFY_CHECKED:
                for m in fc.variants(h, name, hs, rng) + muts:
                    s_fmt.add(f"fmt identify {name} {fc.cps(m)}", lambda m=m: fc.identify(name, m), name + ":identify")
        # hand-picked edge cases of the Misc family adapters (parse, re-render, identify)
        for x in fc.extra_cases(name, rng):
            s_fmt.add(f"fmt parse {name} {fc.cps(x)}", lambda x=x: fc.parse_dump(name, x), name + ":parse-edge")
            s_fmt.add(f"fmt reparse {name} {fc.cps(x)}", lambda x=x: fc.reparse(name, x), name + ":render-edge")
            s_fmt.add(f"fmt identify {name} {fc.cps(x)}", lambda x=x: fc.identify(name, x), name + ":identify")
    # CPython's lenient base64 decoder (binascii.a2b_base64) as modelled for b64s_decode / ab64_decode / b64decode
    from . import formats_misc as fm

    for data, ans in fm.a2b_cases(rng, 3000 if not ctx.thorough else 60000):
        s_fmt.add_raw(f"fmt a2b {fc.cps(data)}", ans, "a2b_base64")
    # every registered hasher: real-code round trip
    skipped = []
    for name in sorted(registry.list_crypt_handlers()):
        h = fc.handler(name)
        if not hasattr(h, "from_string") and not hasattr(getattr(h, "wrapped", None), "from_string"):
            skipped.append(name)
            continue
        kw = {"user": "user"} if "user" in h.context_kwds else {}
        if "realm" in h.context_kwds:
            kw["realm"] = "realm"
        try:
            hashes = [fc.cheap(h).hash("pw", **kw)] + ([] if kw else fc.gen_hashes(name, rng, (1 if name in fc.EXPENSIVE else 3) if not ctx.thorough else 6))
        except Exception as e:  # noqa: BLE001
            skipped.append(f"{name} ({errname(e)})")
            continue
        target = h if hasattr(h, "from_string") else None
        for hs in hashes:
            for form in (hs, hs.encode("ascii")):
                try:
                    if target is not None:
                        obj = target.from_string(form)
                        back = obj.to_string()
                        again = target.from_string(back).to_string()
                        o_rt.check(name, back == again and h.verify("pw", back, **kw) == h.verify("pw", hs, **kw) and h.identify(back),
                                   {"op": "roundtrip", "hasher": name, "hash": hs}, back, "stable re-rendering that verifies the same password")
                        if back != hs:
                            o_rt.check(name + ":canonical", h.verify("pw", back, **kw) is True, {"op": "canon", "hasher": name, "hash": hs}, back, hs)
                    else:
                        ok = h.verify("pw", form, **kw) is True and h.identify(form) and h._wrap_hash(h._unwrap_hash(hs)) == hs and h.wrapped.identify(h._unwrap_hash(hs))
                        o_rt.check(name, ok, {"op": "wrapped-roundtrip", "hasher": name, "hash": hs}, None, "wrap(unwrap(h)) == h, verifies, identified")
                except Exception as e:  # noqa: BLE001
                    o_rt.check(name, False, {"op": "roundtrip", "hasher": name, "hash": hs}, errname(e) + ": " + str(e)[:100], "no error")
            # parsehash reports the settings used
            if hasattr(h, "parsehash"):
                try:
                    ph = h.parsehash(hs)
                    obj = (target or h).from_string(hs) if target else None
                    ok = True
                    if obj is not None:
                        for k in ("rounds", "salt"):
                            if k in ph and hasattr(obj, k):
                                ok = ok and ph[k] == getattr(obj, k)
                    o_rt.check(name + ":parsehash", ok, {"op": "parsehash", "hasher": name, "hash": hs}, repr(ph)[:200], "fields equal to from_string's")
                except Exception as e:  # noqa: BLE001
                    o_rt.check(name + ":parsehash", False, {"op": "parsehash", "hasher": name, "hash": hs}, errname(e), "no error")
    if skipped:
        ctx.notes.append("round-trip oracle skipped: " + ", ".join(skipped))
    return merge(s_fmt, o_rt)


def _uncps(t):
    return "" if t == "-" else "".join(chr(int(x)) for x in t.split(","))


def lossless_on_seeds(ctx, seeds):
    """property-directed use of the disagreeing inputs: the property says parsing and re-rendering loses nothing.  For every input on
    which model and implementation disagreed, ask both to re-render it: where the model returns the input unchanged (it is the canonical
    rendering of well-formed settings — theorems R1/R2) and the REAL hasher returns a different string, the real code loses or alters
    information: that input is the replay."""
    cands = []
    for sd in seeds:
        if not isinstance(sd, str):
            continue
        parts = sd.split(" ")
        if len(parts) == 4 and parts[0] == "fmt" and parts[1] in ("reparse", "parse"):
            cands.append((parts[2], parts[3]))
    seen = set()
    for name, c in cands:
        if (name, c) in seen:
            continue
        seen.add((name, c))
        h = _uncps(c)
        try:
            model = ctx.model([f"fmt reparse {name} {c}"])[0]
        except Exception:  # noqa: BLE001
            continue
        if model != "ok " + c:
            continue            # not a canonical string according to the model
        try:
            real = fc.reparse(name, h)
        except Exception as e:  # noqa: BLE001
            return {"input": {"op": "reparse", "hasher": name, "hash": h}, "observed": errname(e) + ": " + str(e)[:100], "expected": "the canonical string is accepted and re-rendered unchanged"}
        if real != c:
            return {"input": {"op": "reparse", "hasher": name, "hash": h}, "observed": _uncps(real), "expected": h}
    return None


def search(ctx, broken, seeds):
    hit = lossless_on_seeds(ctx, seeds)
    if hit:
        return hit
    r = correspond(ctx)
    for name, s in r["suites"].items():
        if name.startswith("oracle-") and s["mismatches"]:
            m = s["mismatches"][0]
            return {"input": m["input"], "observed": m["impl"], "expected": m["model"]}
    return None


def replay(ctx, inp):
    warnings.simplefilter("ignore")
    if inp.get("op") == "reparse":
        try:
            real = _uncps(fc.reparse(inp["hasher"], inp["hash"]))
            return {"fails": real != inp["hash"], "observed": real}
        except Exception as e:  # noqa: BLE001
            return {"fails": True, "observed": errname(e)}
    if inp.get("op") == "inspect-sha-implicit":
        from libpass.inspect.sha_crypt import SHA256CryptInfo, inspect_sha_crypt

        h = "$5$abc$" + "x" * 43
        return {"fails": inspect_sha_crypt(h, SHA256CryptInfo).as_str() != h, "observed": inspect_sha_crypt(h, SHA256CryptInfo).as_str()}
    r = search(ctx, [], [])
    return {"fails": r is not None, "observed": r}
