"""C03 — bcrypt's backend capability detection (lean/PasslibVerif/Model/BcryptFinalize.lean, driver suite `bfin`) against the REAL
`_BcryptCommon._finalize_backend_mixin` of $PASSLIB_REPO/passlib/handlers/bcrypt.py.

The real function is run on SYNTHETIC mixin classes (fresh subclasses of `_BcryptCommon`, put into `bcrypt._backend_mixin_map` for the
duration of the call so that its `assert mixin_cls is …` holds):
  * family `verify`: the class's `verify` is a table of answers (truth values of several Python types / exceptions of every class the
    function distinguishes) keyed by the (secret, hash) pairs the MODEL says are the probes (`bfin vectors`): a question the model does not
    list is answered by an exception the model maps to nothing, i.e. a mismatch;
  * family `calc`: the class keeps the inherited `GenericHandler.verify` and its `_calc_checksum` is the table (right checksum / another
    checksum / an exception), so the answers reach the function through from_string + consteq;
  * the whole decision tree of the function is explored on the real code (depth first, by call order: 9 answers per question asked),
    every path is one case for each value of `backend == "os_crypt"`; questions a path does not ask get random answers;
  * random complete tables, random initial class attributes (a class left half-configured by an earlier failing call, an initialised one),
    two calls in a row on the same class;
and on the REAL mixin classes of this host (bcrypt package, builtin, os_crypt): their 16 answers are asked, then the function is run on
the class with its attributes reset, and again.

    cd /tmp/wp/c3f/verif && PASSLIB_REPO=/tmp/repo_clean /venv/bin/python -m tools.corr.c03_finalize [--thorough] [--seed N]
"""
from __future__ import annotations

import os
import re
import sys
import warnings

if __name__ == "__main__":
    _here = os.path.dirname(os.path.abspath(__file__))
    sys.path.insert(0, os.path.dirname(_here))
sys.path.insert(0, os.environ.get("PASSLIB_REPO", "/repo"))

from .common import Suite  # noqa: E402

GEN_UNITS: list = []
LEAN_TARGETS = ["PasslibVerif.Props.C03Finalize"]
PINNED = ["passlib/handlers/bcrypt.py:_BcryptCommon._finalize_backend_mixin", "passlib/handlers/bcrypt.py:_BcryptBackend._load_backend_mixin",
          "passlib/handlers/bcrypt.py:_OsCryptBackend._load_backend_mixin", "passlib/handlers/bcrypt.py:_BuiltinBackend._load_backend_mixin"]
ASSUMPTIONS = [
    "the backend under test enters only through mixin_cls.verify(secret, hash) on the 16 probe pairs; what verify() returns is used through its truth value "
    "(a verify() that returns the NotImplemented object itself is not modelled)",
    "the builtin / bcrypt-package / os_crypt answers on the probes are read from the real classes at run time (the Eks-Blowfish evaluations are not kernel-evaluated)",
]

ATTR_NAMES = ["_workrounds_initialized", "_has_2a_wraparound_bug", "_lacks_20_support", "_lacks_2y_support", "_lacks_2b_support"]
LETTERS = "TFVMINYRO"
PROBES = ["t20", "t2a", "bug8a", "ok8a", "bugWa", "okWa", "t2y", "bug8y", "ok8y", "bugWy", "okWy", "t2b", "bug8b", "ok8b", "bugWb", "okWb"]


def cps(s) -> str:
    return ",".join(str(ord(c)) for c in s) if s else "-"


class Stop(BaseException):
    """raised by an exploring table when the prefix of answers is used up"""

    def __init__(self, probe):
        self.probe = probe


class SynthOther(Exception):
    pass


class Real:
    def __init__(self, ctx):
        import passlib.handlers.bcrypt as mod
        import passlib.utils.handlers as uh
        from passlib import exc

        self.mod, self.uh, self.exc = mod, uh, exc
        self.rng = ctx.rng
        # the probes as the MODEL lists them
        (line,) = ctx.model(["bfin vectors"])
        self.key_of = {}
        self.vec = {}
        for item in line.split(";"):
            name, rest = item.split("=")
            sec, h = rest.split("/")
            self.key_of[(self.dec(sec), self.dec(h))] = name
            self.vec[name] = (self.dec(sec), self.dec(h))
        assert list(self.vec) == PROBES, list(self.vec)
        self.n = 0

    @staticmethod
    def dec(s):
        kind, body = s.split(":")
        if kind == "t":
            return "".join(chr(int(x)) for x in body.split(",")) if body != "-" else ""
        return bytes.fromhex(body) if body != "-" else b""

    # ---- answers -------------------------------------------------------------------------------------------------------------
    def perform(self, letter):
        """what a synthetic verify() does for an answer letter"""
        rng, exc = self.rng, self.exc
        if letter == "T":
            return rng.choice([True, True, 1, "yes", (0,)])
        if letter == "F":
            return rng.choice([False, False, 0, None, "", ()])
        if letter == "V":
            e = rng.choice([ValueError("unknown ident"), exc.PasswordValueError("x"), self.uh.exc.MalformedHashError(self.mod.bcrypt),
                            exc.PasswordSizeError(4096), exc.UnknownHashError("x")])
        elif letter == "M":
            e = exc.MissingBackendError("x")
        elif letter == "I":
            e = exc.InternalBackendError("x")
        elif letter == "N":
            e = NotImplementedError("x")
        elif letter == "Y":
            e = TypeError("x")
        elif letter == "R":
            e = rng.choice([RuntimeError("x"), exc.PasslibSecurityError("x")])
        else:
            e = rng.choice([KeyError("x"), ZeroDivisionError("x"), SynthOther("x"), OSError("x")])
        e.synthetic = True
        raise e

    # ---- a synthetic mixin class ------------------------------------------------------------------------------------------------
    def make_class(self, answer_of, family):
        """`answer_of(probe name or None) -> letter` (may raise Stop)"""
        real = self
        base = self.mod._BcryptCommon
        self.n += 1
        if family == "verify":
            def verify(cls, secret, hash, **kw):
                name = real.key_of.get((secret, hash))
                if name is None:
                    raise SynthOther("unlisted-probe %r %r" % (secret, hash))
                cls.asked.append(name)
                return real.perform(answer_of(name))

            ns = {"verify": classmethod(verify), "asked": []}
        else:
            def _calc_checksum(self_i, secret):
                want = None
                for name, (sec, h) in real.vec.items():
                    hs = h.decode("ascii") if isinstance(h, bytes) else h
                    if sec == secret and hs[:-31] == "%s%02d$%s" % (self_i.ident, self_i.rounds, self_i.salt) and hs[-31:] == self_i.checksum:
                        want = name
                if want is None:
                    raise SynthOther("unlisted-probe %r" % (secret,))
                type(self_i).asked.append(want)
                letter = answer_of(want)
                if letter == "T":
                    return self_i.checksum
                if letter == "F":
                    return "." * 30 + "u" if self_i.checksum != "." * 30 + "u" else "." * 30 + "e"
                return real.perform(letter)

            ns = {"_calc_checksum": _calc_checksum, "asked": []}
        return type("_Synth%d" % self.n, (base,), ns)

    def read_attrs(self, cls):
        return "".join("1" if getattr(cls, a) else "0" for a in ATTR_NAMES) + ":" + cps(cls._fallback_ident)

    def set_attrs(self, cls, attrs):
        bits, fb = attrs.split(":")
        for a, b in zip(ATTR_NAMES, bits):
            setattr(cls, a, b == "1")
        cls._fallback_ident = "".join(chr(int(x)) for x in fb.split(","))

    def call(self, cls, backend, dryrun=False):
        """the real function on `cls` under the backend name `backend`: canonical answer of `bfin run`"""
        mp = self.mod.bcrypt._backend_mixin_map
        had = backend in mp
        old = mp.get(backend)
        mp[backend] = cls
        try:
            with warnings.catch_warnings(record=True) as wl:
                warnings.simplefilter("always")
                try:
                    r = cls._finalize_backend_mixin(backend, dryrun)
                    ret = "True" if r is True else "returned:%r" % (r,)
                except Stop:
                    raise
                except Exception as e:  # noqa: BLE001
                    ret = self.classify(e, backend)
            warned = [w for w in wl if issubclass(w.category, self.exc.PasslibSecurityWarning)]
            stray = [w for w in wl if not issubclass(w.category, self.exc.PasslibSecurityWarning)]
            if stray:
                ret += "+stray-warning:" + stray[0].category.__name__
            if len(warned) > 1:
                ret += "+warned%d" % len(warned)
        finally:
            if had:
                mp[backend] = old
            else:
                del mp[backend]
        return f"{ret} {self.read_attrs(cls)} {1 if warned else 0}"

    def classify(self, e, backend):
        exc = self.exc
        msg = str(e)
        if getattr(e, "synthetic", False) or "unlisted-probe" in msg:
            # came out of verify()
            if "unlisted-probe" in msg:
                return "Through:UNLISTED:" + msg[:80].replace(" ", "_")
            for cls, nm in ((exc.MissingBackendError, "MissingBackendError"), (exc.InternalBackendError, "InternalBackendError"),
                            (ValueError, "ValueError"), (NotImplementedError, "NotImplementedError"), (TypeError, "TypeError"),
                            (RuntimeError, "RuntimeError")):
                if isinstance(e, cls):
                    return "Through:" + nm
            return "Through:Other7"
        if isinstance(e, exc.PasslibSecurityError):
            m = re.search(r"8-bit bug \(CVE-2011-2483\) under '(\$2.?\$)' hashes", msg)
            return "Security:" + (cps(m.group(1)) if m and repr(backend) in msg else "?" + msg)
        if type(e) is RuntimeError and msg.startswith(backend + " "):
            body = msg[len(backend) + 1:]
            fixed = {"incorrectly rejected $2$ hash": "rejected20", "lacks support for $2a$ hashes": "lacks2a",
                     "incorrectly rejected $2a$ hash": "rejected2a", "incorrectly rejected $2y$ hash": "rejected2y",
                     "incorrectly rejected $2b$ hash": "rejected2b"}
            if body in fixed:
                return "Runtime:" + fixed[body]
            m = re.fullmatch(r"backend failed to verify (\$2.?\$) 8bit hash", body)
            if m:
                return "Runtime:failed8bit:" + cps(m.group(1))
            m = re.fullmatch(r"backend failed to verify (\$2.?\$) wraparound hash", body)
            if m:
                return "Runtime:failedWrap:" + cps(m.group(1))
            m = re.fullmatch(r"backend unexpectedly has wraparound bug for (\$2.?\$)", body)
            if m:
                return "Runtime:unexpectedWrap:" + cps(m.group(1))
        return "Unclassified:" + type(e).__name__ + ":" + msg[:100].replace(" ", "_")

    # ---- the decision tree of the real function ------------------------------------------------------------------------------------
    def explore(self):
        """all paths of the real function by call order: lists of (probe, letter)"""
        paths = []
        stack = [[]]
        while stack:
            prefix = stack.pop()
            it = iter(prefix)

            def answer_of(name, it=it):
                try:
                    p, letter = next(it)
                except StopIteration:
                    raise Stop(name) from None
                assert p == name, (p, name)
                return letter

            cls = self.make_class(answer_of, "verify")
            try:
                self.call(cls, "synth")
            except Stop as st:
                for letter in LETTERS:
                    stack.append(prefix + [(st.probe, letter)])
                continue
            paths.append(prefix)
        return paths


DEFAULT_ATTRS = "00000:" + cps("$2a$")


def tag_of(ans):
    ret = ans.split(" ")[0]
    return ret.split(":")[0] + (":" + ret.split(":")[1] if ret.startswith(("Runtime", "Through")) else "")


def model_suite(ctx, s_m):
    warnings.simplefilter("ignore")
    rng = ctx.rng
    real = Real(ctx)
    stats = {"paths": 0, "asked_order_violations": 0}

    def table_case(table, backend, family, attrs=DEFAULT_ATTRS, tag=""):
        cls = real.make_class(lambda name: table[name], family)
        if attrs != DEFAULT_ATTRS:
            real.set_attrs(cls, attrs)
        assert real.read_attrs(cls) == attrs, (real.read_attrs(cls), attrs)
        ans = real.call(cls, backend)
        # the questions are asked in source order, each at most once
        idx = [PROBES.index(p) for p in cls.asked]
        if idx != sorted(set(idx)):
            stats["asked_order_violations"] += 1
        line = f"bfin run {1 if backend == 'os_crypt' else 0} {attrs} {''.join(table[p] for p in PROBES)}"
        s_m.add_raw(line, ans, tag=(tag or family) + ":" + tag_of(ans))
        return cls, ans

    # 1. every path of the real function, both values of `backend == "os_crypt"`, both families
    paths = real.explore()
    stats["paths"] = len(paths)
    for path in paths:
        asked = dict(path)
        for backend in ("synth", "os_crypt", "bcrypt", "builtin"):
            if backend in ("bcrypt", "builtin") and not ctx.thorough and rng.random() < 0.8:
                continue
            table = {p: asked.get(p) or rng.choice(LETTERS) for p in PROBES}
            table_case(table, backend, "verify", tag="path-verify")
        table = {p: asked.get(p) or rng.choice(LETTERS) for p in PROBES}
        table_case(table, rng.choice(["synth", "os_crypt"]), "calc", tag="path-calc")
    # the first-call projection (`finalize`)
    for path in paths[:: (1 if ctx.thorough else 4)]:
        asked = dict(path)
        table = {p: asked.get(p) or rng.choice(LETTERS) for p in PROBES}
        cls = real.make_class(lambda name, table=table: table[name], "verify")
        ans = real.call(cls, "synth")
        ret, attrs, _w = ans.split(" ")
        s_m.add_raw(f"bfin first 0 {''.join(table[p] for p in PROBES)}", ("ok 1" + attrs[1:]) if ret == "True" else "err " + ret, tag="first:" + tag_of(ans))

    # 2. random complete tables (biased towards answers that let the function go on)
    n_rand = 6000 if ctx.thorough else 1500
    for _ in range(n_rand):
        bias = rng.random()
        table = {}
        for p in PROBES:
            if rng.random() < bias:
                good = "F" if p.startswith("bug") else "T"
                table[p] = rng.choice([good, good, good, "V", "M", "I", "T" if p == "bugWa" else good])
            else:
                table[p] = rng.choice(LETTERS)
        table_case(table, rng.choice(["synth", "os_crypt"]), rng.choice(["verify", "verify", "calc"]), tag="random")

    # 3. classes that are not in the declared state: initialised ones, half-configured ones
    for _ in range(1200 if ctx.thorough else 300):
        attrs = "".join(rng.choice("01") for _ in range(5)) + ":" + cps(rng.choice(["$2a$", "$2b$", "$2a$", "$2y$"]))
        table = {p: rng.choice("TFVTF" + LETTERS) for p in PROBES}
        if rng.random() < 0.5:
            for p in PROBES:
                if rng.random() < 0.8:
                    table[p] = "F" if p.startswith("bug") else "T"
        table_case(table, rng.choice(["synth", "os_crypt"]), "verify", attrs=attrs, tag="attrs")

    # 4. two calls in a row on the same class: a failing call, then the backend "repaired"; a successful call, then anything
    for _ in range(600 if ctx.thorough else 150):
        table = {p: ("F" if p.startswith("bug") else "T") for p in PROBES}
        for p in rng.sample(PROBES, rng.randrange(0, 4)):
            table[p] = rng.choice(LETTERS)
        backend = rng.choice(["synth", "os_crypt"])
        cls, ans = table_case(table, backend, "verify", tag="seq1")
        attrs = ans.split(" ")[1]
        table2 = {p: rng.choice("TF" + LETTERS) for p in PROBES} if rng.random() < 0.5 else {p: ("F" if p.startswith("bug") else "T") for p in PROBES}
        cls.asked.clear()
        cls.verify = classmethod(lambda c, secret, hash, table2=table2: (c.asked.append(real.key_of[(secret, hash)]), real.perform(table2[real.key_of[(secret, hash)]]))[1])
        ans2 = real.call(cls, backend)
        s_m.add_raw(f"bfin run {1 if backend == 'os_crypt' else 0} {attrs} {''.join(table2[p] for p in PROBES)}", ans2, tag="seq2:" + tag_of(ans2))

    # 5. the real mixin classes of this host
    host = real_backends(ctx, real, s_m)
    ctx.notes.append("c03_finalize: %d paths of the real function; probe order violations %d; host: %s" % (stats["paths"], stats["asked_order_violations"], host))
    if stats["asked_order_violations"]:
        s_m.add_raw("bfin vectors", "probe order violated", tag="order")
    return stats, host


def real_backends(ctx, real, s_m):
    """the three real mixin classes: their answers on the 16 probes, then the real function on the class with its attributes reset"""
    mod, exc = real.mod, real.exc
    os.environ["PASSLIB_BUILTIN_BCRYPT"] = "enabled"
    report = {}
    for name in ("bcrypt", "builtin", "os_crypt"):
        cls = mod.bcrypt._backend_mixin_map[name]
        saved = {a: cls.__dict__[a] for a in ATTR_NAMES + ["_fallback_ident"] if a in cls.__dict__}
        for a in saved:
            delattr(cls, a)
        try:
            # make the module globals the class needs available (imports only; the loader also calls the function under test)
            try:
                with warnings.catch_warnings():
                    warnings.simplefilter("ignore")
                    loaded = cls._load_backend_mixin(name, False)
            except Exception as e:  # noqa: BLE001
                loaded = "raised " + type(e).__name__
            for a in list(cls.__dict__):
                if a in ATTR_NAMES + ["_fallback_ident"]:
                    delattr(cls, a)
            letters = ""
            for p in PROBES:
                sec, h = real.vec[p]
                try:
                    letters += "T" if cls.verify(sec, h) else "F"
                except exc.MissingBackendError:
                    letters += "M"
                except exc.InternalBackendError:
                    letters += "I"
                except ValueError:
                    letters += "V"
                except NotImplementedError:
                    letters += "N"
                except TypeError:
                    letters += "Y"
                except RuntimeError:
                    letters += "R"
                except Exception:  # noqa: BLE001
                    letters += "O"
            os_bit = 1 if name == "os_crypt" else 0
            ans = real.call(cls, name)
            # exceptions of a real backend carry no "synthetic" marker: name them by class
            if ans.startswith("Unclassified:"):
                kind = ans.split(":")[1]
                ans = "Through:" + {"KeyError": "Other7"}.get(kind, kind) + " " + " ".join(ans.rsplit(" ", 2)[1:])
            s_m.add_raw(f"bfin run {os_bit} {DEFAULT_ATTRS} {letters}", ans, tag="host-" + name)
            attrs = ans.rsplit(" ", 2)[1]
            if name == "builtin":
                # the MODELLED builtin hasher (compiled evaluation of the Eks-Blowfish specification) answers the 16 questions as the real one
                ret = ans.split(" ")[0]
                s_m.add_raw("bfin builtin", letters + " " + (("ok " + attrs) if ret == "True" else "err " + ret), tag="host-builtin-model")
            ans2 = real.call(cls, name)
            s_m.add_raw(f"bfin run {os_bit} {attrs} {letters}", ans2, tag="host-again-" + name)
            report[name] = {"loader": loaded, "answers": letters, "finalize": ans}
        finally:
            for a in list(cls.__dict__):
                if a in ATTR_NAMES + ["_fallback_ident"]:
                    delattr(cls, a)
            for a, v in saved.items():
                setattr(cls, a, v)
    return report


if __name__ == "__main__":
    import argparse
    import json
    import time

    sys.path.insert(0, os.path.dirname(os.path.dirname(os.path.abspath(__file__))))
    from runner import Ctx  # type: ignore

    ap = argparse.ArgumentParser()
    ap.add_argument("--thorough", action="store_true")
    ap.add_argument("--seed", type=int, default=1)
    a = ap.parse_args()
    import passlib

    assert os.path.realpath(passlib.__file__).startswith(os.path.realpath(os.environ.get("PASSLIB_REPO", "/repo"))), passlib.__file__
    cx = Ctx("C03finalize", "thorough" if a.thorough else "quick", a.seed)
    t0 = time.time()
    sm = Suite(cx, "c03-finalize-model")
    stats, host = model_suite(cx, sm)
    res = sm.result()
    print(json.dumps({"cases": res["cases"], "mismatches": len(res["mismatches"]), "unmodelled": res["unmodelled"],
                      "seconds": round(time.time() - t0, 1), "passlib": os.path.dirname(passlib.__file__), **stats}))
    for m in res["mismatches"][:12]:
        print("MISMATCH", json.dumps(m)[:1500])
    print(json.dumps(res["distribution"], indent=0)[:9000])
    print(json.dumps(host, indent=0))
    for smp in sm.samples[:2]:
        print("SAMPLE", json.dumps(smp)[:700])
