"""C02, code level, group Des: the REAL pure-Python DES based checksum functions of passlib vs the compiled statement-level model
(`cdes` suite, lean/PasslibVerif/Model/Code/Des.lean).

  passlib.handlers.des_crypt : _crypt_secret_to_key _bsdi_secret_to_key _raw_des_crypt _raw_bsdi_crypt
                               des_crypt._calc_checksum_builtin bsdi_crypt._calc_checksum_builtin
                               bigcrypt._calc_checksum crypt16._calc_checksum
  passlib.handlers.windows   : lmhash.raw lmhash._calc_checksum
  passlib.handlers.oracle    : des_cbc_encrypt oracle10._calc_checksum

Run alone:  cd <verif> && PASSLIB_REPO=/tmp/repo_clean /venv/bin/python -m tools.corr.c02_code_des [--thorough] [--seed N]
"""
from __future__ import annotations

import warnings

from .common import Suite, hx
from .common import errname as _errname

H64 = "./0123456789ABCDEFGHIJKLMNOPQRSTUVWXYZabcdefghijklmnopqrstuvwxyz"
LENS = list(range(0, 41)) + [63, 64, 65, 127, 128]


def errname(e):
    # to_bytes() overflow cannot happen here (both operands of xor_bytes are 8 bytes); mapped for completeness
    if isinstance(e, OverflowError):
        return "ValueError"
    return _errname(e)


def canon(o: str) -> str:
    """`exc.NullPasswordError(...)` constructs a PasswordValueError, i.e. a ValueError"""
    return "err ValueError" if o == "err NullPasswordError" else o


def run(thunk) -> str:
    try:
        r = thunk()
    except Exception as e:  # noqa: BLE001
        return "err " + errname(e)
    if isinstance(r, int):
        return "ok %d" % r
    if isinstance(r, str):
        return "ok " + hx(r.encode("ascii"))
    return "ok " + hx(r)


def cps(s: str) -> str:
    return ",".join(str(ord(c)) for c in s) if s else "-"


def sec_arg(secret):
    return ("t:" + cps(secret)) if isinstance(secret, str) else ("b:" + hx(secret))


def secrets(rng, nul: bool, thorough: bool):
    """bytes secrets: every length of LENS x several kinds of content, every byte value, NUL at every position"""
    out = []
    lo = 0 if nul else 1
    for n in LENS:
        out.append(bytes(rng.choice(b"abcdefgXYZ0189 !~_") for _ in range(n)))
        out.append(bytes(rng.randrange(lo, 256) for _ in range(n)))
        out.append(bytes(rng.choice([0x80, 0x81, 0xFF, 0x41, 0xC1, 0x7F, 0xFE]) for _ in range(n)))
        if thorough:
            for _ in range(3):
                out.append(bytes(rng.randrange(lo, 256) for _ in range(n)))
    # every byte value, alone, and at a chunk boundary
    for v in range(0, 256):
        out.append(bytes([v]))
        out.append(b"abcdefg" + bytes([v]) + b"h")
        out.append(b"abcdefgh" + bytes([v]))
        out.append(bytes([v]) * 17)
    # NUL at every position of a 20-byte secret
    for i in range(20):
        s = bytearray(b"ABCDEFGHIJKLMNOPQRST")
        s[i] = 0
        out.append(bytes(s))
    return out


def texts(rng):
    """str secrets (encoded as UTF-8 by the code): multi-byte characters at chunk boundaries, NUL, a lone surrogate"""
    alpha = "aZ9é€\U0001d11eß ÿĀ"
    out = ["", "a", "é", "€", "\U0001d11e", "pässword", "abcdefg€", "abcdefgh€x", "\x00", "ab\x00", "\ud800", "ab\udfffcd", "\x7f\x80"]
    for n in list(range(0, 20)) + [31, 32, 33, 64]:
        out.append("".join(rng.choice(alpha) for _ in range(n)))
    return out


def salts2(rng):
    good = ["..", "//", "zz", "ab", "Z9", ".z", "z.", "0A", "a/"] + ["".join(rng.choice(H64) for _ in range(2)) for _ in range(6)]
    bad = ["", "a", "abc", "a!", "!a", "$$", "a\x7f", "\x00\x00", "a ", "a\n"]
    return good, bad


def salts4(rng):
    good = ["....", "////", "zzzz", "rasm", "Z9a.", "...z", "z..."] + ["".join(rng.choice(H64) for _ in range(4)) for _ in range(6)]
    bad = ["", "abc", "abcde", "abc!", "!abc", "ab\x7fc", "ab c"]
    return good, bad


def model_suite(ctx, s_m):
    warnings.simplefilter("ignore")
    from passlib.handlers import des_crypt as D
    from passlib.handlers import oracle as O
    from passlib.handlers.windows import lmhash

    rng = ctx.rng
    thorough = ctx.thorough
    add = lambda line, thunk, tag: s_m.add_raw(line, run(thunk), tag=tag)  # noqa: E731

    sec_nul = secrets(rng, True, thorough)
    txt = texts(rng)
    g2, b2 = salts2(rng)
    g4, b4 = salts4(rng)

    # --- _crypt_secret_to_key / _bsdi_secret_to_key (bytes only; any byte value incl. NUL)
    for s in sec_nul:
        add(f"cdes key {hx(s)}", lambda s=s: D._crypt_secret_to_key(s), "key")
        add(f"cdes bsdikey {hx(s)}", lambda s=s: D._bsdi_secret_to_key(s), "bsdikey")

    # --- _raw_des_crypt
    for k, s in enumerate(sec_nul + txt):
        for salt in ([g2[k % len(g2)], g2[(k * 7 + 3) % len(g2)]] if not thorough else g2):
            sb = salt.encode("latin-1")
            add(f"cdes rawdes {sec_arg(s)} {hx(sb)}", lambda s=s, sb=sb: D._raw_des_crypt(s, sb), "rawdes")
    for salt in b2 + g2:
        sb = salt.encode("latin-1")
        for s in [b"", b"password", b"pass\x00word", "pässword", "\ud800", b"\xff" * 9]:
            add(f"cdes rawdes {sec_arg(s)} {hx(sb)}", lambda s=s, sb=sb: D._raw_des_crypt(s, sb), "rawdes-salt")
    # every 12-bit salt value
    for a in H64:
        for b in (H64 if thorough else "./9AZaz"):
            sb = (a + b).encode()
            add(f"cdes rawdes b:70617373 {hx(sb)}", lambda sb=sb: D._raw_des_crypt(b"pass", sb), "rawdes-allsalt")

    # --- _raw_bsdi_crypt
    rounds_list = [1, 2, 3, 4, 5, 7, 25, 26, 0]
    for k, s in enumerate(sec_nul + txt):
        salt = g4[k % len(g4)].encode()
        r = rounds_list[k % len(rounds_list)]
        add(f"cdes rawbsdi {sec_arg(s)} {r} {hx(salt)}", lambda s=s, r=r, salt=salt: D._raw_bsdi_crypt(s, r, salt), "rawbsdi")
    for salt in b4 + g4:
        sb = salt.encode("latin-1")
        for s in [b"", b"password", b"a much longer password, 37 bytes long", b"pass\x00word", "\ud800"]:
            for r in [0, 1, 5]:
                add(f"cdes rawbsdi {sec_arg(s)} {r} {hx(sb)}", lambda s=s, r=r, sb=sb: D._raw_bsdi_crypt(s, r, sb), "rawbsdi-salt")

    # --- thin wrappers (salt is a str attribute of the handler instance)
    hd = D.des_crypt(salt="ab")
    hb = D.bsdi_crypt(salt="abcd", rounds=5)
    hg = D.bigcrypt(salt="ab")

    def with_salt(h, salt, f, **kw):
        h.salt = salt
        for k_, v_ in kw.items():
            setattr(h, k_, v_)
        return f(h)

    wsecs = [s for i, s in enumerate(sec_nul) if thorough or i % 3 == 0] + txt
    for k, s in enumerate(wsecs):
        salt = (g2 + ["a\xe9", "a€", "a", "a!"])[k % (len(g2) + 4)]
        add(f"cdes desbuiltin {sec_arg(s)} {cps(salt)}", lambda s=s, salt=salt: with_salt(hd, salt, lambda h: h._calc_checksum_builtin(s)), "desbuiltin")
        salt4 = (g4 + ["abc\xe9", "abc", "abc!"])[k % (len(g4) + 3)]
        r = rounds_list[(k + 1) % len(rounds_list)]
        add(f"cdes bsdibuiltin {sec_arg(s)} {r} {cps(salt4)}",
            lambda s=s, salt4=salt4, r=r: with_salt(hb, salt4, lambda h: h._calc_checksum_builtin(s), rounds=r), "bsdibuiltin")

    # --- bigcrypt._calc_checksum
    for k, s in enumerate(sec_nul + txt):
        for salt in ([g2[k % len(g2)]] if not thorough else g2[:4]):
            add(f"cdes bigcrypt {sec_arg(s)} {cps(salt)}", lambda s=s, salt=salt: with_salt(hg, salt, lambda h: h._calc_checksum(s)), "bigcrypt")
    for salt in b2 + ["a\xe9"]:
        for s in [b"", b"password", b"passwordpassword!"]:
            add(f"cdes bigcrypt {sec_arg(s)} {cps(salt)}", lambda s=s, salt=salt: with_salt(hg, salt, lambda h: h._calc_checksum(s)), "bigcrypt-salt")

    # --- crypt16._calc_checksum (use_defaults x truncate_error)
    c16 = {}
    for ud in (False, True):
        for te in (False, True):
            cls = D.crypt16.using(truncate_error=True) if te else D.crypt16
            c16[(ud, te)] = cls(salt="aa", use_defaults=ud)
    for k, s in enumerate(sec_nul + txt):
        salt = g2[k % len(g2)]
        ud, te = [(False, False), (True, True), (True, False), (False, True)][k % 4]
        flag = 1 if (ud and te) else 0
        add(f"cdes crypt16 {sec_arg(s)} {cps(salt)} {flag}", lambda s=s, salt=salt, ud=ud, te=te: with_salt(c16[(ud, te)], salt, lambda h: h._calc_checksum(s)), "crypt16")
    for salt in b2 + ["a\xe9"]:
        for s in [b"", b"password", b"passwordpassword!"]:
            add(f"cdes crypt16 {sec_arg(s)} {cps(salt)} 0", lambda s=s, salt=salt: with_salt(c16[(False, False)], salt, lambda h: h._calc_checksum(s)), "crypt16-salt")

    # --- lmhash.raw / _calc_checksum
    lm = lmhash(use_defaults=False)
    for s in sec_nul:
        add(f"cdes lmraw {hx(s)}", lambda s=s: lmhash.raw(s), "lmraw")
        add(f"cdes lmcalc {hx(s)}", lambda s=s: lm._calc_checksum(s), "lmcalc")
    for t in txt + ["Passw0rd", "ÿé", "straße", "ǆ"]:
        # text: the model starts after `.upper().encode(cp437)`
        try:
            up = t.upper().encode("cp437")
        except UnicodeError:
            continue
        add(f"cdes lmrawup {hx(up)}", lambda t=t: lmhash.raw(t), "lmraw-text")

    # --- des_cbc_encrypt
    for k, s in enumerate(sec_nul):
        key = bytes(rng.randrange(256) for _ in range(8))
        add(f"cdes cbc {hx(key)} {hx(s)}", lambda s=s, key=key: O.des_cbc_encrypt(key, s), "cbc")
    for klen in (0, 6, 7, 9):
        key = bytes(rng.randrange(256) for _ in range(klen))
        for s in (b"", b"12345678", b"123456789"):
            add(f"cdes cbc {hx(key)} {hx(s)}", lambda s=s, key=key: O.des_cbc_encrypt(key, s), "cbc-key")

    # --- oracle10._calc_checksum: the model starts at `input = (user + secret).upper().encode("utf-16-be")`
    users = ["system", "SYS", "a", "scott", "\xe9t\xe9", "u\U0001d11e", "x" * 30, "ǆ"]
    for k, s in enumerate(sec_nul + txt):
        user = users[k % len(users)]
        try:
            st = s.decode("utf-8") if isinstance(s, bytes) else s
            inp = (user + st).upper().encode("utf-16-be")
        except UnicodeError:
            continue
        add(f"cdes oracle10 {hx(inp)}", lambda s=s, user=user: O.oracle10(user=user, use_defaults=False)._calc_checksum(s), "oracle10")
    return s_m


def correspond(ctx) -> dict:
    s_m = Suite(ctx, "c02-code-des-model", model_canon=canon)
    model_suite(ctx, s_m)
    return s_m.result()


if __name__ == "__main__":
    import argparse
    import json
    import os
    import sys
    import time

    here = os.path.dirname(os.path.dirname(os.path.abspath(__file__)))
    sys.path.insert(0, here)
    sys.path.insert(0, os.environ.get("PASSLIB_REPO", "/repo"))
    from runner import Ctx

    ap = argparse.ArgumentParser()
    ap.add_argument("--thorough", action="store_true")
    ap.add_argument("--seed", type=int, default=1)
    a = ap.parse_args()
    ctx = Ctx("C02", "thorough" if a.thorough else "quick", a.seed)
    t0 = time.time()
    res = correspond(ctx)
    print(json.dumps({"cases": res["cases"], "mismatches": len(res["mismatches"]), "unmodelled": res["unmodelled"], "seconds": round(time.time() - t0, 1)}))
    for k, v in res["distribution"].items():
        print(f"  {k}: {v}")
    for m in res["mismatches"][:25]:
        print("MISMATCH", json.dumps(m)[:600])
    sys.exit(1 if res["mismatches"] else 0)
