"""C16, file side — the real HtpasswdFile / HtdigestFile on a temp directory vs Model/ApacheFile.lean (driver suite `afile`).

One case = initial directory content (files with exact integer mtimes, set with os.utime) + constructor + a history of object
operations and environment steps (another process replaces / removes a file with an older, newer or equal mtime; the clock moves).
Compared: every return value / exception kind, the final to_string(), the final `mtime` cell and the final directory (content + mtime
of every file).

The clock: the model stamps its own `now` on every file the object writes.  On the real side the module-global name `open` of
passlib.apache is bound (for the duration of a case) to a wrapper of the builtin that, for a file opened for writing, calls
os.utime(path, (now, now)) when the file is closed — before the code's next statement (`os.path.getmtime`) runs.  Nothing else of the
real code is touched; nothing sleeps.
"""
from __future__ import annotations

import builtins
import os
import shutil
import tempfile
import warnings

from .common import Suite, errname, hx

NPATH = 4  # paths 0..3 in the temp directory (3 is never created by the generator's initial state: the "missing" one more often)


def ferr(e: BaseException) -> str:
    return "OSError" if isinstance(e, OSError) else errname(e)


class _Stamped:
    """file object opened for writing; stamps the harness clock on close"""

    def __init__(self, fh, path, clock):
        self.fh, self.path, self.clock = fh, path, clock

    def __enter__(self):
        return self

    def __exit__(self, *exc):
        self.close()
        return False

    def close(self):
        self.fh.close()
        os.utime(self.path, (self.clock.now, self.clock.now))

    def __getattr__(self, a):
        return getattr(self.fh, a)


class Clock:
    def __init__(self, now):
        self.now = now


class FileSim:
    def __init__(self, digest, tmp, fs, now, cobj):
        from passlib import apache

        self.apache = apache
        self.digest = digest
        self.tmp = tmp
        self.clock = Clock(now)
        self.cobj = cobj
        self.vau = {}
        self.raw = {}
        self.ops = []
        self.outs = []
        self.f = None
        for n in os.listdir(tmp):
            os.unlink(os.path.join(tmp, n))
        for p, (content, m) in fs.items():
            self.env_write_raw(p, content, m)
        self.head = f"afile run {int(digest)} %s " + (",".join(f"{p}/{hx(c)}/{m}" for p, (c, m) in sorted(fs.items())) or "-") + f" {now}"

        clock = self.clock

        def stamped_open(path, mode="r", *a, **k):
            fh = builtins.open(path, mode, *a, **k)
            return _Stamped(fh, path, clock) if ("w" in mode or "a" in mode or "+" in mode) else fh

        apache.open = stamped_open

    def close(self):
        if "open" in vars(self.apache):
            del self.apache.open

    # ---- helpers
    def pth(self, p):
        return None if p is None else os.path.join(self.tmp, f"f{p}")

    def ptok(self, p):
        return "~" if p is None else str(p)

    def env_write_raw(self, p, content, m):
        with builtins.open(self.pth(p), "wb") as fh:
            fh.write(content)
        os.utime(self.pth(p), (m, m))

    def spy_ctx(self, f):
        if self.digest:
            return
        from .C16 import _Ctx

        orig = f.context.verify_and_update

        def spy(pwd, h, _orig=orig):
            key = (pwd if isinstance(pwd, bytes) else pwd.encode(), h if isinstance(h, bytes) else h.encode())
            if key in self.raw:
                return self.raw[key]
            ok, new = _orig(pwd, h)
            self.vau[key] = (ok, None if new is None else (new if isinstance(new, bytes) else new.encode()))
            self.raw[key] = (ok, new)
            return ok, new

        f.context = _Ctx(f.context, spy)

    def make(self, p, new, autosave):
        kw = dict(path=self.pth(p), new=new, autosave=autosave)
        if self.digest:
            f = self.apache.HtdigestFile(**kw)
        else:
            f = self.apache.HtpasswdFile(context=self.cobj, **kw)
        self.spy_ctx(f)
        return f

    def rec(self, op, thunk):
        self.ops.append(op)
        try:
            r = thunk()
            self.outs.append("ok" + ("" if r is None else " " + r))
        except Exception as e:  # noqa: BLE001
            self.outs.append("err " + ferr(e))

    @staticmethod
    def b(v):
        return v if isinstance(v, bytes) else v.encode()

    def r(self, realm):
        return "~" if realm is None else hx(self.b(realm))

    # ---- constructor / ops
    def ctor(self, p, new, autosave):
        def go():
            self.f = self.make(p, new, autosave)

        self.rec(f"N:{self.ptok(p)}:{int(new)}:{int(autosave)}", go)
        return self.f is not None

    def reopen(self, p, new, autosave):
        def go():
            self.f = self.make(p, new, autosave)

        self.rec(f"N:{self.ptok(p)}:{int(new)}:{int(autosave)}", go)

    def apply(self, op):
        k, f = op[0], self.f
        if k == "set_hash":
            _, u, realm, h = op
            if self.digest:
                self.rec(f"S:{hx(self.b(u))}:{self.r(realm)}:{hx(self.b(h))}", lambda: str(int(self.f.set_hash(u, realm, h))))
            else:
                self.rec(f"S:{hx(self.b(u))}:~:{hx(self.b(h))}", lambda: str(int(self.f.set_hash(u, h))))
        elif k == "set_pw":
            # salted/random hash: run the real call (autosave included), then tell the model which hash was stored
            _, u, realm, p = op
            try:
                ex = f.set_password(u, realm, p) if self.digest else f.set_password(u, p)
                h = self.b(f.get_hash(u, realm) if self.digest else f.get_hash(u))
                self.ops.append(f"S:{hx(self.b(u))}:{self.r(realm) if self.digest else '~'}:{hx(h)}")
                self.outs.append("ok " + str(int(ex)))
            except Exception as e:  # noqa: BLE001
                self.ops.append(f"S:{hx(self.b(u))}:{self.r(realm) if self.digest else '~'}:{hx(b'x')}")
                self.outs.append("err " + ferr(e))
        elif k == "delete":
            _, u, realm = op
            if self.digest:
                self.rec(f"D:{hx(self.b(u))}:{self.r(realm)}", lambda: str(int(self.f.delete(u, realm))))
            else:
                self.rec(f"D:{hx(self.b(u))}:~", lambda: str(int(self.f.delete(u))))
        elif k == "delete_realm":
            self.rec(f"R:{hx(self.b(op[1]))}", lambda: str(self.f.delete_realm(op[1])))
        elif k == "check":
            def go():
                r = self.f.check_password(op[1], op[2])
                return "none" if r is None else str(int(r))

            self.rec(f"C:{hx(self.b(op[1]))}:{hx(self.b(op[2]))}", go)
        elif k == "load_string":
            self.rec(f"LS:{hx(op[1])}", lambda: self.f.load_string(op[1]))
        elif k == "load":
            def go():
                r = self.f.load(self.pth(op[1])) if op[1] is not None else self.f.load()
                return str(int(r))

            self.rec(f"L:{self.ptok(op[1])}", go)
        elif k == "load_if_changed":
            self.rec("LC", lambda: str(int(self.f.load_if_changed())))
        elif k == "reopen":
            self.reopen(op[1], op[2], op[3])
        elif k == "save":
            self.rec(f"SV:{self.ptok(op[1])}", lambda: self.f.save(self.pth(op[1])) if op[1] is not None else self.f.save())
        elif k == "set_path":
            def go():
                self.f.path = self.pth(op[1])

            self.rec(f"P:{self.ptok(op[1])}", go)
        elif k == "mtime":
            self.rec("M", lambda: self.show_mtime())
        elif k == "export":
            self.rec("T", lambda: hx(self.f.to_string()))
        elif k == "env_write":
            self.rec(f"EW:{op[1]}:{hx(op[2])}:{op[3]}", lambda: self.env_write_raw(op[1], op[2], op[3]))
        elif k == "env_remove":
            def go():
                if os.path.exists(self.pth(op[1])):
                    os.unlink(self.pth(op[1]))

            self.rec(f"ER:{op[1]}", go)
        elif k == "tick":
            def go():
                self.clock.now += op[1]

            self.rec(f"ET:{op[1]}", go)
        else:
            raise AssertionError(op)

    def show_mtime(self):
        m = self.f.mtime
        assert m == int(m), m
        return str(int(m))

    def show_fs(self):
        items = []
        for p in range(16):
            fp = self.pth(p)
            if os.path.exists(fp):
                m = os.path.getmtime(fp)
                assert m == int(m), (fp, m)
                with builtins.open(fp, "rb") as fh:
                    items.append(f"{p}/{hx(fh.read())}/{int(m)}")
        return "fs " + (",".join(items) or "-")

    def finish(self):
        if self.f is not None:
            self.outs.append("ok " + hx(self.f.to_string()))
            self.outs.append("ok " + self.show_mtime())
            self.outs.append(self.show_fs())
        vau = ";".join(f"{hx(p)},{hx(h)},{int(ok)},{'~' if new is None else hx(new)}" for (p, h), (ok, new) in self.vau.items()) or "-"
        return (self.head % vau) + " " + " ".join(self.ops), " | ".join(self.outs)


CONTENTS = [
    b"",
    b"u1:h1\n",
    b"# comment\n\nu1:h1\n  \nu2:h2\n# tail comment\n",
    b"u1:h1\nu1:hdup\nu2:h2\n\n   \n",
    b"u2:h2\n   # indented comment\nu1:h1",
    b"u1:h1\n# tail comment without newline",
    b"u1:{MD5}X03MO1qnZdYdgyfeuILPmQ==\nu2:pw2\n",          # ldap_md5 of "pw1" (deprecated: upgraded on check), plaintext
    b"u3:h3\n\n\n",
    b"u1\n",            # malformed
    b"u1:h1\nbroken\n",  # malformed after a good line
]
CONTENTS_DIGEST = [
    b"",
    b"u1:r1:d1\n",
    b"# c\nu1:r1:d1\nu1:r2:d2\n\nu2:r1:d3\n# t\n",
    b"u1:r1:d1\nu1:r1:ddup\nu2:r2:d4",
    b"u2:r2:d9\n\n\n",
    b"u1:h1\n",          # malformed for htdigest
    b"u1:r1:d1\nbroken\n",
]
MTIMES = [-7, 0, 1, 5, 5, 100, 100, 1000, 1_700_000_000]


def gen_history(rng, digest, length):
    users = ["u1", "u2", "u3", "#u4", "bad:name", ""]
    realms = ["r1", "r2"]
    contents = CONTENTS_DIGEST if digest else CONTENTS
    ops = []
    for _ in range(length):
        x = rng.random()
        pth = rng.choice([None, None, 0, 0, 1, 2, 3])
        if x < 0.20:
            u = rng.choice(users[:4] if rng.random() < 0.9 else users)
            h = rng.choice(["hA", "hB", "hC " if rng.random() < 0.1 else "hD", "{MD5}X03MO1qnZdYdgyfeuILPmQ=="])
            if digest:
                h = rng.choice(["d" * 4, "e" * 32, "0123456789abcdef0123456789abcdef"])
            ops.append(("set_hash", u, rng.choice(realms) if digest else None, h))
        elif x < 0.25:
            ops.append(("set_pw", rng.choice(users[:3]), rng.choice(realms) if digest else None, rng.choice(["pw1", "pw2"])))
        elif x < 0.33:
            ops.append(("delete", rng.choice(users[:4]), rng.choice(realms) if digest else None))
        elif x < 0.36 and digest:
            ops.append(("delete_realm", rng.choice(realms)))
        elif x < 0.42 and not digest:
            ops.append(("check", rng.choice(users[:3]), rng.choice(["pw1", "pw2"])))
        elif x < 0.46:
            ops.append(("load_string", rng.choice(contents)))
        elif x < 0.54:
            ops.append(("load", pth))
        elif x < 0.68:
            ops.append(("load_if_changed",))
        elif x < 0.72:
            ops.append(("reopen", rng.choice([None, 0, 0, 1, 3]), rng.random() < 0.3, rng.random() < 0.5))
        elif x < 0.80:
            ops.append(("save", pth))
        elif x < 0.83:
            ops.append(("set_path", rng.choice([None, 0, 1, 3])))
        elif x < 0.86:
            ops.append(("mtime",))
        elif x < 0.88:
            ops.append(("export",))
        elif x < 0.96:
            ops.append(("env_write", rng.choice([0, 0, 0, 1, 2]), rng.choice(contents), "MT"))
        elif x < 0.98:
            ops.append(("env_remove", rng.choice([0, 1, 2])))
        else:
            ops.append(("tick", rng.choice([-3, 0, 1, 1, 7, 1000])))
    return ops


def run_case(s_m, tmp, cobj, digest, fs, now, ctor, ops, rng, tag):
    sim = FileSim(digest, tmp, fs, now, cobj)
    try:
        if sim.ctor(*ctor):
            for op in ops:
                if op[0] == "env_write" and op[3] == "MT":
                    # the other process's mtime: equal to the remembered one / to the clock / older / newer
                    cell = int(sim.f.mtime)
                    cur = int(os.path.getmtime(sim.pth(op[1]))) if os.path.exists(sim.pth(op[1])) else 0
                    m = rng.choice([cell, cell, cur, sim.clock.now, cell - 1, cell + 1, rng.choice(MTIMES)])
                    op = (op[0], op[1], op[2], m)
                sim.apply(op)
                if op[0] in ("tick",) or rng.random() < 0.3:
                    pass
        line, ans = sim.finish()
        for o, a in zip(sim.ops, sim.outs):
            k = o.split(":")[0]
            a = a if (k in ("LC", "N", "L", "SV", "LS") or a.startswith("err")) else "ok"
            if k == "EW" and sim.f is not None:
                a = "ok"
            s_m.dist[f"op {k}: {a}"] += 1
    finally:
        sim.close()
    s_m.add_raw(line, ans, tag)


def directed(digest):
    """the situations named by the task, one history each (class-independent shapes; hashes adapted)"""
    A, B = (b"u1:r1:d1\n", b"u2:r2:d2\n") if digest else (b"u1:h1\n", b"u2:h2\n")
    r = "r1" if digest else None
    sh = ("set_hash", "u9", r, "d9" if digest else "h9")
    return [
        # autosave: every mutator writes the bound file
        ({0: (A, 5)}, 10, (0, False, True), [sh, ("mtime",), ("delete", "u1", r), ("tick", 3), sh, ("load_if_changed",)]),
        # explicit save is a copy: cell and bound file untouched, unsaved edit survives load_if_changed
        ({0: (A, 5)}, 10, (0, False, False), [sh, ("save", 1), ("mtime",), ("load_if_changed",), ("export",)]),
        # explicit save onto the bound path itself: cell not refreshed -> next load_if_changed reloads
        ({0: (A, 5)}, 10, (0, False, False), [sh, ("save", 0), ("mtime",), ("load_if_changed",), ("load_if_changed",)]),
        # replaced with equal / older / newer mtime
        ({0: (A, 5)}, 10, (0, False, False), [("env_write", 0, B, 5), ("load_if_changed",), ("export",)]),
        ({0: (A, 5)}, 10, (0, False, False), [("env_write", 0, B, 4), ("load_if_changed",), ("load_if_changed",), ("export",)]),
        ({0: (A, 5)}, 10, (0, False, False), [("env_write", 0, B, 6), ("load_if_changed",), ("load_if_changed",), ("export",)]),
        # file with mtime 0 (the epoch): the cell stays falsy, every load_if_changed reloads
        ({0: (A, 0)}, 10, (0, False, False), [("load_if_changed",), ("load_if_changed",), ("mtime",)]),
        # missing files: constructor, load, load_if_changed, after removal
        ({}, 10, (0, False, False), []),
        ({}, 10, (0, True, True), [("load_if_changed",), ("load",  None), sh, ("load_if_changed",), ("env_remove", 0), ("load_if_changed",), ("load", None)]),
        ({0: (A, 5)}, 10, (None, False, True), [sh, ("save", None), ("load", None), ("load_if_changed",), ("load", 0), ("mtime",), ("save", 2), ("set_path", 2), ("load_if_changed",)]),
        # malformed replacement: the cell is updated before the parse fails, records stay; second call says "unchanged"
        ({0: (A, 5)}, 10, (0, False, False), [("env_write", 0, b"broken\n", 8), ("load_if_changed",), ("mtime",), ("load_if_changed",), ("export",)]),
        # load_string zeroes the cell (even when it fails) and does not autosave
        ({0: (A, 5)}, 10, (0, False, True), [("load_string", B), ("mtime",), ("load_if_changed",), ("load_string", b"broken\n"), ("mtime",)]),
        # save / load round trip drops trailing blank lines (export differs, records equal)
        ({0: (A + b"\n\n" + B, 5)}, 10, (0, False, False), [("delete", "u2", "r2" if digest else None), ("save", None), ("export",), ("load", None), ("export",)]),
        # path setter
        ({0: (A, 5), 1: (B, 5)}, 10, (0, False, False), [("set_path", 0), ("mtime",), ("set_path", 1), ("mtime",), ("load_if_changed",), ("export",)]),
    ]


def model_suite(ctx, s_m):
    import logging

    from .C16 import quick_ctx

    logging.disable(logging.WARNING)
    warnings.simplefilter("ignore")
    rng = ctx.rng
    cobj = quick_ctx()
    tmp = tempfile.mkdtemp(prefix="c16file")
    try:
        for digest in (False, True):
            cls = "digest" if digest else "passwd"
            for fs, now, ctor, ops in directed(digest):
                run_case(s_m, tmp, cobj, digest, fs, now, ctor, ops, rng, f"{cls}:directed")
            contents = CONTENTS_DIGEST if digest else CONTENTS
            n = 400 if not ctx.thorough else 6000
            for i in range(n):
                fs = {}
                for p in range(3):
                    if rng.random() < (0.8 if p == 0 else 0.4):
                        fs[p] = (rng.choice(contents), rng.choice(MTIMES))
                now = rng.choice([-2, 3, 50, 100, 1000, 1_700_000_123])
                autosave = rng.random() < 0.5
                ctor = (rng.choice([None, 0, 0, 0, 1, 3]), rng.random() < 0.25, autosave)
                ops = gen_history(rng, digest, rng.choice([3, 6, 10, 16]))
                run_case(s_m, tmp, cobj, digest, fs, now, ctor, ops, rng,
                         f"{cls}:{'autosave' if autosave else 'manual'}:{'new' if ctor[1] else 'bound' if ctor[0] is not None else 'unbound'}")
    finally:
        shutil.rmtree(tmp, ignore_errors=True)


def correspond(ctx):
    s_m = Suite(ctx, "file-side-model", batch=2000)
    model_suite(ctx, s_m)
    return s_m.result()


if __name__ == "__main__":
    import argparse
    import json
    import sys
    import time

    here = os.path.dirname(os.path.dirname(os.path.abspath(__file__)))
    sys.path.insert(0, here)
    sys.path.insert(0, os.environ.get("PASSLIB_REPO", "/repo"))
    from runner import Ctx

    ap = argparse.ArgumentParser()
    ap.add_argument("--thorough", action="store_true")
    ap.add_argument("--seed", type=int, default=1)
    a = ap.parse_args()
    ctx = Ctx("C16", "thorough" if a.thorough else "quick", a.seed)
    t0 = time.time()
    res = correspond(ctx)
    print(json.dumps({"cases": res["cases"], "mismatches": len(res["mismatches"]), "unmodelled": res["unmodelled"], "seconds": round(time.time() - t0, 1)}))
    for k, v in res["distribution"].items():
        print(f"  {k}: {v}")
    for m in res["mismatches"][:25]:
        print("MISMATCH", json.dumps(m)[:1500])
    sys.exit(1 if res["mismatches"] else 0)
