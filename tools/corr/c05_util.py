"""C03 / C05 — the compiled models of the byte/text helpers under the crypt() back ends (lean/PasslibVerif/Model/PyUtil.lean,
driver suite `putil`) against the REAL functions of passlib.utils in the source tree at $PASSLIB_REPO:
repeat_string, utf8_repeat_string, utf8_truncate, safe_crypt, test_crypt.

* utf8_truncate / utf8_repeat_string / repeat_string: every cut position (negative ones and positions beyond the end included) of
  strings mixing 1-/2-/3-/4-byte characters, of invalid UTF-8 (lone continuation bytes, truncated sequences, overlongs, surrogates
  encoded as bytes, 5-byte forms, 0xFF), str arguments, empty sources.
* safe_crypt / test_crypt: `passlib.utils._crypt` is replaced by a recorder — around the real `legacycrypt.crypt` (its answer is
  carried on the protocol line) and around fake answers (None, "", "*0", "*1", "!", ":", a valid hash, a non-ASCII string, bytes,
  OSError, another exception).  The arguments the recorder saw are part of the compared answer.

    cd <verif> && PASSLIB_REPO=/tmp/repo_clean /venv/bin/python -m tools.corr.c05_util [--thorough] [--seed N] [--only a,b]
"""
from __future__ import annotations

import os
import random
import sys
import warnings

if __name__ == "__main__":
    _here = os.path.dirname(os.path.abspath(__file__))
    sys.path.insert(0, os.path.dirname(_here))
sys.path.insert(0, os.environ.get("PASSLIB_REPO", "/repo"))

from .common import Suite, hx  # noqa: E402

LEAN_TARGETS = ["PasslibVerif.Props.C05Util"]
GROUPS = ["trunc", "repeat", "urepeat", "scrypt", "tcrypt"]


def cps(s) -> str:
    return ",".join(str(ord(c)) for c in s) if s else "-"


def arg(v) -> str:
    return ("t:" + cps(v)) if isinstance(v, str) else ("b:" + hx(bytes(v)))


def ename(e: BaseException) -> str:
    for cls in (UnicodeDecodeError, UnicodeEncodeError, ZeroDivisionError, AssertionError, TypeError, ValueError):
        if isinstance(e, cls):
            return cls.__name__
    return "Other0"


def ans(thunk, conv) -> str:
    try:
        return "ok " + conv(thunk())
    except Exception as e:  # noqa: BLE001
        return "err " + ename(e)


VALID_TEXTS = ["", "a", "abc", "é", "€", "𝄞", "aé€𝄞", "𝄞€éa", "é€𝄞é€𝄞", "a𝄞b𝄞c", "€€€", "𝄞𝄞", "éééé", "pässwörd",
               "\x00", "a\x00é", "\x7f\x80߿ࠀ￿\U00010000\U0010ffff", "日本語のパスワード", "x" * 9 + "𝄞"]
INVALID_BYTES = [b"\x80", b"\xbf", b"a\x80", b"\x80\x80\x80\x80\x80", b"a\x80\x80\x80\x80\x80b", b"\xc3", b"a\xc3", b"\xe2\x82", b"\xf0\x9d\x84",
                 b"\xc0\x80", b"\xc1\xbf", b"\xe0\x80\x80", b"\xf0\x80\x80\x80", b"\xed\xa0\x80", b"\xed\xbf\xbf", b"\xf4\x90\x80\x80",
                 b"\xf8\x88\x80\x80\x80", b"\xff", b"\xfe\xff", b"a\xffb", b"\xc3\x28", b"\xe2\x28\xa1", b"ab\xe2\x82\xac\x80\x80\x80\x80cd",
                 b"\xf0\x9d\x84\x9e\x80", b"\xc3\xa9\xc3", b"\x80\xc3\xa9", b"p\xe4ss"]


def model_suite(ctx, s_m, only=None):
    warnings.simplefilter("ignore")
    import passlib.utils as U

    want = set(only or GROUPS)
    th = ctx.tier == "thorough"
    rng = random.Random(ctx.seed)
    chars = ["a", "Z", "é", "ß", "€", "語", "𝄞", "\U0010ffff"]
    texts = list(VALID_TEXTS)
    for _ in range(60 if th else 12):
        texts.append("".join(rng.choice(chars) for _ in range(rng.randint(1, 9))))
    byte_srcs = [t.encode() for t in texts] + list(INVALID_BYTES)
    for _ in range(200 if th else 30):
        byte_srcs.append(bytes(rng.choice([0x61, 0x80, 0xBF, 0xC3, 0xA9, 0xE2, 0x82, 0xAC, 0xF0, 0x9D, 0x84, 0x9E, 0xFF, 0xC0, 0xED, 0xA0])
                               for _ in range(rng.randint(1, 10))))

    # ---- utf8_truncate ----------------------------------------------------------------------------------------------------
    if "trunc" in want:
        for b in byte_srcs:
            for n in range(-len(b) - 3, len(b) + 6):
                s_m.add_raw(f"putil trunc {arg(b)} {n}", ans(lambda: U.utf8_truncate(b, n), hx), "trunc")
        for t in ["", "abc", "é"]:
            for n in (-1, 0, 1, 5):
                s_m.add_raw(f"putil trunc {arg(t)} {n}", ans(lambda: U.utf8_truncate(t, n), hx), "trunc-text")
    # ---- repeat_string ----------------------------------------------------------------------------------------------------
    if "repeat" in want:
        srcs = [t for t in texts if len(t) <= 6] + [b for b in byte_srcs if len(b) <= 6] + ["", b""]
        try:
            from libpass._utils.str import repeat_string as lp_repeat      # libpass' own copy of the same function
        except ImportError:
            lp_repeat = None
        for s in srcs:
            for n in list(range(-len(s) - 3, 3 * len(s) + 5)) + [72, 73, 255]:
                s_m.add_raw(f"putil repeat {arg(s)} {n}", ans(lambda: U.repeat_string(s, n), arg), "repeat")
                if lp_repeat is not None:
                    s_m.add_raw(f"putil repeat {arg(s)} {n}", ans(lambda: lp_repeat(s, n), arg), "repeat-libpass")
    # ---- utf8_repeat_string -----------------------------------------------------------------------------------------------
    if "urepeat" in want:
        srcs = [b for b in byte_srcs if len(b) <= 12] + [b"", "", "abc", "é"]
        for s in srcs:
            for n in list(range(-len(s) - 2, 3 * len(s) + 5)) + [70, 71, 72, 73, 74]:
                s_m.add_raw(f"putil urepeat {arg(s)} {n}", ans(lambda: U.utf8_repeat_string(s, n), hx), "urepeat")
    # ---- safe_crypt / test_crypt ------------------------------------------------------------------------------------------
    if "scrypt" in want or "tcrypt" in want:
        import legacycrypt

        assert U.has_crypt and U._crypt is legacycrypt.crypt, "passlib.utils._crypt is not legacycrypt.crypt"
        real = U._crypt
        calls = []

        class Boom(Exception):
            pass

        def recorder(answer):
            """answer: ('real',) | ('ret', value) | ('raise', exception)"""
            def f(secret, hash):
                calls.append((secret, hash))
                if answer[0] == "ret":
                    return answer[1]
                if answer[0] == "raise":
                    raise answer[1]
                try:
                    r = real(secret, hash)
                except Exception as e:  # noqa: BLE001
                    seen.append(("raise", e))
                    raise
                seen.append(("ret", r))
                return r
            return f

        seen = []

        def cret(a) -> str:
            if a[0] == "raise":
                return "O" if isinstance(a[1], OSError) else "E:" + ename(a[1])
            v = a[1]
            return "N" if v is None else arg(v)

        def show_calls():
            return "calls=" + (";".join(cps(s) + "/" + cps(h) for s, h in calls) if calls else "-")

        def run(kind, secret, hash, answer):
            """call the real safe_crypt / test_crypt with _crypt replaced; the line carries what crypt did (if it was called)"""
            calls.clear()
            seen.clear()
            U._crypt = recorder(answer)
            try:
                fn = U.safe_crypt if kind == "scrypt" else U.test_crypt
                conv = (lambda r: "None" if r is None else cps(r)) if kind == "scrypt" else (lambda r: "True" if r is True else "False" if r is False else repr(r))
                out = ans(lambda: fn(secret, hash), conv)
            finally:
                U._crypt = real
            assert all(isinstance(s, str) and isinstance(h, str) for s, h in calls), calls
            eff = answer if answer[0] != "real" else (seen[0] if seen else ("ret", None))   # never called: any answer will do
            s_m.add_raw(f"putil {kind} {arg(secret)} {arg(hash)} {cret(eff)}", show_calls() + " " + out,
                        kind + ":" + (answer[0] if answer[0] == "real" else "fake"))

        secrets = ["", "password", "pässwörd", "𝄞€éa", b"", b"password", "pässwörd".encode(), "𝄞€éa".encode(), b"p\xe4ss", b"\xff", b"\xc3", b"\xed\xa0\x80", b"\xc0\x80",
                   "\x00", "ab\x00cd", "\x00ab", "ab\x00", b"\x00", b"ab\x00cd", b"\x00ab", b"ab\x00", b"\xff\x00", b"ab\x00\xe4", "é\x00".encode(),
                   "a\ud800b", "\udfff", "\ud800\x00", "x" * 300, b"y" * 300, "語" * 100]
        secrets += [t for t in texts[:25]] + byte_srcs[-12:]
        hashes = ["ab", "$1$abcdefgh$", "$5$rounds=1000$saltsalt$", "$6$saltsalt$", "$2b$04$......................", "", "*0", "_", "$9$unknown$", "ab\x00", "é", "$1$é$",
                  b"ab", b"$1$abcdefgh$", b"", b"\xe9", b"$1$\xc3\xa9$", "a"]
        fakes = [("ret", None), ("ret", ""), ("ret", "*0"), ("ret", "*1"), ("ret", "!"), ("ret", ":"), ("ret", ":0"), ("ret", "!!"), ("ret", "*"),
                 ("ret", "abJnggxhB/yWI"), ("ret", "$1$abcdefgh$G//4keteveJp0qb8z2DxG/"), ("ret", "hé$sh"), ("ret", "é"), ("ret", " *0"), ("ret", "x*"),
                 ("ret", b"abJnggxhB/yWI"), ("ret", b""), ("ret", b"*0"), ("ret", b"!x"), ("ret", b"h\xc3\xa9"), ("ret", b"\xff"),
                 ("raise", OSError(22, "Invalid argument")), ("raise", PermissionError(1, "x")), ("raise", Boom("x")), ("raise", ValueError("embedded null character")),
                 ("raise", UnicodeEncodeError("utf-8", "\ud800", 0, 1, "surrogates not allowed"))]
        for kind in ("scrypt", "tcrypt"):
            if kind not in want:
                continue
            for sec in secrets:
                for h in hashes:
                    run(kind, sec, h, ("real",))
                for f in fakes:
                    for h in (["ab", b"ab", b"\xe9", ""] if kind == "scrypt" else ["abJnggxhB/yWI", "$1$abcdefgh$G//4keteveJp0qb8z2DxG/", "*0", "", b"abJnggxhB/yWI", "é", "hé$sh"]):
                        run(kind, sec, h, f)
            # test_crypt on genuine (secret, hash) pairs made by the real crypt()
            if kind == "tcrypt":
                for sec in ["password", "pässwörd", "", b"password", "pässwörd".encode()]:
                    for cfg in ["ab", "$1$abcdefgh$", "$5$rounds=1000$saltsalt$", "$6$rounds=1000$saltsalt$"]:
                        good = real(sec.decode() if isinstance(sec, bytes) else sec, cfg)
                        if good:
                            run(kind, sec, good, ("real",))
                            run(kind, sec, good[:-1] + ("." if good[-1] != "." else "/"), ("real",))
    return s_m.result()


if __name__ == "__main__":
    import argparse
    import json
    import time

    sys.path.insert(0, os.path.dirname(os.path.dirname(os.path.abspath(__file__))))
    from runner import Ctx  # type: ignore

    ap = argparse.ArgumentParser()
    ap.add_argument("--thorough", action="store_true")
    ap.add_argument("--seed", type=int, default=1)
    ap.add_argument("--only", default="")
    a = ap.parse_args()
    import passlib

    assert os.path.realpath(passlib.__file__).startswith(os.path.realpath(os.environ.get("PASSLIB_REPO", "/repo"))), passlib.__file__
    cx = Ctx("C05util", "thorough" if a.thorough else "quick", a.seed)
    t0 = time.time()
    sm = Suite(cx, "c05-util-model")
    model_suite(cx, sm, [x for x in a.only.split(",") if x] or None)
    res = sm.result()
    print(json.dumps({"cases": res["cases"], "mismatches": len(res["mismatches"]), "unmodelled": res["unmodelled"],
                      "seconds": round(time.time() - t0, 1), "passlib": os.path.dirname(passlib.__file__)}))
    for m in res["mismatches"][:12]:
        print("MISMATCH", json.dumps(m)[:700])
    print(json.dumps(res["distribution"], indent=0)[:6000])
    sys.exit(1 if res["mismatches"] else 0)
