"""C13 — one-time codes follow RFC 4226 / RFC 6238."""
from __future__ import annotations

import datetime
import hashlib
import hmac as std_hmac
import struct

from .common import Oracle, Suite, errname, hx, merge

GEN_UNITS = ["Totp", "PyUnicode", "B64", "TotpAll"]
LEAN_TARGETS = ["PasslibVerif.Props.C13", "PasslibVerif.Props.C13Time"]
ASSUMPTIONS = [
    "hashlib (OpenSSL) SHA-1/256/512 are external; the HMAC construction around them is proved equal to RFC 2104 for an abstract digest",
    "calendar.timegm / datetime arithmetic are modelled (Model.TotpTime, both the pure-Python and the C implementation) and compared with the interpreter on every run; the wall clock (time=None) is a parameter; floats are exact ratios (IEEE rounding at construction is outside the model)",
]
EXPLANATION = (
    "Theorems: dynamic truncation = RFC 4226 DT for every digest >= 20 bytes; rendered token = zero-padded decimal of DT mod 10^d with "
    "exactly d digits; counter = floor(t/p) and the validity interval; base32/hex keys round-trip and agree; separators and case are ignored. "
    "Correspondence: real TOTP objects (keys 1..64 bytes x 3 algorithms x digits 6..10 x periods x times to 2^40, date-times) against the "
    "compiled model and an independent RFC implementation."
)


def rfc_hotp(key, counter, alg, digits):
    d = std_hmac.new(key, struct.pack(">Q", counter), getattr(hashlib, alg)).digest()
    o = d[-1] & 0xF
    v = struct.unpack(">I", d[o:o + 4])[0] & 0x7FFFFFFF
    return str(v % 10 ** digits).zfill(digits), d


def days_from_civil(y, m, d):
    y -= m <= 2
    era = (y if y >= 0 else y - 399) // 400
    yoe = y - era * 400
    doy = (153 * (m + (-3 if m > 2 else 9)) + 2) // 5 + d - 1
    doe = yoe * 365 + yoe // 4 - yoe // 100 + doy
    return era * 146097 + doe - 719468


def _time_forms(rng, ts):
    """the same instant as int, float, naive UTC datetime and aware datetimes in assorted zones"""
    forms = [("int", ts), ("float", ts + rng.choice([0.0, 0.25, 0.5, 0.999])),
             ("naive-dt", datetime.datetime(1970, 1, 1) + datetime.timedelta(seconds=ts))]
    for mins in (0, 330, -480, 1, -1, 765, rng.randrange(-720, 721)):
        tz = datetime.timezone(datetime.timedelta(minutes=mins))
        forms.append((f"aware-dt{mins:+d}m", datetime.datetime.fromtimestamp(ts, tz)))
    return forms


def _gen(t, tm):
    try:
        g = t.generate(tm)
        return (g.token, g.expire_time, g.start_time)
    except Exception as e:  # noqa: BLE001
        return (errname(e),)


def scenarios(rng, rounds):
    """yield (tag, input, observed, expected) for real-code checks that the line protocol does not carry:
    every representation of an instant gives the RFC token of that instant, and objects sharing a key but not an algorithm
    (all kept alive, generated in every order) each give their own RFC value."""
    from passlib.totp import TOTP

    for _ in range(rounds):
        key = rng.randbytes(rng.randrange(1, 65))
        digits = rng.randrange(6, 11)
        period = rng.choice([1, 30, 60, rng.randrange(1, 3601)])
        ts = rng.choice([rng.randrange(0, 1 << 33), rng.randrange(0, 86400), period * rng.randrange(1, 1 << 26), 59, 0, 0, period - 1, period])
        algs = ["sha1", "sha256", "sha512"]
        rng.shuffle(algs)
        alive = []
        for alg in algs:
            t = TOTP(key=key, format="raw", alg=alg, digits=digits, period=period)
            want, _ = rfc_hotp(key, ts // period, alg, digits)
            exp = (want, (ts // period + 1) * period, (ts // period) * period)
            got = _gen(t, ts)
            alive.append((t, alg, got))
            yield ("same-key-other-alg", {"op": "shared-key", "key": key.hex(), "order": list(algs), "alg": alg, "digits": digits, "period": period, "time": ts}, got, exp)
        # second pass over the still-living objects in reverse
        for t, alg, _g in reversed(alive):
            want, _ = rfc_hotp(key, ts // period, alg, digits)
            exp = (want, (ts // period + 1) * period, (ts // period) * period)
            yield ("same-key-other-alg-again", {"op": "shared-key", "key": key.hex(), "order": list(algs), "alg": alg, "digits": digits, "period": period, "time": ts, "pass": 2}, _gen(t, ts), exp)
        t, alg, _g = alive[0]
        want, _ = rfc_hotp(key, ts // period, alg, digits)
        exp = (want, (ts // period + 1) * period, (ts // period) * period)
        for tag, val in _time_forms(rng, ts):
            yield ("time-aware-dt" if tag.startswith("aware") else "time-" + tag,
                   {"op": "generate", "key": key.hex(), "alg": alg, "digits": digits, "period": period, "time": ts, "time_form": tag, "value": repr(val)}, _gen(t, val), exp)
        del alive
        # a live object whose key is replaced after it has produced a token follows the new key
        k2 = rng.randbytes(rng.randrange(1, 65))
        t = TOTP(key=key, format="raw", alg=algs[0], digits=digits, period=period)
        before = _gen(t, ts)
        t.key = k2
        want, _ = rfc_hotp(k2, ts // period, algs[0], digits)
        exp = (want, (ts // period + 1) * period, (ts // period) * period)
        yield ("key-replaced-after-first-token", {"op": "key-replaced", "old_key": key.hex(), "new_key": k2.hex(), "alg": algs[0], "digits": digits, "period": period, "time": ts,
                                                 "token_before": before[0]}, _gen(t, ts), exp)


def key_spelling_cases(rng, thorough=False):
    """every way the library itself writes a key down, and every blank a user may paste with it, denotes the same key: yields
    (tag, input, observed, expected).  Key sizes 1..70 (every residue of the 4/5/6-symbol groups of pretty_key)."""
    import passlib.totp as pt
    from passlib.totp import TOTP

    blanks = [" ", "\t", "\n", "\u00a0", "\u2009", "\u3000", "\u2003", "\u0085", "\u202f", "\u1680", "\u2028"]
    sizes = list(range(1, 71)) if thorough else sorted(set(list(range(1, 34)) + [40, 48, 62, 63, 64, 65, 70]))
    for n in sizes:
        key = rng.randbytes(n)
        t = TOTP(key=key, format="raw")
        for fmt in ("base32", "hex"):
            for sep in ("-", " ", False, "\u00a0"):
                inp = {"op": "pretty-key", "key": key.hex(), "format": fmt, "sep": repr(sep)}
                try:
                    text = t.pretty_key(format=fmt, sep=sep)
                    got = TOTP(key=text, format=fmt).key.hex()
                except Exception as e:  # noqa: BLE001
                    got = errname(e) + ": " + str(e)[:80]
                yield ("pretty-key-denotes-the-key", inp, got, key.hex())
            plain = t.base32_key if fmt == "base32" else t.hex_key
            b = rng.choice(blanks)
            i = rng.randrange(0, len(plain) + 1)
            for text in (plain[:i] + b + plain[i:], b + plain + b, b.join(plain[j:j + 4] for j in range(0, len(plain), 4))):
                inp = {"op": "key-with-blank", "key": key.hex(), "format": fmt, "blank": "U+%04X" % ord(b), "text": text}
                try:
                    got = pt._decode_bytes(text, fmt).hex()
                except Exception as e:  # noqa: BLE001
                    got = errname(e) + ": " + str(e)[:80]
                yield ("blanks-in-key-ignored", inp, got, key.hex())


def interleaved_cases(rng, rounds):
    """Another caller's complete generate() between any two steps of this one (what a second thread scheduled at that point does): scratch
    state shared through the module or the class would show as a token of the wrong time step.  The interleaving is forced, not hoped
    for: a trace function runs the other call at every function entry and every line of passlib/totp.py reached by the first."""
    import sys

    from passlib.totp import TOTP

    for _ in range(rounds):
        alg = rng.choice(["sha1", "sha256", "sha512"])
        key = rng.randbytes(rng.randrange(10, 33))
        digits = rng.randrange(6, 9)
        period = rng.choice([30, 30, 60, rng.randrange(1, 600)])
        tm = rng.randrange(0, 1 << 36)
        t = TOTP(key=key, format="raw", alg=alg, digits=digits, period=period)
        other = TOTP(key=rng.randbytes(20), format="raw", alg=rng.choice(["sha1", "sha256", "sha512"]), digits=rng.randrange(6, 9), period=rng.choice([30, 45]))
        t2 = rng.randrange(0, 1 << 36)
        use_match = rng.random() < 0.3
        busy = [False]
        ran = [0]

        def other_call():
            if busy[0]:
                return
            busy[0] = True
            try:
                ran[0] += 1
                other.generate(t2)
            finally:
                busy[0] = False

        def local(frame, event, arg):
            if event == "line" and not busy[0]:
                other_call()
            return local

        def tracer(frame, event, arg):
            if event != "call" or busy[0]:
                return None
            fn = frame.f_code.co_filename
            if "/passlib/" not in fn:
                return None
            other_call()
            return local if fn.endswith("totp.py") else None

        want, _ = rfc_hotp(key, tm // period, alg, digits)
        inp = {"op": "interleaved", "key": key.hex(), "alg": alg, "digits": digits, "period": period, "time": tm, "call": "match" if use_match else "generate"}
        sys.settrace(tracer)
        try:
            if use_match:
                try:
                    m = t.match(want, tm, window=0)
                    got = ("accepted", m.counter)
                except Exception as e:  # noqa: BLE001
                    got = (errname(e), None)
                exp = ("accepted", tm // period)
            else:
                g = t.generate(tm)
                got = (g.token, g.counter)
                exp = (want, tm // period)
        except Exception as e:  # noqa: BLE001
            got, exp = (errname(e), None), (want, tm // period)
        finally:
            sys.settrace(None)
        yield ("interleaved-callers", dict(inp, other_calls=ran[0]), got, exp)


def correspond(ctx):
    import warnings

    import passlib.totp as pt
    from passlib.totp import TOTP

    warnings.simplefilter("ignore")
    rng = ctx.rng
    s_tok = Suite(ctx, "tokens")
    s_cnt = Suite(ctx, "counters-intervals")
    s_key = Suite(ctx, "keys")
    n = 4000 if not ctx.thorough else 100000
    # RFC 6238 appendix B first
    rfc = [(59, "94287082", "sha1"), (1111111109, "07081804", "sha1"), (1234567890, "89005924", "sha1"), (20000000000, "65353130", "sha1"),
           (59, "46119246", "sha256"), (59, "90693936", "sha512"), (2000000000, "38618901", "sha512")]
    seeds = {"sha1": b"12345678901234567890", "sha256": b"12345678901234567890123456789012", "sha512": b"1234567890123456789012345678901234567890123456789012345678901234"}
    for tm, want, alg in rfc:
        t = TOTP(key=seeds[alg], format="raw", alg=alg, digits=8, period=30)
        _, dig = rfc_hotp(seeds[alg], tm // 30, alg, 8)
        s_tok.add(f"totp dt {hx(dig)} 8", lambda t=t, tm=tm: t.generate(tm).token, "rfc6238-vector")
        assert t.generate(tm).token == want, (tm, alg)
    for _ in range(n):
        alg = rng.choice(["sha1", "sha256", "sha512"])
        key = rng.randbytes(rng.randrange(1, 65))
        digits = rng.randrange(6, 11)
        period = rng.choice([1, 2, 15, 30, 60, 3600, rng.randrange(1, 3601)])
        tm = rng.choice([rng.randrange(0, 1 << 40), rng.randrange(0, 200), period * rng.randrange(0, 1 << 30), period * rng.randrange(1, 1 << 30) - 1])
        t = TOTP(key=key, format="raw", alg=alg, digits=digits, period=period)
        want, dig = rfc_hotp(key, tm // period, alg, digits)
        # model: truncation+rendering on the digest the real HMAC produced
        s_tok.add(f"totp dt {hx(dig)} {digits}", lambda t=t, tm=tm: t.generate(tm).token, "token")
        # independent RFC implementation as a third column (reported as a mismatch of the suite)
        s_tok.add(f"totp dt {hx(dig)} {digits}", lambda want=want: want, "rfc-reference")
        # whole token through the Lean HMAC + SHA transcriptions (no Python digest in the loop)
        s_tok.add(f"totp token {alg} {hx(key)} {digits} {tm // period}", lambda t=t, tm=tm: t.generate(tm).token, "whole-token")
        s_cnt.add(f"totp counter {tm} {period}", lambda t=t, tm=tm: (lambda g: f"{g.counter} {g.start_time} {g.expire_time}")(t.generate(tm)), "counter")
        s_cnt.add(f"totp pack64 {tm // period}", lambda tm=tm, period=period: hx(struct.pack(">Q", tm // period)), "pack64")
    # floats and date-times normalise to the same integer second
    for _ in range(n // 4):
        ts = rng.randrange(0, 1 << 33)
        t = TOTP(key=b"k" * 20, format="raw")
        dt_naive = datetime.datetime(1970, 1, 1) + datetime.timedelta(seconds=ts)
        tz = datetime.timezone(datetime.timedelta(minutes=rng.randrange(-720, 721)))
        dt_aware = datetime.datetime.fromtimestamp(ts, tz)
        civil = days_from_civil(dt_naive.year, dt_naive.month, dt_naive.day) * 86400 + dt_naive.hour * 3600 + dt_naive.minute * 60 + dt_naive.second
        for val, tag in ((ts + rng.random(), "float"), (dt_naive, "naive-dt"), (dt_aware, "aware-dt")):
            s_cnt.add(f"totp counter {civil} 30", lambda t=t, val=val: (lambda g: f"{g.counter} {g.start_time} {g.expire_time}")(t.generate(val)), tag)
    # keys
    for _ in range(n // 4):
        key = rng.randbytes(rng.randrange(1, 65))
        t = TOTP(key=key, format="raw")
        s_key.add(f"totp hexkey {hx(key)}", lambda t=t: t.hex_key, "hex_key")
        s_key.add(f"totp b32key {hx(key)}", lambda t=t: t.base32_key, "base32_key")
        for fmt, text in (("hex", t.hex_key), ("base32", t.base32_key)):
            variants = [text, text.lower(), text.upper(), " ".join(text), "-".join(text[i:i + 4] for i in range(0, len(text), 4)),
                        text + "=" * rng.randrange(0, 7), "\t" + text + "\n", t.pretty_key(format=fmt), t.pretty_key(format=fmt, sep=" ")]
            if fmt == "base32":
                variants.append(text.replace("B", "8").replace("O", "0"))
            # malformed: foreign character, odd length, truncated
            variants += [text[:-1], text + "!", text[: len(text) // 2] + "é" + text[len(text) // 2:], text + "1", "", "9" + text]
            for v in variants:
                cps = ",".join(str(ord(c)) for c in v) or "-"
                s_key.add(f"totp key {fmt} {cps}", lambda v=v, fmt=fmt: hx(pt._decode_bytes(v, fmt)), f"key-{fmt}")
    o_sc = Oracle(ctx, "time-forms-and-shared-keys")
    for tag, inp, got, exp in scenarios(rng, 150 if not ctx.thorough else 5000):
        o_sc.check(tag, got == exp, inp, got, exp)
    for tag, inp, got, exp in key_spelling_cases(rng, ctx.thorough):
        o_sc.check(tag, got == exp, inp, got, exp)
    for tag, inp, got, exp in interleaved_cases(rng, 30 if not ctx.thorough else 600):
        o_sc.check(tag, got == exp, inp, got, exp)
    # date-times, floats and the calendar under them: Model.TotpTime vs TOTP.normalize_time / calendar.timegm / datetime (both implementations)
    from . import c13_time

    s_time = Suite(ctx, "normalize-time-and-calendar")
    c13_time.model_suite(ctx, s_time)
    return merge(s_tok, s_cnt, s_key, o_sc, s_time)


def search(ctx, broken, seeds):
    import warnings

    from passlib.totp import TOTP

    warnings.simplefilter("ignore")
    rng = ctx.rng
    for tag, inp, got, exp in scenarios(rng, 400 if not ctx.thorough else 5000):
        if got != exp:
            return {"input": inp, "observed": got, "expected": exp, "check": tag}
    for tag, inp, got, exp in key_spelling_cases(rng, ctx.thorough):
        if got != exp:
            return {"input": inp, "observed": got, "expected": exp, "check": tag}
    for tag, inp, got, exp in interleaved_cases(rng, 40 if not ctx.thorough else 600):
        if got != exp:
            return {"input": inp, "observed": got, "expected": exp, "check": tag}
    for _ in range(20000 if not ctx.thorough else 300000):
        alg = rng.choice(["sha1", "sha256", "sha512"])
        key = rng.randbytes(rng.randrange(1, 65))
        digits = rng.randrange(6, 11)
        period = rng.choice([1, 30, 60, rng.randrange(1, 3601)])
        tm = rng.choice([rng.randrange(0, 1 << 40), period * rng.randrange(0, 1 << 30), period * rng.randrange(1, 1 << 30) - 1])
        t = TOTP(key=key, format="raw", alg=alg, digits=digits, period=period)
        want, _ = rfc_hotp(key, tm // period, alg, digits)
        try:
            g = t.generate(tm)
            got = (g.token, g.expire_time, g.start_time)
        except Exception as e:  # noqa: BLE001
            got = (errname(e),)
        exp = (want, (tm // period + 1) * period, (tm // period) * period)
        if got != exp:
            return {"input": {"op": "generate", "key": key.hex(), "alg": alg, "digits": digits, "period": period, "time": tm}, "observed": got, "expected": exp}
        for fmt, text in (("hex", t.hex_key), ("base32", t.base32_key)):
            for v in (text, text.lower(), " ".join(text), "-".join(text[i:i + 4] for i in range(0, len(text), 4))):
                try:
                    k2 = TOTP(key=v, format=fmt).key
                except Exception as e:  # noqa: BLE001
                    return {"input": {"op": "key", "format": fmt, "text": v, "key_bytes": len(key)}, "observed": errname(e) + ": " + str(e)[:80], "expected": key.hex()}
                if k2 != key:
                    return {"input": {"op": "key", "format": fmt, "text": v}, "observed": k2.hex(), "expected": key.hex()}
    return None


def replay(ctx, inp):
    if inp.get("op") == "negative-fractional-time":
        from passlib.totp import TOTP

        t = TOTP(key=b"k" * 20, format="raw")
        try:
            g = t.generate(inp["time"])
            return {"fails": not (g.start_time <= inp["time"] < g.expire_time), "observed": {"counter": g.counter, "start": g.start_time, "expire": g.expire_time}}
        except ValueError as e:
            return {"fails": False, "observed": "refused: " + str(e)}
    r = search(ctx, [], [])
    return {"fails": r is not None, "observed": r}
