"""fresh-process worker for C03: executes one history of backend operations on the real hashers and prints one JSON list.
stdin: {"ops": [[kind, cls, arg...], ...]}   — nothing is imported from passlib before the first op runs."""
import json
import sys
import warnings

warnings.simplefilter("ignore")
sys.path.insert(0, sys.argv[1])

SALT22 = "abcdefghijklmnopqrstuO"          # bcrypt salt with clean padding bits
FIX = {
    "md5_crypt": dict(salt="saltsalt"), "sha1_crypt": dict(salt="saltsalt", rounds=7), "sha256_crypt": dict(salt="saltsalt", rounds=1042),
    "sha512_crypt": dict(salt="saltsalt", rounds=1043), "des_crypt": dict(salt="ab"), "bsdi_crypt": dict(salt="abcd", rounds=7),
    "bcrypt": dict(salt=SALT22, rounds=4, ident="2b"), "bcrypt_sha256": dict(salt=SALT22, rounds=4), "django_bcrypt": dict(salt=SALT22, rounds=4),
    "django_bcrypt_sha256": dict(salt=SALT22, rounds=4), "scrypt": dict(salt=b"saltsalt", rounds=4, block_size=1, parallelism=1),
}


def errname(e):
    import passlib.exc as X

    for cls, nm in ((X.MissingBackendError, "MissingBackendError"), (X.PasslibSecurityError, "PasslibSecurityError"), (ValueError, "ValueError"),
                    (AssertionError, "AssertionError"), (TypeError, "TypeError")):
        if isinstance(e, cls):
            return nm
    return type(e).__name__


def main():
    req = json.load(sys.stdin)
    out = []
    for op in req["ops"]:
        kind, name = op[0], op[1]
        try:
            from passlib import registry

            h = registry.get_crypt_handler(name)
            if kind == "set":
                r = h.set_backend(op[2], dryrun=bool(op[3]))
                out.append("ok " + str(r))
            elif kind == "get":
                out.append("ok " + str(h.get_backend()))
            elif kind == "has":
                out.append("ok " + str(h.has_backend(op[2])))
            elif kind == "calci":
                # a checksum with an explicit ident (bcrypt family): [kind, name, secret-hex, ident]
                hs = h.using(**dict(FIX[name], ident=op[3])).hash(bytes.fromhex(op[2]))
                out.append("ok " + str(getattr(h, "wrapped", h).get_backend()) + " " + hs)
            elif kind in ("calc", "calcnu"):
                secret = bytes.fromhex(op[2])
                if kind == "calcnu":
                    # a secret crypt() cannot take: used unless bcrypt's active backend is (or would become) os_crypt, whose refusal is a recorded finding
                    owner = getattr(h, "wrapped", h)
                    cur = None
                    for c in getattr(owner, "__mro__", ()):
                        cur = cur or c.__dict__.get("_BackendMixin__backend")
                    if cur in (None, "os_crypt"):
                        secret = b"pw2"
                hs = h.using(**FIX[name]).hash(secret)
                target = getattr(h, "wrapped", h)
                out.append("ok " + str(target.get_backend()) + " " + hs)
            else:
                out.append("bad")
        except Exception as e:  # noqa: BLE001
            out.append("err " + errname(e))
    json.dump(out, sys.stdout)


main()
