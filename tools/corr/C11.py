"""C11 — the built-in cryptographic primitives equal their standards."""
from __future__ import annotations

import hashlib
import hmac as std_hmac
import os
import subprocess
import warnings

from .common import Oracle, Suite, errname, hx, merge

GEN_UNITS = ["Des", "Totp", "Blowfish", "Scrypt", "B64", "Md4", "CryptoDigest", "Saslprep"]
LEAN_TARGETS = ["PasslibVerif.Props.C11", "PasslibVerif.Props.C11Blowfish", "PasslibVerif.Props.C11Scrypt", "PasslibVerif.Props.C11Md4", "PasslibVerif.Props.C11Saslprep"]
ASSUMPTIONS = [
    "hashlib/OpenSSL digests, hashlib.pbkdf2_hmac and hashlib.scrypt are external; the Lean Spec/* transcriptions are validated against them on every run",
    "stringprep / unicodedata tables used by saslprep are CPython's (atoms)",
]
EXPLANATION = (
    "Theorems: passlib's table-driven salted multi-round DES = FIPS 46-3 construction for every key/block/salt/rounds (all tables reflected "
    "each run, 512 SPE entries + OR-linearity of IE/CF/PCXROT pinned in the kernel), key expansion/shrink inverse, parity ignored; "
    "compile_hmac = RFC 2104 for an abstract digest and every key length; pbkdf1 = RFC 8018. Correspondence: compiled model and specs vs "
    "passlib.crypto.des, OpenSSL legacy DES-ECB, hashlib, passlib's md4/compile_hmac/pbkdf1/pbkdf2_hmac. "
    "SASLprep (Props.C11Saslprep), for every text and every normaliser: the statement-order model of passlib.utils.saslprep — driven by the table list, "
    "mapping tables and bidi branch structure the translator reads from the source on every run, over the 13 stringprep tables reflected from the "
    "interpreter — equals RFC 4013 read directly over RFC 3454 (mapping, prohibited output, the three-part bidi rule: passlib's first-character "
    "shortcut is equivalent on every string); accepted output contains no prohibited character and is bidi-correct; the two asserts fire iff the "
    "normaliser produced a B.1 / C.1.2 character first (impossible under NfkcClean, which is checked exhaustively on the interpreter); idempotent; "
    "identity on printable ASCII; table facts (sorted, D.1 and D.2 disjoint, ten small tables literally the RFC's lists). Compiled model AND spec vs the real function."
)
ONLY_CORRESPONDENCE = ["unicodedata.normalize(NFKC) inside saslprep (external: a parameter of the model; its one assumption, NfkcClean, is checked exhaustively on the interpreter)"]


def struct_salsa(blk: bytes) -> str:
    import struct

    from passlib.crypto.scrypt._salsa import salsa20

    return struct.pack("<16I", *salsa20(struct.unpack("<16I", blk))).hex()


def des_err(o):
    if o == "ok":
        return "ok "
    return "err ValueError" if o.startswith("err ") else o


def openssl_des(key: int, block: int) -> int | None:
    try:
        p = subprocess.run(["openssl", "enc", "-des-ecb", "-provider", "legacy", "-provider", "default", "-nopad", "-K", "%016x" % key],
                           input=block.to_bytes(8, "big"), capture_output=True, timeout=20)
        if p.returncode != 0 or len(p.stdout) != 8:
            return None
        return int.from_bytes(p.stdout, "big")
    except Exception:  # noqa: BLE001
        return None


def correspond(ctx):
    warnings.simplefilter("ignore")
    import passlib.crypto.des as pd
    from passlib.crypto import digest as pdg
    from passlib.crypto._md4 import md4 as pmd4

    rng = ctx.rng
    s_des = Suite(ctx, "des-model-vs-passlib", model_canon=des_err)
    s_spec = Suite(ctx, "des-spec-vs-passlib-and-openssl")
    s_dig = Suite(ctx, "digest-specs-vs-hashlib")
    s_mac = Suite(ctx, "hmac-pbkdf-vs-passlib")
    n = 1500 if not ctx.thorough else 30000
    cases = []
    for _ in range(n):
        cases.append((rng.getrandbits(64), rng.getrandbits(64), rng.choice([0, rng.getrandbits(24), rng.getrandbits(12)]), rng.choice([1, 1, 2, 5, 25, rng.randrange(1, 30)])))
    for b in range(64):
        cases += [(1 << b, rng.getrandbits(64), 0, 1), (rng.getrandbits(64), 1 << b, 0, 1)]
    for sbit in range(24):
        cases.append((0x0123456789ABCDEF, 0, 1 << sbit, 1))
    fixed_k, fixed_b = rng.getrandbits(64), rng.getrandbits(64)
    for s in range(0, 4096, 1 if ctx.thorough else 7):
        cases.append((fixed_k, fixed_b, s, 1))
    cases += [(0, 0, 0, 1), ((1 << 64) - 1, (1 << 64) - 1, (1 << 24) - 1, 25), (1 << 64, 0, 0, 1), (0, 1 << 64, 0, 1), (0, 0, 1 << 24, 1), (0, 0, 0, 0)]
    for k, b, s, r in cases:
        s_des.add(f"des model {k} {b} {s} {r}", lambda k=k, b=b, s=s, r=r: str(pd.des_encrypt_int_block(k, b, s, r)), "int-block")
        if k < 1 << 64 and b < 1 << 64 and s < 1 << 24 and r >= 1:
            s_spec.add(f"des spec {k} {b} {s} {r}", lambda k=k, b=b, s=s, r=r: str(pd.des_encrypt_int_block(k, b, s, r)), "spec")
    for _ in range(300):
        k56 = rng.getrandbits(56)
        s_des.add(f"des expand {k56}", lambda k56=k56: str(pd.expand_des_key(k56)), "expand")
        k64 = rng.getrandbits(64)
        s_des.add(f"des shrink {k64}", lambda k64=k64: str(pd.shrink_des_key(k64)), "shrink")
        kb = rng.randbytes(rng.choice([7, 8, 8, 7, 6, 9]))
        ib = rng.randbytes(rng.choice([8, 8, 8, 7, 9]))
        s_des.add(f"des block {hx(kb)} {hx(ib)} 0 1", lambda kb=kb, ib=ib: hx(pd.des_encrypt_block(kb, ib)), "bytes-block")
        s_des.add(f"des expandb {hx(kb[:7])}", lambda kb=kb: hx(pd.expand_des_key(kb[:7])), "expand-bytes")
    # independent: OpenSSL legacy DES-ECB vs the FIPS transcription
    ossl = 0
    for _ in range(25 if not ctx.thorough else 200):
        k, b = rng.getrandbits(64), rng.getrandbits(64)
        want = openssl_des(k, b)
        if want is None:
            break
        ossl += 1
        s_spec.add(f"des specplain {k} {b}", lambda want=want: str(want), "openssl")
    # digest specs
    for alg in ("md5", "sha1", "sha224", "sha256", "sha384", "sha512"):
        for ln in list(range(0, 150)) + [255, 256, 257, 1000]:
            m = rng.randbytes(ln)
            s_dig.add(f"digest {alg} {hx(m)}", lambda alg=alg, m=m: hashlib.new(alg, m).hexdigest(), alg)
    for ln in range(0, 200):
        m = rng.randbytes(ln)
        s_dig.add(f"digest md4 {hx(m)}", lambda m=m: pmd4(m).hexdigest(), "md4-passlib")
    # passlib's pure-Python MD4 object (Model/Md4.lean, expressions regenerated from _md4.py): one-shot, streaming, copy()
    for ln in list(range(0, 140)) + [191, 192, 193, 255, 256, 1000]:
        m = rng.randbytes(ln)
        s_dig.add(f"md4 oneshot {hx(m)}", lambda m=m: pmd4(m).hexdigest(), "md4-model-oneshot")
    for _ in range(400 if not ctx.thorough else 6000):
        k = rng.choice([2, 2, 3, 4])
        parts = [rng.randbytes(rng.choice([0, 1, 7, 55, 56, 63, 64, 65, 119, 120, 127, 128, 129, rng.randrange(0, 200)])) for _ in range(k)]

        def split(parts=parts):
            h = pmd4()
            for p in parts:
                h.update(p)
                h.digest()          # digest() must not disturb the state
            return h.hexdigest()

        s_dig.add("md4 split " + " ".join(hx(p) for p in parts), split, "md4-model-split")
    for _ in range(150 if not ctx.thorough else 2000):
        a, b, c = (rng.randbytes(rng.choice([0, 1, 55, 56, 63, 64, 65, 128, rng.randrange(0, 150)])) for _ in range(3))

        def fork(a=a, b=b, c=c):
            h = pmd4(a)
            g = h.copy()
            k = h.copy()
            h.update(b)
            g.update(c)
            return f"{h.hexdigest()} {g.hexdigest()} {k.hexdigest()}"

        s_dig.add(f"md4 fork {hx(a)} {hx(b)} {hx(c)}", fork, "md4-model-fork")
    # HMAC (passlib's compile_hmac) and PBKDF1/2 (passlib entry points) vs the RFC transcriptions over the Lean digests
    for alg, B in (("md5", 64), ("sha1", 64), ("sha256", 64), ("sha512", 128), ("md4", 64)):
        for kl in sorted({0, 1, B - 1, B, B + 1, 2 * B, 2 * B + 3, rng.randrange(0, 3 * B), rng.randrange(0, 3 * B)}):
            key, msg = rng.randbytes(kl), rng.randbytes(rng.randrange(0, 100))
            s_mac.add(f"digest hmac {alg} {hx(key)} {hx(msg)}", lambda alg=alg, key=key, msg=msg: pdg.compile_hmac(alg, key)(msg).hex(), "compile_hmac")
        for _ in range(6):
            pw, salt = rng.randbytes(rng.randrange(0, 80)), rng.randbytes(rng.randrange(0, 40))
            rounds = rng.choice([1, 2, 3, 10, 50])
            D = pdg.lookup_hash(alg).digest_size
            kl = rng.randrange(0, D + 1)
            s_mac.add(f"digest pbkdf1 {alg} {hx(pw)} {hx(salt)} {rounds} {kl}", lambda alg=alg, pw=pw, salt=salt, rounds=rounds, kl=kl: pdg.pbkdf1(alg, pw, salt, rounds, kl).hex(), "pbkdf1")
            if alg != "md4":
                kl2 = rng.choice([1, D - 1, D, D + 1, 2 * D + 5])
                s_mac.add(f"digest pbkdf2 {alg} {hx(pw)} {hx(salt)} {rounds} {kl2}", lambda alg=alg, pw=pw, salt=salt, rounds=rounds, kl2=kl2: pdg.pbkdf2_hmac(alg, pw, salt, rounds, kl2).hex(), "pbkdf2")
    # ---- Blowfish / bcrypt core: compiled model (unrolled + base engines) and spec vs passlib's raw_bcrypt and the bcrypt wheel
    from passlib.crypto._blowfish import raw_bcrypt

    try:
        import bcrypt as wheel
    except Exception:  # noqa: BLE001
        wheel = None
    s_bf = Suite(ctx, "bcrypt-core", model_canon=des_err)
    B64C = "./ABCDEFGHIJKLMNOPQRSTUVWXYZabcdefghijklmnopqrstuvwxyz0123456789"
    lens = list(range(0, 74)) if ctx.thorough else [0, 1, 2, 7, 8, 17, 55, 56, 71, 72, 73]
    wheel_checked = 0
    for ln in lens:
        for ident in (["2", "2a", "2b", "2y"] if ctx.thorough else [rng.choice(["2a", "2b", "2y"]), "2"]):
            cost = rng.choice([4, 4, 5]) if not ctx.thorough else rng.choice([4, 5, 6])
            pw = bytes(rng.randrange(1, 256) for _ in range(ln))
            salt = "".join(rng.choice(B64C) for _ in range(21)) + rng.choice(".Oeu")
            op = rng.choice(["raw", "rawbase", "spec"])
            s_bf.add(f"bf {op} {hx(pw)} {ident} {salt} {cost}", lambda pw=pw, ident=ident, salt=salt, cost=cost: raw_bcrypt(pw, ident, salt.encode(), cost).decode(), op)
            if wheel is not None and ident != "2" and ln <= 72 and 0 not in pw:
                wheel_checked += 1
                s_bf.add(f"bf spec {hx(pw)} {ident} {salt} {cost}", lambda pw=pw, ident=ident, salt=salt, cost=cost: wheel.hashpw(pw, f"${ident}${cost:02d}${salt}".encode())[-31:].decode(), "bcrypt-wheel")
    for bad in (("2x", 4), ("3", 4), ("2a", 3), ("2a", 32)):
        s_bf.add(f"bf raw 7077 {bad[0]} {'.' * 22} {bad[1]}", lambda bad=bad: raw_bcrypt(b"pw", bad[0], b"." * 22, bad[1]).decode(), "errors")
    s_bf.add("bf raw 7077 2a ........ 4", lambda: raw_bcrypt(b"pw", "2a", b"." * 8, 4).decode(), "errors")
    # ---- scrypt: compiled model and RFC transcription vs passlib's builtin engine and hashlib.scrypt
    from passlib.crypto.scrypt import _builtin as sb
    from passlib.crypto import scrypt as ps

    s_sc = Suite(ctx, "scrypt", model_canon=des_err)
    for _ in range(60 if not ctx.thorough else 1200):
        n = 1 << rng.randrange(1, 8 if not ctx.thorough else 11)
        r = rng.randrange(1, 5 if not ctx.thorough else 9)
        p = rng.randrange(1, 3 if not ctx.thorough else 5)
        kl = rng.choice([1, 16, 31, 32, 33, 64, 65, 130])
        pw, salt = rng.randbytes(rng.randrange(0, 40)), rng.randbytes(rng.randrange(0, 20))
        s_sc.add(f"scrypt run {hx(pw)} {hx(salt)} {n} {r} {p} {kl}", lambda pw=pw, salt=salt, n=n, r=r, p=p, kl=kl: sb.ScryptEngine.execute(pw, salt, n, r, p, kl).hex(), "model-vs-builtin")
        s_sc.add(f"scrypt spec {hx(pw)} {hx(salt)} {n} {r} {p} {kl}", lambda pw=pw, salt=salt, n=n, r=r, p=p, kl=kl: hashlib.scrypt(pw, salt=salt, n=n, r=r, p=p, dklen=kl, maxmem=1 << 30).hex(), "spec-vs-hashlib")
    for _ in range(100):
        blk = rng.randbytes(64)
        s_sc.add(f"scrypt salsa {hx(blk)}", lambda blk=blk: struct_salsa(blk), "salsa")
    for n, r, p in [(16, 8, 1), (15, 8, 1), (0, 1, 1), (1, 1, 1), (2, 1, 1), (-16, 8, 1), (16, 0, 1), (16, 1, 0), (1 << 20, 1 << 15, 1 << 15), (16, 1 << 29, 2), (16, 1 << 29, 1), (24, 1, 1), (1 << 40, 1, 1)] + [(rng.randrange(-4, 70), rng.randrange(-1, 10), rng.randrange(-1, 10)) for _ in range(300)]:
        s_sc.add(f"scrypt validate {n} {r} {p}", lambda n=n, r=r, p=p: (ps.validate(n, r, p), "")[1].strip(), "validate")
    o_big = Oracle(ctx, "builtin-scrypt-vs-openssl-large-parameters")
    for tag, inp, ok, obs, exp in scrypt_large_cases(ctx.rng, ctx.thorough):
        o_big.check(tag, ok, inp, obs, exp)
    o_sasl = saslprep_oracle(ctx)
    o_mp = Oracle(ctx, "hmac-multipart-and-bcrypt-boundaries")
    for gen in (hmac_multipart_cases(rng, 40 if not ctx.thorough else 1500), bcrypt_core_cases(rng)):
        for tag, inp, ok, obs, exp in gen:
            o_mp.check(tag, ok, inp, obs, exp)
    from . import c11_saslprep

    s_sasl = Suite(ctx, "saslprep-model-and-spec-vs-passlib")
    c11_saslprep.model_suite(ctx, s_sasl)
    o_nfkc = c11_saslprep.nfkc_clean_oracle(ctx)
    res = merge(s_des, s_spec, s_dig, s_mac, s_bf, s_sc, o_sasl, o_mp, s_sasl, o_nfkc, o_big)
    res["suites"]["bcrypt-core"]["bcrypt_wheel_cases"] = wheel_checked
    res["suites"]["des-spec-vs-passlib-and-openssl"]["openssl_pairs"] = ossl
    return res


# ------------------------------------------------------------------------------------------
def scrypt_large_cases(rng, thorough=False):
    """the pure-Python scrypt engine against OpenSSL's (hashlib.scrypt) where n*r is large (memory-saving strategies, if any, kick in there)
    and for every small shape of (n, r, p); yields (tag, input, ok, observed, expected)"""
    import hashlib

    from passlib.crypto.scrypt import _builtin as sb

    big = [(2048, 8, 1), (8192, 2, 1), (1024, 16, 1), (16384, 1, 1)] + ([(4096, 8, 1), (16384, 2, 1), (2048, 8, 2), (512, 32, 1)] if thorough else [])
    small = [(1 << a, r, p) for a in (1, 2, 5) for r in (1, 2, 3, 8) for p in (1, 2)]
    for n, r, p in big + small:
        pw, salt = rng.randbytes(rng.randrange(0, 24)), rng.randbytes(rng.randrange(0, 16))
        inp = {"op": "scrypt-large", "n": n, "r": r, "p": p, "secret": pw.hex(), "salt": salt.hex()}
        try:
            got = sb.ScryptEngine.execute(pw, salt, n, r, p, 32).hex()
        except Exception as e:  # noqa: BLE001
            got = errname(e) + ": " + str(e)[:80]
        want = hashlib.scrypt(pw, salt=salt, n=n, r=r, p=p, dklen=32, maxmem=1 << 30).hex()
        yield ("scrypt-builtin-vs-openssl", inp, got == want, got, want)


def md4_spec_cases(ctx):
    """passlib's MD4 against the Lean transcription of RFC 1320 (compiled driver) at every length 0..200: (input, observed, expected) of the first difference"""
    from passlib.crypto._md4 import md4 as pmd4

    msgs = [ctx.rng.randbytes(ln) for ln in range(0, 201)]
    outs = ctx.model([f"digest md4 {hx(m)}" for m in msgs])
    for m, o in zip(msgs, outs):
        if o.startswith("ok ") and pmd4(m).hexdigest() != o[3:]:
            return {"input": {"op": "md4-vs-rfc1320", "message": m.hex(), "length": len(m)}, "observed": pmd4(m).hexdigest(), "expected": o[3:] + "  (Lean transcription of RFC 1320)"}
    return None


def saslprep_oracle(ctx, first_only=False):
    """passlib.utils.saslprep against an independent reading of RFC 4013 over the stdlib stringprep tables"""
    from passlib.utils import saslprep as real_saslprep

    from .C02_formats import py_saslprep
    from .common import Oracle

    rng = ctx.rng
    o_sasl = Oracle(ctx, "saslprep-vs-rfc4013")
    pool = ["a", "Z", "9", " ", "\u00a0", "\u1680", "\u3000", "\u00ad", "\u200b", "\u200c", "\ufe0f", "\u2060", "\ufb01", "\u2460", "\u00aa", "\u0041\u030a", "\u212b",
            "\u0627", "\u0628", "\u05d0", "\u05d1", "\ufb1d", "\ufc5e", "\u0661", "\u06f1", "1", "\u0000", "\u007f", "\u0080", "\ue000", "\ufffe", "\ufeff", "\u0221", "\u0340",
            "\u200e", "\u202a", "\ud7ff", "\U000e0001", "\U0001d11e", "\u00df", "\u0130", "\u03c2", "x",
            # standalone combining marks and conjoining jamo: with a mapped-to-nothing character in between, the order map -> normalise shows
            "e", "\u0301", "\u0308", "\u0323", "\u030a", "\u1100", "\u1161", "\u11a8", "\u200d", "\ufe00"]
    fixed = ["", "\u0627\u0628\u00ad", "\u0627\ufc5e", "\ufb1d", "\u0627a\u0628", "a\u0627", "\u0627 1 \u0628", "\u00ad", "\u00ad\u00ad", "\u0627\u200c", "\u05d0\ufe0f", "I\u00adX",
             "\u2168", "user\u00a0name", "cafe\u00ad\u0301", "e\u200d\u0301", "\u1100\u200b\u1161", "\u1100\u1161\ufe0f\u11a8", "a\u00ad\u030a\u200b\u0323", "I\u2764\ufe0fU"]
    for t in fixed + ["".join(rng.choice(pool) for _ in range(rng.randrange(1, 7))) for _ in range(1500 if not ctx.thorough else 40000)]:
        try:
            want = ("ok", py_saslprep(t))
        except ValueError:
            want = ("err", "ValueError")
        try:
            got = ("ok", real_saslprep(t))
        except ValueError:
            got = ("err", "ValueError")
        except Exception as e:  # noqa: BLE001
            got = ("err", errname(e))
        o_sasl.check("saslprep:" + want[0], got == want, {"op": "saslprep", "text": [ord(c) for c in t]}, list(got), list(want))
        if first_only and o_sasl.mismatches:
            break
    return o_sasl


def ref_des():
    """independent FIPS 46-3 DES (+ crypt(3) salt/rounds) in plain Python, used by the search oracle"""
    IP = [58,50,42,34,26,18,10,2,60,52,44,36,28,20,12,4,62,54,46,38,30,22,14,6,64,56,48,40,32,24,16,8,57,49,41,33,25,17,9,1,59,51,43,35,27,19,11,3,61,53,45,37,29,21,13,5,63,55,47,39,31,23,15,7]
    FP = [40,8,48,16,56,24,64,32,39,7,47,15,55,23,63,31,38,6,46,14,54,22,62,30,37,5,45,13,53,21,61,29,36,4,44,12,52,20,60,28,35,3,43,11,51,19,59,27,34,2,42,10,50,18,58,26,33,1,41,9,49,17,57,25]
    E = [32,1,2,3,4,5,4,5,6,7,8,9,8,9,10,11,12,13,12,13,14,15,16,17,16,17,18,19,20,21,20,21,22,23,24,25,24,25,26,27,28,29,28,29,30,31,32,1]
    P = [16,7,20,21,29,12,28,17,1,15,23,26,5,18,31,10,2,8,24,14,32,27,3,9,19,13,30,6,22,11,4,25]
    PC1 = [57,49,41,33,25,17,9,1,58,50,42,34,26,18,10,2,59,51,43,35,27,19,11,3,60,52,44,36,63,55,47,39,31,23,15,7,62,54,46,38,30,22,14,6,61,53,45,37,29,21,13,5,28,20,12,4]
    PC2 = [14,17,11,24,1,5,3,28,15,6,21,10,23,19,12,4,26,8,16,7,27,20,13,2,41,52,31,37,47,55,30,40,51,45,33,48,44,49,39,56,34,53,46,42,50,36,29,32]
    SH = [1,1,2,2,2,2,2,2,1,2,2,2,2,2,2,1]
    S = [
    [14,4,13,1,2,15,11,8,3,10,6,12,5,9,0,7,0,15,7,4,14,2,13,1,10,6,12,11,9,5,3,8,4,1,14,8,13,6,2,11,15,12,9,7,3,10,5,0,15,12,8,2,4,9,1,7,5,11,3,14,10,0,6,13],
    [15,1,8,14,6,11,3,4,9,7,2,13,12,0,5,10,3,13,4,7,15,2,8,14,12,0,1,10,6,9,11,5,0,14,7,11,10,4,13,1,5,8,12,6,9,3,2,15,13,8,10,1,3,15,4,2,11,6,7,12,0,5,14,9],
    [10,0,9,14,6,3,15,5,1,13,12,7,11,4,2,8,13,7,0,9,3,4,6,10,2,8,5,14,12,11,15,1,13,6,4,9,8,15,3,0,11,1,2,12,5,10,14,7,1,10,13,0,6,9,8,7,4,15,14,3,11,5,2,12],
    [7,13,14,3,0,6,9,10,1,2,8,5,11,12,4,15,13,8,11,5,6,15,0,3,4,7,2,12,1,10,14,9,10,6,9,0,12,11,7,13,15,1,3,14,5,2,8,4,3,15,0,6,10,1,13,8,9,4,5,11,12,7,2,14],
    [2,12,4,1,7,10,11,6,8,5,3,15,13,0,14,9,14,11,2,12,4,7,13,1,5,0,15,10,3,9,8,6,4,2,1,11,10,13,7,8,15,9,12,5,6,3,0,14,11,8,12,7,1,14,2,13,6,15,0,9,10,4,5,3],
    [12,1,10,15,9,2,6,8,0,13,3,4,14,7,5,11,10,15,4,2,7,12,9,5,6,1,13,14,0,11,3,8,9,14,15,5,2,8,12,3,7,0,4,10,1,13,11,6,4,3,2,12,9,5,15,10,11,14,1,7,6,0,8,13],
    [4,11,2,14,15,0,8,13,3,12,9,7,5,10,6,1,13,0,11,7,4,9,1,10,14,3,5,12,2,15,8,6,1,4,11,13,12,3,7,14,10,15,6,8,0,5,9,2,6,11,13,8,1,4,10,7,9,5,0,15,14,2,3,12],
    [13,2,8,4,6,15,11,1,10,9,3,14,5,0,12,7,1,15,13,8,10,3,7,4,12,5,6,11,0,14,9,2,7,11,4,1,9,12,14,2,0,6,10,13,15,3,5,8,2,1,14,7,4,10,8,13,15,12,9,0,3,5,6,11]]

    def perm(x, T, nin):
        out = 0
        for t in T:
            out = (out << 1) | ((x >> (nin - t)) & 1)
        return out

    def subkeys(key):
        cd = perm(key, PC1, 64)
        c, d = cd >> 28, cd & 0xFFFFFFF
        ks = []
        for s in SH:
            c = ((c << s) | (c >> (28 - s))) & 0xFFFFFFF
            d = ((d << s) | (d >> (28 - s))) & 0xFFFFFFF
            ks.append(perm((c << 28) | d, PC2, 56))
        return ks

    def f(r, k, salt):
        e = perm(r, E, 32)
        # crypt(3) salt: bit i of the salt swaps E-output bits i+1 and i+25 (1-based from the MSB)
        mask = 0
        for i in range(24):
            if (salt >> i) & 1:
                mask |= 1 << (23 - i)
        t = ((e >> 24) ^ e) & mask
        e ^= t ^ (t << 24)
        x = e ^ k
        out = 0
        for j in range(8):
            b = (x >> (42 - 6 * j)) & 63
            row = ((b >> 5) << 1) | (b & 1)
            out = (out << 4) | S[j][row * 16 + ((b >> 1) & 15)]
        return perm(out, P, 32)

    def crypt(key, block, salt, rounds):
        ks = subkeys(key)
        x = perm(block, IP, 64)
        l, r = x >> 32, x & 0xFFFFFFFF
        for _ in range(rounds):
            for k in ks:
                l, r = r, l ^ f(r, k, salt)
            l, r = r, l
        return perm((l << 32) | r, FP, 64)

    return crypt


def hmac_multipart_cases(rng, n=40):
    """compile_hmac(multipart=True): after any sequence of update() calls, every finalize() -- called once, repeatedly, or between updates --
    is RFC 2104 HMAC of the bytes fed so far; two message objects from one compiled key are independent.  (tag, input, ok, observed, expected)"""
    import hmac as std_hmac

    from passlib.crypto import digest as pdg

    for _ in range(n):
        alg = rng.choice(["md5", "sha1", "sha256", "sha512"])
        B = hashlib.new(alg).block_size
        key = rng.randbytes(rng.choice([0, 1, B - 1, B, B + 1, 2 * B + 3, rng.randrange(0, 3 * B)]))
        mk = pdg.compile_hmac(alg, key, multipart=True)
        up1, fin1 = mk()
        up2, fin2 = mk()
        fed1, fed2 = b"", b""
        steps = []
        for _k in range(rng.randrange(2, 9)):
            which = rng.choice(["u1", "f1", "f1", "u2", "f2"])
            steps.append(which)
            if which == "u1":
                c = rng.randbytes(rng.randrange(0, 70))
                up1(c)
                fed1 += c
            elif which == "u2":
                c = rng.randbytes(rng.randrange(0, 70))
                up2(c)
                fed2 += c
            else:
                fin, fed = (fin1, fed1) if which == "f1" else (fin2, fed2)
                got, want = fin().hex(), std_hmac.new(key, fed, alg).hexdigest()
                yield ("hmac-multipart", {"op": "hmac-multipart", "alg": alg, "key": key.hex(), "steps": list(steps), "fed": fed.hex()}, got == want, got, want)


def bcrypt_core_cases(rng):
    """raw_bcrypt for every ident at the boundary lengths (the empty password included): an answer, equal to the bcrypt wheel where the wheel
    implements the ident ($2a$/$2b$/$2y$; the legacy $2$ repeats the password without the NUL: a password whose repetition fills the 72 bytes exactly
    equals $2a$ of that 72-byte string)"""
    from passlib.crypto._blowfish import raw_bcrypt

    try:
        import bcrypt as wheel
    except Exception:  # noqa: BLE001
        wheel = None
    salt = "abcdefghijklmnopqrstuO"
    for ident in ("2", "2a", "2y", "2b"):
        for pw in (b"", b"a", b"ab" * 36, b"x" * 72, b"abc" * 24, b"p" * 71, bytes(range(1, 73))):
            inp = {"op": "raw-bcrypt", "ident": ident, "pwd": pw.hex(), "salt": salt, "cost": 4}
            try:
                got = raw_bcrypt(pw, ident, salt.encode(), 4).decode()
            except Exception as e:  # noqa: BLE001
                yield ("raw-bcrypt:answers", inp, False, errname(e) + ": " + str(e)[:60], "a digest")
                continue
            if wheel is None or 0 in pw:
                continue
            if ident != "2" and len(pw) <= 72:
                want = wheel.hashpw(pw, f"$2b$04${salt}".encode())[-31:].decode() if ident != "2a" else wheel.hashpw(pw, f"$2a$04${salt}".encode())[-31:].decode()
                yield ("raw-bcrypt:wheel", inp, got == want, got, want)
            elif ident == "2" and pw and 72 % len(pw) == 0:
                want = wheel.hashpw((pw * (72 // len(pw))), f"$2a$04${salt}".encode())[-31:].decode()
                yield ("raw-bcrypt:legacy-2-is-repetition", inp, got == want, got, want)


def search(ctx, broken, seeds):
    warnings.simplefilter("ignore")
    o = saslprep_oracle(ctx, first_only=True)
    if o.mismatches:
        m = o.mismatches[0]
        return {"input": m["input"], "observed": m["impl"], "expected": m["model"]}
    import passlib.crypto.des as pd
    from passlib.crypto import digest as pdg
    from passlib.crypto._md4 import md4 as pmd4

    rng = ctx.rng
    try:
        r = md4_spec_cases(ctx)
    except Exception:  # noqa: BLE001
        r = None
    if r:
        return r
    for gen in (hmac_multipart_cases(rng, 60), bcrypt_core_cases(rng), scrypt_large_cases(rng)):
        for tag, inp, ok, obs, exp in gen:
            if not ok:
                return {"input": inp, "observed": obs, "expected": exp, "check": tag}
    ref = ref_des()
    cases = [(rng.getrandbits(64), rng.getrandbits(64), rng.choice([0, rng.getrandbits(24)]), rng.choice([1, 1, 2, 25])) for _ in range(400)]
    cases += [(1 << b, 0x0123456789ABCDEF, 0, 1) for b in range(64)] + [(0x0123456789ABCDEF, 1 << b, 0, 1) for b in range(64)]
    cases += [(0x0123456789ABCDEF, 0, 1 << s, 1) for s in range(24)]
    for k, b, s, r in cases:
        got = pd.des_encrypt_int_block(k, b, s, r)
        want = ref(k, b, s, r)
        if got != want:
            return {"input": {"op": "des", "key": k, "block": b, "salt": s, "rounds": r}, "observed": got, "expected": want}
    for _ in range(200):
        k = rng.getrandbits(56)
        if pd.shrink_des_key(pd.expand_des_key(k)) != k:
            return {"input": {"op": "des-key-expand", "key56": k}, "observed": pd.shrink_des_key(pd.expand_des_key(k)), "expected": k}
    # RFC 1320 MD4 vectors + every split
    vec = {b"": "31d6cfe0d16ae931b73c59d7e0c089c0", b"a": "bde52cb31de33e46245e05fbdbd6fb24", b"abc": "a448017aaf21d8525fc10ae87aa6729d",
           b"message digest": "d9130a8164549fe818874806e1c7014b", b"12345678901234567890123456789012345678901234567890123456789012345678901234567890": "e33b4ddc9c38f2199c3e7b164fcc0536"}
    for m, want in vec.items():
        if pmd4(m).hexdigest() != want:
            return {"input": {"op": "md4", "message": m.hex()}, "observed": pmd4(m).hexdigest(), "expected": want}
    for ln in range(0, 200):
        m = rng.randbytes(ln)
        one = pmd4(m).digest()
        for cut in range(0, ln + 1, max(1, ln // 7)):
            h = pmd4()
            h.update(m[:cut])
            c = h.copy()
            c.update(m[cut:])
            h.update(m[cut:])
            if c.digest() != one or h.digest() != one or h.digest() != one:
                return {"input": {"op": "md4-split", "message": m.hex(), "cut": cut}, "observed": c.hexdigest(), "expected": one.hex()}
    for alg in ("md5", "sha1", "sha256", "sha512"):
        B = hashlib.new(alg).block_size
        for kl in (0, 1, B - 1, B, B + 1, 3 * B):
            key, msg = rng.randbytes(kl), rng.randbytes(33)
            if pdg.compile_hmac(alg, key)(msg) != std_hmac.new(key, msg, alg).digest():
                return {"input": {"op": "hmac", "alg": alg, "key": key.hex(), "msg": msg.hex()}, "observed": "differs from hmac module", "expected": "RFC 2104"}
        for rounds in (1, 2, 7):
            pw, salt = rng.randbytes(9), rng.randbytes(5)
            t = pw + salt
            for _ in range(rounds):
                t = hashlib.new(alg, t).digest()
            if pdg.pbkdf1(alg, pw, salt, rounds) != t:
                return {"input": {"op": "pbkdf1", "alg": alg, "rounds": rounds}, "observed": "differs", "expected": "RFC 8018 §5.1"}
    return None


def replay(ctx, inp):
    r = search(ctx, [], [])
    return {"fails": r is not None, "observed": r}
