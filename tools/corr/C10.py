"""C10 — context config survives export/import; a failed change changes nothing."""
from __future__ import annotations

import warnings

from .common import Oracle, Suite, errname, merge
from . import C04

GEN_UNITS = ["Ctx", "Handlers", "PyUnicode", "ContextConfig"]
LEAN_TARGETS = ["PasslibVerif.Props.C10", "PasslibVerif.Props.C10Ini", "PasslibVerif.Props.C10IniConfig"]
ASSUMPTIONS = [
    "configparser (INI reading/writing, '%' interpolation) is external; INI round trips are compared on the real code",
    "the statement skeleton of CryptContext.load is classified by the translator: a statement 'may raise' unless it is an assignment of call-free expressions or one of two whitelisted calls whose bodies are re-checked on every run",
]
EXPLANATION = (
    "Theorems: parse(render(key)) = key for every well-formed 3-part key (string level, '__' splitting), malformed keys are type errors, "
    "update() keeps every key it is not given and sets the ones it is given, and — on the statement skeleton of CryptContext.load regenerated "
    "from the source — no statement that may raise follows the first write to self. Correspondence/oracle: generated configurations through "
    "dict / INI / copy / update chains with decisions on a hash corpus, and fault enumeration: every kind of invalid change at every position and "
    "a hasher whose using() raises at the k-th call, after which to_dict()/to_string() and all decisions must equal the snapshot."
)

KNOWN = "float vary_rounds is rendered with two decimals in INI export (0.125 -> '0.12')"


def cps(s):
    return ",".join(str(ord(c)) for c in s) if s else "-"


def snapshot(c, corpus):
    out = {"dict": repr(sorted(c.to_dict().items(), key=repr)), "string": c.to_string()}
    dec = []
    for cat in (None, "admin"):
        try:
            dec.append(("default", cat, c.default_scheme(cat)))
        except Exception as e:  # noqa: BLE001
            dec.append(("default", cat, errname(e)))
        for hh in corpus:
            for f in ("identify", "needs_update"):
                try:
                    dec.append((f, cat, hh, getattr(c, f)(hh, category=cat)))
                except Exception as e:  # noqa: BLE001
                    dec.append((f, cat, hh, errname(e)))
    out["decisions"] = repr(dec)
    return out


def decisions_only(c, corpus):
    return snapshot(c, corpus)["decisions"]


def correspond(ctx):
    warnings.simplefilter("ignore")
    from passlib import registry
    from passlib.context import CryptContext
    import passlib.utils.handlers as uh

    rng = ctx.rng
    s_key = Suite(ctx, "config-keys")
    o_rt = Oracle(ctx, "export-import-roundtrip")
    o_fault = Oracle(ctx, "failed-change-changes-nothing")
    # ---- keys
    parts = ["admin", "staff", "sha256_crypt", "md5_crypt", "min_rounds", "default", "context", "all", "x", "a_b", "_a", "a_", "", "a.b", "schemes", "deprecated"]
    for _ in range(1500 if not ctx.thorough else 20000):
        k = rng.choice(["__", ".", "__", "_", "___"]).join(rng.choice(parts) for _ in range(rng.randrange(1, 5)))
        def f(k=k):
            cat, scheme, opt = CryptContext._parse_config_key(k)
            o = lambda v: "N" if v is None else cps(v)
            return f"{o(cat)} {o(scheme)} {cps(opt)}"
        s_key.add(f"ctxkey parse {cps(k)}", f, "parse")
    for _ in range(500):
        cat = rng.choice([None, "admin", "staff", "a_b"])
        scheme = rng.choice([None, "sha256_crypt", "all", "x"])
        opt = rng.choice(["min_rounds", "schemes", "default", "x"])
        o = lambda v: "N" if v is None else cps(v)
        s_key.add(f"ctxkey render {o(cat)} {o(scheme)} {cps(opt)}", lambda cat=cat, scheme=scheme, opt=opt: cps(CryptContext._render_config_key((cat, scheme, opt))), "render")
    # ---- corpus
    corpus = []
    for name in ("sha256_crypt", "md5_crypt", "des_crypt", "ldap_md5", "pbkdf2_sha256"):
        h = registry.get_crypt_handler(name)
        if "rounds" in h.setting_kwds:
            corpus += [h.using(rounds=r).hash("pw") for r in (1000, 1001, 3000)]
        else:
            corpus.append(h.hash("pw"))
    corpus.append("plain text")
    # ---- INI text and the (deprecated) float vary_rounds: every value two decimals can carry must come back as the same float
    for v in (1.0, "100%", 0.5, "50%", 0.1, 0.25, 0.05, "5%", 0.9, 0.01):
        for key in ("all__vary_rounds", "sha256_crypt__vary_rounds", "admin__sha256_crypt__vary_rounds"):
            kw = {"schemes": ["sha256_crypt", "md5_crypt"], key: v}
            try:
                c = CryptContext(**kw)
                c2 = CryptContext.from_string(c.to_string())
                same = repr(sorted(c2.to_dict().items())) == repr(sorted(c.to_dict().items()))
                o_rt.check("ini-float-vary", same, {"op": "ini-vary", "kwds": repr(kw)}, {"exported": c.to_string(), "reloaded": repr(c2.to_dict())}, "the same value and type")
            except Exception as e:  # noqa: BLE001
                o_rt.check("ini-float-vary", False, {"op": "ini-vary", "kwds": repr(kw)}, errname(e) + ": " + str(e)[:100], "round trip")
    # ---- typed scheme options through every export/import path: what the configured hasher DOES must survive (INI text carries no types:
    #      an explicit False, a small integer, an identifier must come back meaning the same)
    typed = [("des_crypt", "truncate_error", [True, False]), ("bcrypt", "truncate_error", [True, False]), ("bcrypt", "ident", ["2a", "2b", "2y"]),
             ("sha256_crypt", "salt_size", [0, 1, 8, 16]), ("sha512_crypt", "salt_size", [4]), ("md5_crypt", "salt_size", [0, 8]),
             ("bcrypt", "rounds", [4, 5]), ("sha256_crypt", "rounds", [1000, 5000]), ("bcrypt_sha256", "version", [1, 2]),
             ("scrypt", "block_size", [1, 8]), ("scrypt", "parallelism", [1, 2]), ("fshp", "variant", [0, 1, 2, 3]), ("unix_disabled", "marker", ["!", "*x"]),
             ("scram", "algs", ["sha-1,sha-256", "sha-1,md5"])]

    def behaviour(c, scheme, cat):
        h = c.handler(scheme, category=cat)
        out = {a: repr(getattr(h, a, None)) for a in ("truncate_error", "default_ident", "default_salt_size", "default_rounds", "version", "block_size", "parallelism",
                                                      "default_variant", "default_marker", "default_algs")}
        try:
            hs = h.using(**({"rounds": h.min_rounds} if "rounds" in (h.setting_kwds or ()) else {})).hash("x" * 100)
            out["long-secret"] = "hashed"
            out["ident"] = hs[:4] if scheme == "bcrypt" else ""
            out["salt-len"] = len(getattr(h.from_string(hs), "salt", "") or "")
        except Exception as e:  # noqa: BLE001
            out["long-secret"] = errname(e)
        return out

    for scheme, opt, values in typed:
        for v in values:
            for key, cat in ((f"{scheme}__{opt}", None), (f"admin__{scheme}__{opt}", "admin")):
                kw = {"schemes": [scheme, "md5_crypt"] if scheme != "md5_crypt" else ["md5_crypt", "des_crypt"], key: v}
                inp = {"op": "typed-option", "kwds": repr(kw)}
                try:
                    c = CryptContext(**kw)
                    want = behaviour(c, scheme, cat)
                except Exception as e:  # noqa: BLE001
                    o_rt.check("typed-option:construct", False, inp, errname(e) + ": " + str(e)[:100], "a usable context")
                    continue
                for how, mk in (("ini", lambda: CryptContext.from_string(c.to_string())), ("dict", lambda: CryptContext(**c.to_dict())), ("copy", c.copy),
                                ("ini-load", lambda: (lambda c2: (c2.load(c.to_string()), c2)[1])(CryptContext(schemes=["ldap_md5"]))),
                                ("ini-update", lambda: (lambda c2: (c2.update(c.to_string()), c2)[1])(CryptContext(schemes=[scheme]))),
                                ("ini-twice", lambda: CryptContext.from_string(CryptContext.from_string(c.to_string()).to_string()))):
                    try:
                        c2 = mk()
                        got = behaviour(c2, scheme, cat)
                        ok = got == want and c2.to_string() == c.to_string()
                        o_rt.check("typed-option:" + how, ok, dict(inp, how=how), {"behaviour": got, "string": c2.to_string()[-120:]}, {"behaviour": want})
                    except Exception as e:  # noqa: BLE001
                        o_rt.check("typed-option:" + how, False, dict(inp, how=how), errname(e) + ": " + str(e)[:100], "the same behaviour")
    # ---- round trips
    valid = []
    for _ in range(250 if not ctx.thorough else 3000):
        schemes, handlers, cats, kw = C04.gen_config(rng, registry)
        try:
            c = CryptContext(**kw)
        except Exception:  # noqa: BLE001
            continue
        valid.append((kw, c))
        snap = snapshot(c, corpus)
        # recorded finding: INI text renders floats with two decimals; only floats that do NOT survive that rendering are exempt
        has_float = any(isinstance(v, float) and float("%.2f" % v) != v for v in c.to_dict().values())
        # an option no configured hasher consumes (only possible under the "all" pseudo-scheme, where unsupported options are ignored by
        # design) is stored as given and never coerced; INI text cannot carry its Python type.  Such a configuration is outside the
        # "survives INI" claim for value TYPES (its decisions are still compared through the dict / copy / update / ctx-source paths).
        known_opts = set(C04.ROUNDS_KW) | {"salt_size", "salt", "rounds", "truncate_error", "ident", "relaxed", "vary_rounds", "default", "deprecated", "schemes",
                                            "min_verify_time", "harden_verify"}
        untyped_ini = any(k.split("__")[-1] not in known_opts and not isinstance(v, str) for k, v in c.to_dict().items())
        for how in ("dict", "ini", "copy", "update-empty", "ctx-source", "ini-update"):
            if untyped_ini and how in ("ini", "ini-update"):
                continue
            try:
                if how == "dict":
                    c2 = CryptContext(**c.to_dict())
                elif how == "ini":
                    c2 = CryptContext.from_string(c.to_string())
                elif how == "copy":
                    c2 = c.copy()
                elif how == "update-empty":
                    c2 = c.copy()
                    c2.update({})
                    c2.update()
                elif how == "ctx-source":
                    c2 = CryptContext()
                    c2.load(c)
                else:
                    c2 = CryptContext(schemes=["md5_crypt"])
                    c2.load(c.to_string())
                snap2 = snapshot(c2, corpus)
            except Exception as e:  # noqa: BLE001
                o_rt.check(how, False, {"op": "roundtrip", "how": how, "kwds": repr(kw)}, errname(e) + ": " + str(e)[:120], "a context equal to the original")
                continue
            same = snap2 == snap
            if not same and has_float and how in ("ini", "ini-update"):
                # recorded finding: two-decimal rendering of float vary_rounds; compare everything else
                ctx.notes.append("float vary_rounds INI rendering differs (known finding)") if "float vary_rounds INI rendering differs (known finding)" not in ctx.notes else None
                continue
            o_rt.check(how, same, {"op": "roundtrip", "how": how, "kwds": repr(kw)},
                       {k: snap2[k][:300] for k in snap2 if snap2[k] != snap[k]}, "identical to_dict()/to_string()/decisions")
        # exported objects are copies: editing an exported dict (even followed by a FAILED load of it) changes nothing
        try:
            d = c.to_dict()
            before = snapshot(c, corpus)
            snapshot(c.copy(), corpus)
        except Exception as e:  # noqa: BLE001
            o_rt.check("context-still-usable", False, {"op": "roundtrip", "kwds": repr(kw)}, errname(e) + ": " + str(e)[:120], "a valid context can be exported and copied")
            continue
        d = c.to_dict()
        before = snapshot(c, corpus)
        touched = False
        for k2, v2 in d.items():
            if isinstance(v2, list):
                v2.insert(rng.randrange(len(v2) + 1), "no_such_scheme_xyz")
                touched = True
        if touched:
            o_rt.check("exported-dict-is-a-copy", snapshot(c, corpus) == before, {"op": "export-alias", "kwds": repr(kw)}, "context changed by editing its exported dict", "unchanged")
            for how in ("load", "update"):
                try:
                    getattr(c, how)(d)
                except Exception:  # noqa: BLE001
                    pass
                else:
                    continue
                o_fault.check("failed-" + how + "-of-edited-export", snapshot(c, corpus) == before, {"op": "export-alias-" + how, "kwds": repr(kw)}, "context changed", "unchanged after the failed change")
        # update replaces exactly the given keys
        if kw.get("schemes"):
            s0 = kw["schemes"][0]
            h0 = registry.get_crypt_handler(s0)
            if "rounds" in h0.setting_kwds:
                newv = h0.min_rounds + 3
                try:
                    d_old, d_new = c.to_dict(), None
                    c3 = c.copy()
                    try:
                        c3.update(**{f"{s0}__min_rounds": newv})
                        d_new = c3.to_dict()
                    except ValueError:
                        d_new = None
                    if d_new is not None:
                        exp = dict(d_old)
                        exp[f"{s0}__min_rounds"] = newv
                        o_rt.check("update-one-key", d_new == exp, {"op": "update", "kwds": repr(kw), "change": {f"{s0}__min_rounds": newv}}, repr(d_new)[:300], repr(exp)[:300])
                except Exception:  # noqa: BLE001
                    pass
    # ---- fault enumeration
    bad_changes = [
        ("unknown-scheme", {"schemes": ["md5_crypt", "no_such_scheme_xyz"]}),
        ("unknown-option", {"md5_crypt__no_such_option": 5}),
        ("forbidden-salt", {"md5_crypt__salt": "abcdefgh"}),
        ("unknown-context-kw", {"no_such_keyword": 1}),
        ("default-not-listed", {"default": "no_such_scheme_xyz"}),
        ("deprecated-not-listed", {"deprecated": ["no_such_scheme_xyz"]}),
        ("auto-with-others", {"deprecated": ["auto", "md5_crypt"]}),
        ("default-deprecated", None),   # built per context below
        ("all-deprecated", None),
        ("out-of-range", None),
        ("min-above-max", None),
        ("wrong-type", {"default": 5}),
        ("wrong-type-deprecated", {"deprecated": 5}),
        ("malformed-key", {"a__b__c__d": 1}),
        ("empty-category", {"__md5_crypt__salt_size": 4}),
        ("category-schemes", {"admin__context__schemes": ["md5_crypt"]}),
        ("bad-int", {"sha256_crypt__min_rounds": "12x"}),
        ("bad-ini", "not an ini file at all"),
        ("non-mapping", 12345),
    ]
    for kw, c0 in valid[: (60 if not ctx.thorough else 600)]:
        schemes = list(kw["schemes"])
        for tag, change in bad_changes:
            try:
                c = c0.copy()
                snap = snapshot(c, corpus)
            except Exception as e:  # noqa: BLE001
                # the context was valid when it was built: it can no longer be copied, so an earlier (failed or harmless) operation changed it
                o_fault.check("context-still-usable", False, {"op": "copy-after-history", "kwds": repr(kw)}, errname(e) + ": " + str(e)[:120], "a valid context stays valid")
                break
            if change is None:
                d = c.default_scheme()
                if tag == "default-deprecated":
                    change = {"default": d, "deprecated": [d]}
                elif tag == "all-deprecated":
                    change = {"deprecated": schemes}
                elif tag in ("out-of-range", "min-above-max"):
                    rs = [s for s in schemes if "rounds" in registry.get_crypt_handler(s).setting_kwds]
                    if not rs:
                        continue
                    h = registry.get_crypt_handler(rs[0])
                    change = {f"{rs[0]}__default_rounds": h.min_rounds, f"{rs[0]}__min_rounds": h.min_rounds + 5} if tag == "out-of-range" else {f"{rs[0]}__min_rounds": h.min_rounds + 9, f"{rs[0]}__max_rounds": h.min_rounds + 2}
            # the offending item at every position among harmless companions
            harmless = [("md5_crypt__salt_size", 5)] if "md5_crypt" in schemes else []
            harmless += [("deprecated", [])] if isinstance(change, dict) and "deprecated" not in change else []
            variants = [change]
            if isinstance(change, dict) and harmless:
                items = list(change.items())
                variants = [dict(harmless[:i] + items + harmless[i:]) for i in range(len(harmless) + 1)]
            for ch in variants:
                for how in ("update", "load-update", "load-replace"):
                    try:
                        if how == "update":
                            c.update(ch) if not isinstance(ch, dict) else c.update(**ch)
                        elif how == "load-update":
                            c.load(ch, update=True)
                        else:
                            c.load(ch)
                        raised = None
                    except Exception as e:  # noqa: BLE001
                        raised = errname(e)
                    if raised is None:
                        # not every change is invalid for every context (e.g. option of an unlisted scheme on replace): restore and go on
                        c = c0.copy()
                        continue
                    after = snapshot(c, corpus)
                    o_fault.check(tag + "/" + how, after == snap,
                                  {"op": "failed-change", "kwds": repr(kw), "change": repr(ch), "how": how},
                                  {"raised": raised, "changed": [k for k in snap if snap[k] != after[k]]}, "an unchanged context (whatever the error)")
    # ---- a hasher whose customisation raises at the k-th call
    for k in range(1, 8):
        calls = {"n": 0}

        def mk(name):
            class H(uh.StaticHandler):
                checksum_chars = uh.HEX_CHARS
                checksum_size = 4
                _hash_prefix = f"${name}$"
                setting_kwds = ("flavour",)

                @classmethod
                def using(cls, flavour=None, **kwds):
                    calls["n"] += 1
                    if calls["n"] == calls.get("boom"):
                        raise RuntimeError("customisation failed")
                    return super().using(**kwds)

                def _calc_checksum(self, secret):
                    return "abcd"
            H.name = name
            H.__name__ = name
            return H

        hs = [mk("fault_a"), mk("fault_b"), mk("fault_c")]
        c = CryptContext(schemes=hs, admin__fault_b__flavour=1)
        base_calls = calls["n"]
        snap = {"dict": repr(sorted((kk, repr(v)) for kk, v in c.to_dict().items())), "id": c.identify("$fault_b$abcd"), "nu": c.needs_update("$fault_a$abcd")}
        calls["boom"] = calls["n"] + k
        try:
            c.update(deprecated=["fault_a"], staff__fault_c__flavour=2)
            raised = None
        except RuntimeError:
            raised = "RuntimeError"
        except Exception as e:  # noqa: BLE001
            # not the injected fault: a valid update of a context built from hasher OBJECTS (unregistered ones) failed
            o_fault.check("update-keeps-hasher-objects", False, {"op": "update-hasher-objects", "k": k}, errname(e) + ": " + str(e)[:120], "the update succeeds (or fails with the injected error only)")
            calls["boom"] = None
            continue
        calls["boom"] = None
        after = {"dict": repr(sorted((kk, repr(v)) for kk, v in c.to_dict().items())), "id": c.identify("$fault_b$abcd"), "nu": c.needs_update("$fault_a$abcd")}
        if raised:
            o_fault.check(f"using-raises-at-call-{k}", after == snap, {"op": "using-raises", "k": k}, after, snap)
        else:
            o_fault.check(f"using-raises-at-call-{k}(not reached)", True, {"op": "using-raises", "k": k}, "rebuild made fewer customisation calls", "-")
    o_upd = Oracle(ctx, "update-spellings-and-live-vs-rebuilt")
    for tag, inp, ok, obs, exp in update_semantics_cases(rng, 25 if not ctx.thorough else 600):
        o_upd.check(tag, ok, inp, obs, exp)
    for tag, inp, ok, obs, exp in update_exact_keys_cases(rng, 40 if not ctx.thorough else 1200):
        o_upd.check(tag, ok, inp, obs, exp)
    res = merge(s_key, o_rt, o_fault, o_upd)
    # ---- the text form (INI) at the level of the values: Model.CtxIni (suite `cini`)
    from . import c10_ini

    r_ini = c10_ini.correspond(ctx)
    res["suites"].update(r_ini["suites"])
    res["samples"] += r_ini["samples"]
    return res


def update_semantics_cases(rng, rounds):
    """update()/copy() = dictionary update on the *settings*, whatever spelling a key is given in; and a live object that went through a history of
    update()/load() behaves like the object rebuilt from its own export -- calls with context keywords (user=) included.
    yields (tag, input, ok, observed, expected)"""
    from passlib import registry
    from passlib.context import CryptContext

    # 1. the two spellings of the global options name the same setting: the later assignment wins
    for opt, old, new, probe in (("vary_rounds", 0.1, 0.25, lambda c: c.handler("sha256_crypt").vary_rounds), ("vary_rounds", "10%", 0, lambda c: c.handler("sha256_crypt").vary_rounds),
                                 ("truncate_error", True, False, lambda c: c.handler("bcrypt").truncate_error), ("truncate_error", False, True, lambda c: c.handler("bcrypt").truncate_error)):
        for k_old in (opt, "all__" + opt):
            for k_new in (opt, "all__" + opt):
                for how in ("update", "copy", "load-update"):
                    inp = {"op": "update-spelling", "first": {k_old: old}, "then": {k_new: new}, "how": how}
                    try:
                        c = CryptContext(schemes=["sha256_crypt", "bcrypt"], **{k_old: old})
                        if how == "update":
                            c.update(**{k_new: new})
                        elif how == "copy":
                            c = c.copy(**{k_new: new})
                        else:
                            c.load({k_new: new}, update=True)
                        got = probe(c)
                        ref = probe(CryptContext(schemes=["sha256_crypt", "bcrypt"], **{k_new: new}))
                    except Exception as e:  # noqa: BLE001
                        got, ref = errname(e) + ": " + str(e)[:60], "the new value"
                    yield ("update-spelling", inp, got == ref, got, ref)
    # 2. live object after a history vs the object rebuilt from its export
    plain = ["sha256_crypt", "md5_crypt", "ldap_md5", "des_crypt"]
    with_user = ["postgres_md5", "oracle10", "msdcc"]
    samples = {n: (registry.get_crypt_handler(n).using(rounds=1000).hash("pw") if n == "sha256_crypt" else registry.get_crypt_handler(n).hash("pw", **({"user": "u"} if n in with_user else {})))
               for n in plain + with_user}
    for _ in range(rounds):
        c = CryptContext(schemes=rng.sample(plain, 2))
        hist = []
        for _k in range(rng.randrange(1, 5)):
            schemes = rng.sample(plain, rng.randrange(1, 3)) + rng.sample(with_user, rng.choice([0, 0, 1, 2]))
            rng.shuffle(schemes)
            how = rng.choice(["update", "load-dict", "load-ini", "load-update"])
            hist.append([how, schemes])
            try:
                if how == "update":
                    c.update(schemes=schemes)
                elif how == "load-dict":
                    c.load({"schemes": schemes})
                elif how == "load-ini":
                    c.load("[passlib]\nschemes = " + ", ".join(schemes) + "\n")
                else:
                    c.load({"schemes": schemes}, update=True)
            except Exception as e:  # noqa: BLE001
                hist[-1].append(errname(e))
        rebuilt = [("dict", lambda: CryptContext(**c.to_dict())), ("ini", lambda: CryptContext.from_string(c.to_string())), ("copy", lambda: c.copy())]

        def behaviour(x):
            out = []
            for n in x.schemes():
                for kw in ({}, {"user": "u"}):
                    for f in (lambda: x.verify("pw", samples[n], **kw), lambda: x.needs_update(samples[n]), lambda: bool(x.hash("pw", scheme=n, **kw)) if n != "sha256_crypt" else True,
                              lambda: x.verify_and_update("pw", samples[n], **kw)[0]):
                        try:
                            out.append(f())
                        except Exception as e:  # noqa: BLE001
                            out.append(errname(e))
            return out
        live = behaviour(c)
        for nm, mk in rebuilt:
            try:
                other = behaviour(mk())
            except Exception as e:  # noqa: BLE001
                other = errname(e)
            yield ("live-equals-rebuilt-from-" + nm, {"op": "live-vs-rebuilt", "history": hist, "via": nm}, live == other, live, other)


def update_exact_keys_cases(rng, rounds):
    """update()/copy() replace exactly the given keys: every other setting — a per-category value that happens to equal the global one
    included — stays as it was.  Expectation: the context built directly from the merged keyword dictionary (no export in the loop).
    yields (tag, input, ok, observed, expected)"""
    from passlib import registry
    from passlib.context import CryptContext

    schemes = ["sha256_crypt", "sha512_crypt", "md5_crypt", "des_crypt"]
    samples = {n: registry.get_crypt_handler(n).using(**({"rounds": 1000} if "sha" in n else {})).hash("pw") for n in schemes}
    cats = [None, "admin", "staff"]

    def behaviour(c):
        out = []
        for cat in cats:
            out.append(c.default_scheme(category=cat))
            for n in schemes:
                out.append(c.needs_update(samples[n], category=cat))
                h = c.handler(n, category=cat)
                out.append((getattr(h, "min_desired_rounds", None), getattr(h, "max_desired_rounds", None), getattr(h, "default_rounds", None)))
        return out

    globals_ = [("default", lambda: rng.choice(schemes)), ("deprecated", lambda: rng.choice([["auto"], [], ["des_crypt"], ["md5_crypt", "des_crypt"]])),
                ("sha256_crypt__min_rounds", lambda: rng.choice([1000, 2000])), ("sha256_crypt__default_rounds", lambda: rng.choice([2000, 3000])),
                ("all__max_rounds", lambda: rng.choice([4000, 6000]))]
    for _ in range(rounds):
        base = {"schemes": schemes}
        for k, gen in rng.sample(globals_, rng.randrange(1, 4)):
            base[k] = gen()
        # category settings: half of them a copy of the global value (the case an exporter is tempted to drop)
        for cat in rng.sample(["admin", "staff"], rng.randrange(1, 3)):
            for k, gen in rng.sample(globals_, rng.randrange(1, 3)):
                ck = f"{cat}__context__{k}" if k in ("default", "deprecated") else f"{cat}__{k}"
                base[ck] = base[k] if (k in base and rng.random() < 0.6) else gen()
        change = {}
        for k, gen in rng.sample(globals_, rng.randrange(1, 3)):
            change[k] = gen()
        merged = dict(base)
        merged.update(change)
        try:
            ref = behaviour(CryptContext(**merged))
            CryptContext(**base)
        except Exception:  # noqa: BLE001
            continue        # an inconsistent combination (default deprecated, …): the refusal is checked elsewhere
        for how in ("update", "copy", "load-update", "update-twice", "via-dict"):
            inp = {"op": "update-exact-keys", "base": repr(base), "change": repr(change), "how": how}
            try:
                c = CryptContext(**base)
                if how == "update":
                    c.update(**change)
                elif how == "copy":
                    c = c.copy(**change)
                elif how == "load-update":
                    c.load(change, update=True)
                elif how == "update-twice":
                    c.update()
                    c.update(**change)
                else:
                    d = c.to_dict()
                    d.update(change)
                    c = CryptContext(**d)
                got = behaviour(c)
            except Exception as e:  # noqa: BLE001
                got = errname(e) + ": " + str(e)[:80]
            yield ("update-exact-keys", inp, got == ref, repr(got)[:400], repr(ref)[:400])


def search(ctx, broken, seeds):
    """re-run the two oracles; first failure is the failing input"""
    warnings.simplefilter("ignore")

    class _C:
        pass
    r = correspond(ctx)
    for name, s in r["suites"].items():
        if name.startswith("oracle-") and s["mismatches"]:
            m = s["mismatches"][0]
            return {"input": m["input"], "observed": m["impl"], "expected": m["model"]}
    return None


def replay(ctx, inp):
    warnings.simplefilter("ignore")
    from passlib.context import CryptContext

    if inp.get("op") == "ini-float":
        c = CryptContext(["sha256_crypt"], sha256_crypt__vary_rounds=inp["value"])
        c2 = CryptContext.from_string(c.to_string())
        return {"fails": c2.to_dict() != c.to_dict(), "observed": {"exported": c.to_string(), "reloaded": repr(c2.to_dict())}}
    if inp.get("op") == "ini-dict":
        # export to INI text, load, export to a dictionary: same keys, same values up to the text form of a value
        import ast

        from . import c10_ini

        c10_ini.install_harness()
        kw = ast.literal_eval(inp["kwds"])
        try:
            c = CryptContext(**kw)
            d1 = c.to_dict()
            d2 = CryptContext.from_string(c.to_string()).to_dict()
            txt = lambda v: ", ".join(map(str, v)) if isinstance(v, (list, tuple)) else str(v)  # noqa: E731
            same = {k: txt(v) for k, v in d1.items()} == {k: txt(v) for k, v in d2.items()}
            return {"fails": not same, "observed": {"before": repr(d1), "after": repr(d2)}}
        except Exception as e:  # noqa: BLE001
            return {"fails": True, "observed": errname(e) + ": " + str(e)[:160]}
    if inp.get("op") == "typed-option":
        import ast

        kw = ast.literal_eval(inp["kwds"])
        try:
            c = CryptContext(**kw)
            c2 = CryptContext.from_string(c.to_string())
            return {"fails": c2.to_string() != c.to_string(), "observed": {"exported": c.to_string(), "reloaded": c2.to_string()}}
        except Exception as e:  # noqa: BLE001
            return {"fails": True, "observed": errname(e) + ": " + str(e)[:160]}
    r = search(ctx, [], [])
    return {"fails": r is not None, "observed": r}
