"""C04 — CryptContext identifies, verifies, flags and rehashes exactly per its policy."""
from __future__ import annotations

import warnings

from .common import Oracle, Slow, Suite, deadline, errname, merge

GEN_UNITS = ["Handlers", "PyUnicode", "ContextPolicy"]
LEAN_TARGETS = ["PasslibVerif.Props.C04", "PasslibVerif.Props.C04Str", "PasslibVerif.Props.C04StrExamples", "PasslibVerif.Props.C04StrExamples2", "PasslibVerif.Props.C04Kwds"]
ASSUMPTIONS = [
    "facts about individual hash strings (which schemes claim it, its parsed cost, scheme-specific flags, whether the password verifies) are atoms supplied by the real hashers; their correctness is C01/C07/C17",
    "float vary_rounds enters as the integer the interpreter computes",
]
EXPLANATION = (
    "Theorems about Model.Context (option inheritance over the 'all' scheme and the default category, default-scheme and deprecation "
    "resolution incl. 'auto', record creation through the HasRounds.using model, first-claimer identification, needs_update, hash, "
    "verify_and_update). Correspondence: generated configurations (scheme subsets/orders x default x deprecated list/auto x "
    "min/max/default/vary rounds incl. clipped values x categories with partial overrides) against the real CryptContext: constructor "
    "error kind, default scheme, deprecation, effective per-record settings, and every identify/needs_update/hash/verify_and_update decision."
)

POOL = ["sha256_crypt", "sha512_crypt", "pbkdf2_sha256", "md5_crypt", "des_crypt", "bsdi_crypt", "phpass", "ldap_md5", "sha1_crypt", "plaintext", "unix_disabled"]
ROUNDS_KW = ("min_desired_rounds", "max_desired_rounds", "min_rounds", "max_rounds", "default_rounds", "vary_rounds")


class FixedRng:
    def __init__(self, v):
        self.v = v

    def randint(self, a, b):
        return a + self.v % (b - a + 1)

    def getrandbits(self, k):
        return self.v % (1 << k)

    def randrange(self, a, b=None):
        if b is None:
            a, b = 0, a
        return a + self.v % (b - a)


def scheme_spec(h):
    allowed = list(h.setting_kwds)
    if "rounds" in h.setting_kwds:
        allowed += list(ROUNDS_KW)
    base = "N"
    if "rounds" in h.setting_kwds:
        base = f"{h.min_rounds},{'N' if h.max_rounds is None else h.max_rounds},{'N' if h.default_rounds is None else h.default_rounds},{1 if h.name == 'bsdi_crypt' else 0}"
    return f"{h.name}/{base}/{','.join(allowed) or '-'}/{1 if getattr(h, 'is_disabled', False) else 0}"


def enc_val(key, v):
    if key == "vary_rounds":
        if isinstance(v, str):
            v = float(v.rstrip("%")) * 0.01 if v.endswith("%") else (int(v) if v.lstrip("-").isdigit() else float(v))
        if isinstance(v, float):
            return "vf" if v else "v0"
        return f"v{v}"
    if key in ("min_rounds", "max_rounds", "default_rounds", "min_desired_rounds", "max_desired_rounds"):
        if isinstance(v, str):
            # _coerce_scheme_options turns numeric strings into ints while the config is read
            return f"i{int(v)}"
        return f"i{v}"
    return "o"


def gen_config(rng, registry):
    n = rng.randrange(1, 5)
    schemes = rng.sample(POOL, n)
    handlers = {s: registry.get_crypt_handler(s) for s in schemes}
    kw = {"schemes": list(schemes)}
    cats = rng.sample(["admin", "staff"], rng.choice([0, 0, 1, 1, 2]))
    defect = rng.choice(["default", "auto", "option", "option"]) if rng.random() < 0.2 else None
    for cat in [None] + cats:
        pre = f"{cat}__context__" if cat else ""
        if rng.random() < 0.4:
            kw[pre + "default"] = rng.choice(schemes) if not (defect == "default" and rng.random() < 0.5) else "md4_crypt_nosuch"
        if rng.random() < 0.5:
            r = rng.random()
            if r < 0.3:
                kw[pre + "deprecated"] = ["auto"]
            elif r < 0.45 and defect == "auto":
                kw[pre + "deprecated"] = ["auto", schemes[0]]
            else:
                kw[pre + "deprecated"] = rng.sample(schemes, rng.randrange(0, len(schemes) + 1))
    for cat in [None] + cats:
        for s in schemes + (["all"] if rng.random() < 0.2 else []):
            h = handlers.get(s)
            has_rounds = s == "all" or "rounds" in h.setting_kwds
            pre = (f"{cat}__" if cat else "") + s + "__"
            if has_rounds and rng.random() < 0.6:
                if s == "all":
                    lo, hi, d = 1000, 999999999, 5000
                else:
                    lo, hi, d = h.min_rounds, h.max_rounds, h.default_rounds
                log2 = s != "all" and h.rounds_cost == "log2"
                pts = sorted({lo, lo + 1, d, max(lo, d // 2), min(hi, d * 2), lo - 1, hi, hi + 1}) if not log2 else sorted({lo, lo + 1, d - 1, d, d + 1, hi, hi + 1, lo - 1})
                for key in ("min_rounds", "max_rounds", "default_rounds"):
                    if rng.random() < (0.45 if key != "default_rounds" else 0.8):
                        v = rng.choice(pts)
                        if key == "default_rounds" and not log2 and rng.random() < 0.8:
                            v = rng.choice([lo, lo + 1, lo + 7, max(lo, 1500)])
                        if key == "default_rounds" and log2 and rng.random() < 0.8:
                            v = rng.choice([lo, lo + 1])
                        kw[pre + key] = str(v) if rng.random() < 0.15 else v
                if not log2 and rng.random() < 0.2:
                    kw[pre + "vary_rounds"] = rng.choice([0, 5, 100, "10%", 0.1, "7"])
            if s != "all" and rng.random() < 0.1:
                if "salt_size" in h.setting_kwds:
                    kw[pre + "salt_size"] = h.default_salt_size
            if defect == "option" and rng.random() < 0.3:
                kw[pre + rng.choice(["salt", "nosuchoption", "min_rounds"])] = 5
                defect = None
    return schemes, handlers, cats, kw


def repair(rng, schemes, cats, kw):
    """turn a generated configuration into a (mostly) valid one: the naive stream is ~60 % constructor errors, which exercises the
    error paths but leaves the resolution rules thin.  Keeps the shape (which keys are present), fixes the values."""
    from passlib.context import CryptContext

    kw = dict(kw)
    gdef = kw.get("default")
    if gdef is not None and gdef not in schemes:
        gdef = kw["default"] = rng.choice(schemes)
    for cat in [None] + cats:
        pre = f"{cat}__context__" if cat else ""
        d = kw.get(pre + "default")
        if d is not None and d not in schemes:
            d = kw[pre + "default"] = rng.choice(schemes)
        dep = kw.get(pre + "deprecated")
        if dep is None:
            continue
        if "auto" in dep:
            kw[pre + "deprecated"] = ["auto"]
            continue
        keep = d or gdef
        dep = [x for x in dep if x != keep]
        if len(set(dep)) >= len(schemes):
            dep = dep[:-1] if keep is None else dep
            dep = [x for x in dep if x != schemes[-1]] if len(set(dep)) >= len(schemes) else dep
        kw[pre + "deprecated"] = dep
    for attempt in range(3):
        try:
            CryptContext(**kw)
            return kw
        except Exception:  # noqa: BLE001
            if attempt == 0:
                kw = {k: v for k, v in kw.items() if not k.endswith(("__min_rounds", "__max_rounds"))}
            elif attempt == 1:
                kw = {k: v for k, v in kw.items() if "__context__" in k or "__" not in k}
    return kw


def encode(schemes, handlers, kw):
    from passlib.context import CryptContext

    defaults, deps, opts = [], [], {}
    for k, v in kw.items():
        if k == "schemes":
            continue
        cat, scheme, key = CryptContext._parse_config_key(k)
        c = cat or "-"
        if scheme is None:
            if key == "default":
                defaults.append(f"{c}={v}")
            elif key == "deprecated":
                deps.append(f"{c}={'+'.join(v)}")
        else:
            opts.setdefault((scheme, c), []).append(f"{key}={enc_val(key, v)}")
    o = ";".join(f"{s}@{c}:{','.join(kvs)}" for (s, c), kvs in opts.items()) or "-"
    return ";".join(scheme_spec(handlers[s]) for s in schemes) + " " + (",".join(defaults) or "-") + " " + (";".join(deps) or "-") + " " + o


def show_rec(rec):
    def o(v):
        return "N" if v is None else str(v)
    if "rounds" not in rec.setting_kwds:
        body = "norounds"
    else:
        vr = rec.vary_rounds
        if isinstance(vr, float):
            vr = "f" if vr else "0"
        body = f"{o(rec.min_desired_rounds)} {o(rec.max_desired_rounds)} {o(rec.default_rounds)} {o(vr)}"
    return body + (" dep" if rec.deprecated else " nodep")


def make_hash(h, rounds=None):
    """a hash of scheme h at a given cost, plus its facts"""
    kw = {}
    if rounds is not None:
        kw["rounds"] = rounds
    hh = h.using(**kw).hash("pw") if kw else h.hash("pw")
    return hh


BYTES_SCHEMES = ["ldap_salted_sha1", "ldap_md5_crypt", "ldap_sha256_crypt", "ldap_des_crypt", "md5_crypt", "sha256_crypt", "des_crypt",
                 "pbkdf2_sha256", "ldap_pbkdf2_sha256", "ldap_md5", "phpass", "sha1_crypt", "ldap_sha1_crypt", "ldap_hex_md5", "hex_md5"]


def bytes_parity_cases(rng, rounds):
    """a hash handed over as bytes is the same hash: identify / needs_update / verify / verify_and_update answer as for the text
    (yields (tag, input, ok, observed, expected)); wrapper schemes, deprecated schemes and rounds limits included"""
    from passlib import registry
    from passlib.context import CryptContext

    hashes = {}
    for name in BYTES_SCHEMES:
        h = registry.get_crypt_handler(name)
        kw = {"rounds": max(h.min_rounds, 1000 if h.rounds_cost == "linear" else h.min_rounds)} if "rounds" in h.setting_kwds else {}
        hashes[name] = h.using(**kw).hash("pw")
    for _ in range(rounds):
        schemes = rng.sample(BYTES_SCHEMES, rng.randrange(2, 7))
        kw = {"schemes": schemes}
        if rng.random() < 0.7:
            kw["deprecated"] = rng.choice([["auto"], rng.sample(schemes[1:], rng.randrange(0, len(schemes)))])
        for s in schemes:
            if "rounds" in registry.get_crypt_handler(s).setting_kwds and rng.random() < 0.4 and registry.get_crypt_handler(s).rounds_cost == "linear":
                kw[f"{s}__min_rounds"] = rng.choice([1000, 1001, 2000])
                kw[f"{s}__default_rounds"] = 2000
        try:
            c = CryptContext(**kw)
        except Exception:  # noqa: BLE001
            continue
        for s in schemes:
            h = hashes[s]

            def obs(hv):
                out = []
                for f in (lambda: c.identify(hv), lambda: c.needs_update(hv), lambda: c.verify("pw", hv), lambda: c.verify("nope", hv),
                          lambda: (lambda r: (r[0], r[1] is None))(c.verify_and_update("pw", hv)), lambda: (lambda r: (r[0], r[1] is None))(c.verify_and_update("nope", hv))):
                    try:
                        out.append(f())
                    except Exception as e:  # noqa: BLE001
                        out.append("err " + errname(e))
                return out
            a, b = obs(h), obs(h.encode("ascii"))
            yield ("bytes-hash-parity", {"op": "bytes-hash", "kwds": kw, "hash": h}, a == b, b, a)


#: scheme-specific settings that the scheme's own update rule reads (besides the cost): every admissible value of each
SCHEME_OPTIONS = {
    "bcrypt_sha256": [{"version": 1}, {"version": 2}, {"version": 2, "ident": "2b"}, {"version": 1, "ident": "2a"}],
    "bcrypt": [{"ident": "2a"}, {"ident": "2b"}, {"ident": "2y"}],
    "scrypt": [{"block_size": 1}, {"block_size": 2}, {"block_size": 8}],
    "scram": [{"algs": "sha-1"}, {"algs": "sha-1,sha-256"}, {"algs": "sha-1,sha-256,sha-512"}],
    "bsdi_crypt": [{}], "fshp": [{"variant": 1}, {"variant": 3}],
    "ldap_bcrypt": [{"ident": "2a"}, {"ident": "2b"}], "django_bcrypt_sha256": [{}], "django_bcrypt": [{}],
}


def scheme_flag_cases(rng, rounds):
    """the clause `or the scheme itself flags it`, which the model takes as an atom: on the real code, under a context that pins a
    scheme-specific setting (version, ident, block size, digest list, ...) and optionally a category, a hash the context has just made
    is not flagged and verify_and_update leaves it alone; a deprecated scheme's hash migrates to the default in one step and stays.
    yields (tag, input, ok, observed, expected)"""
    from passlib import registry
    from passlib.context import CryptContext

    from . import verify_common as vc

    names = [n for n in vc.all_names() if n not in vc.DISABLED and not n.startswith(("django_argon", "argon")) and n not in ("plaintext", "ldap_plaintext", "roundup_plaintext", "htdigest", "phpass")]
    legacy = registry.get_crypt_handler("phpass")
    old = legacy.using(rounds=7).hash("pw")
    for _ in range(rounds):
        name = rng.choice(names + list(SCHEME_OPTIONS) * 3)
        h = registry.get_crypt_handler(name)
        if "user" in (getattr(h, "context_kwds", ()) or ()):
            continue
        opts = dict(rng.choice(SCHEME_OPTIONS.get(name, [{}])))
        cheap = vc.cheap_settings(h, rng)
        for k in ("rounds", "salt_size"):
            if k in cheap and k not in opts and (k != "rounds" or name != "bsdi_crypt"):
                opts[k] = cheap[k]
        if name == "bsdi_crypt":
            opts["rounds"] = rng.choice([1, 5, 25, 725])
        if name == "scrypt":
            opts.update(rounds=1, parallelism=1)
        if name in ("bcrypt", "ldap_bcrypt", "django_bcrypt", "bcrypt_sha256", "django_bcrypt_sha256"):
            opts["rounds"] = 4
        cat = rng.choice([None, None, "admin"])
        pre = f"{cat}__" if cat else ""
        kw = {"schemes": [name, "phpass"] if rng.random() < 0.7 else ["phpass", name], "default": name, "deprecated": ["phpass"]}
        kw.update({f"{pre}{name}__{k}": v for k, v in opts.items()})
        inp = {"op": "scheme-flag", "kwds": kw, "category": cat}
        try:
            c = CryptContext(**kw)
        except Exception as e:  # noqa: BLE001
            yield ("scheme-flag:constructs", inp, False, errname(e) + ": " + str(e)[:100], "an admissible scheme-specific setting is accepted")
            continue
        try:
            with deadline(20):
                fresh = c.hash("pw", category=cat)
                obs = (c.identify(fresh), c.needs_update(fresh, category=cat), c.verify_and_update("pw", fresh, category=cat))
                yield ("scheme-flag:fresh-not-flagged", dict(inp, hash=fresh), obs == (name, False, (True, None)), repr(obs), repr((name, False, (True, None))))
                ok, new = c.verify_and_update("pw", old, category=cat)
                obs2 = (ok, None if new is None else c.identify(new), None if new is None else c.needs_update(new, category=cat),
                        None if new is None else c.verify_and_update("pw", new, category=cat))
                yield ("scheme-flag:migration-fixed-point", dict(inp, old=old), obs2 == (True, name, False, (True, None)), repr(obs2), repr((True, name, False, (True, None))))
        except Slow:
            continue
        except Exception as e:  # noqa: BLE001
            yield ("scheme-flag:no-exception", inp, False, errname(e) + ": " + str(e)[:100], "no exception")


def correspond(ctx):
    warnings.simplefilter("ignore")
    import passlib.utils.handlers as uh
    from passlib import registry
    from passlib.context import CryptContext

    rng = ctx.rng
    s_cfg = Suite(ctx, "config-resolution")
    s_dec = Suite(ctx, "decisions")
    n = 700 if not ctx.thorough else 6000
    corpus = {}
    for name in POOL:
        h = registry.get_crypt_handler(name)
        lst = []
        if "rounds" in h.setting_kwds:
            lo, d = h.min_rounds, h.default_rounds
            cheap = [lo, lo + 1, lo + 2] if h.rounds_cost == "log2" else [lo, lo + 1, max(lo, 1000), max(lo, 1001), 2000, 5000]
            for r in sorted(set(cheap)):
                try:
                    lst.append((make_hash(h, r), r))
                except Exception:  # noqa: BLE001
                    pass
        elif name != "unix_disabled":
            lst.append((h.hash("pw"), None))
        else:
            lst.append(("!", None))
        corpus[name] = lst
    for _ in range(n):
        schemes, handlers, cats, kw = gen_config(rng, registry)
        if rng.random() < 0.7:
            kw = repair(rng, schemes, cats, kw)
        line = "ctx " + encode(schemes, handlers, kw)
        try:
            c = CryptContext(**kw)
            built = "ok valid"
        except Exception as e:  # noqa: BLE001
            c = None
            built = "err " + errname(e)
        if c is None:
            s_cfg.add_raw(line + " validate", built, "constructor-error")
            continue
        qs, ans = ["validate", "cats"], [built, "ok " + ",".join(c._config.categories)]
        qcats = [None] + cats + ["nosuchcat"]
        for cat in qcats:
            cn = cat or "-"
            qs.append(f"default:{cn}")
            try:
                ans.append("ok " + c.default_scheme(cat))
            except Exception as e:  # noqa: BLE001
                ans.append("err " + errname(e))
            for s in schemes:
                qs.append(f"dep:{s}:{cn}")
                ans.append("ok " + str(int(c._config.is_deprecated_with_flag(s, cat)[0])))
                qs.append(f"rec:{s}:{cn}")
                try:
                    ans.append("ok " + show_rec(c.handler(s, cat)))
                except Exception as e:  # noqa: BLE001
                    ans.append("err " + errname(e))
        s_cfg.add_raw(line + " " + " ".join(qs), " | ".join(ans), "resolution")
        # decisions on a hash corpus
        qs, ans = [], []
        old = uh.rng
        try:
            for cat in qcats[: 2 + (1 if cats else 0)]:
                cn = cat or "-"
                d0 = None
                try:
                    d0 = c.default_scheme(cat)
                    drec0 = c.handler(d0, cat)
                    if "rounds" not in drec0.setting_kwds:
                        cheap_default = True
                    elif drec0.default_rounds is None:
                        cheap_default = False
                    elif drec0.rounds_cost == "log2":
                        cheap_default = drec0.default_rounds <= 8 and not drec0.vary_rounds
                    else:
                        vr = drec0.vary_rounds
                        extra = vr if isinstance(vr, int) else (int(drec0.default_rounds * vr) + 1 if vr else 0)
                        cheap_default = drec0.default_rounds + extra <= 20000
                except Exception:  # noqa: BLE001
                    cheap_default = False
                for sname in rng.sample(POOL, 5):
                    for hh, r in rng.sample(corpus[sname], min(2, len(corpus[sname]))):
                        claims = [s for s in schemes if handlers[s].identify(hh)]
                        cl = "+".join(claims) or "-"
                        rec_r, flag = "N", "0"
                        if claims:
                            first = handlers[claims[0]]
                            if "rounds" in first.setting_kwds:
                                try:
                                    rec_r = str(first.from_string(hh).rounds)
                                except Exception:  # noqa: BLE001
                                    rec_r = "N"
                        qs.append(f"identify:{cl}")
                        try:
                            ans.append("ok " + c.identify(hh, required=True))
                        except Exception as e:  # noqa: BLE001
                            ans.append("err " + errname(e))
                        qs.append(f"needs:{cn}:{cl}:{rec_r}:{flag}")
                        try:
                            ans.append("ok " + str(int(c.needs_update(hh, category=cat))))
                        except Exception as e:  # noqa: BLE001
                            ans.append("err " + errname(e))
                        for pw, ver in ((("pw", "1"), ("wrong", "0")) if cheap_default else (("wrong", "0"),)):
                            if claims:
                                try:
                                    ver = "1" if handlers[claims[0]].verify(pw, hh) else "0"
                                except ValueError:
                                    ver = "E"
                            draw = rng.randrange(1 << 20)
                            uh.rng = FixedRng(draw)
                            d = None
                            try:
                                d = c.default_scheme(cat)
                                drec = c.handler(d, cat)
                                fv = int(drec.default_rounds * drec.vary_rounds) if isinstance(getattr(drec, "vary_rounds", None), float) and drec.default_rounds else 0
                            except Exception:  # noqa: BLE001
                                fv = 0
                            qs.append(f"vau:{cn}:{cl}:{rec_r}:{flag}:{ver}:{draw}:{fv}")
                            try:
                                with deadline(10):
                                    ok, new = c.verify_and_update(pw, hh, category=cat)
                                if new is None:
                                    ans.append("ok " + ("T N" if ok else "F N"))
                                else:
                                    nh = registry.get_crypt_handler(d)
                                    nr = str(nh.from_string(new).rounds) if "rounds" in nh.setting_kwds else "N"
                                    ans.append(f"ok T {d} {nr}")
                            except Slow:
                                qs.pop()
                                ctx.notes.append(f"skipped slow verify_and_update: kw={kw} cat={cat} default={d} rec={getattr(drec, 'default_rounds', None)}/{getattr(drec, 'vary_rounds', None)} cheap={cheap_default} d0={d0}")
                            except Exception as e:  # noqa: BLE001
                                ans.append("err " + errname(e))
                # fresh hashes
                draw = rng.randrange(1 << 20)
                uh.rng = FixedRng(draw)
                try:
                    d = c.default_scheme(cat)
                    drec = c.handler(d, cat)
                    if cheap_default:
                        fv = int(drec.default_rounds * drec.vary_rounds) if isinstance(getattr(drec, "vary_rounds", None), float) and drec.default_rounds else 0
                        qs.append(f"hash:{cn}:{draw}:{fv}")
                        try:
                            new = c.hash("pw", category=cat)
                            nr = str(drec.from_string(new).rounds) if "rounds" in drec.setting_kwds else "N"
                            ans.append(f"ok {d} {nr}")
                        except Exception as e:  # noqa: BLE001
                            ans.append("err " + errname(e))
                except Exception:  # noqa: BLE001
                    pass
        finally:
            uh.rng = old
        if qs:
            s_dec.add_raw(line + " " + " ".join(qs), " | ".join(ans), "decisions")
    o_b = Oracle(ctx, "bytes-hash-parity")
    for tag, inp, ok, obs, exp in bytes_parity_cases(rng, 40 if not ctx.thorough else 600):
        o_b.check(tag, ok, inp, obs, exp)
    o_f = Oracle(ctx, "scheme-own-update-rule")
    for tag, inp, ok, obs, exp in scheme_flag_cases(rng, 120 if not ctx.thorough else 2500):
        o_f.check(tag, ok, inp, obs, exp)
    o_rc = Oracle(ctx, "reconfigured-context-and-foreign-hasher-objects")
    rf = reconfigured_failure()
    o_rc.check("reconfigured", rf is None, (rf or {}).get("input", {"op": "reconfigured"}), (rf or {}).get("observed"), (rf or {}).get("expected", "the answers of a context built directly from the final configuration"))
    # ---- the same decisions on real hash strings: the context model composed with the C01 hasher models (suite `cstr`)
    from . import c04_str

    s_str = Suite(ctx, "context-over-hasher-models", batch=2000, model_canon=c04_str.canon)
    c04_str.model_suite(ctx, s_str, n=60 if not ctx.thorough else 1500)
    # ---- which keywords reach which hasher call, `scheme=` / `category=`, reconfigured contexts: Model.ContextKwds (suite `ckw`)
    from . import c04_kwds

    s_kw = Suite(ctx, "context-keywords-to-hashers", batch=2000)
    c04_kwds.model_suite(ctx, s_kw, n=150 if not ctx.thorough else 3000)
    return merge(s_cfg, s_dec, o_b, o_f, o_rc, s_str, s_kw)


# ------------------------------------------------------------------------------------------
def statement_search(ctx, n=400):
    """two clauses of the statement evaluated directly on random valid configurations (categories included):
    attribution = the first configured scheme whose own identify() claims the string; a hash just made for a category is not flagged
    for that category and is of that category's default scheme, which is not deprecated there"""
    from passlib import registry
    from passlib.context import CryptContext

    rng = ctx.rng
    samples = {}
    for name in POOL + ["bigcrypt", "crypt16", "lmhash", "nthash", "hex_md5", "hex_md4", "hex_sha1", "mysql41", "cisco_pix", "cisco_asa"]:
        try:
            h = registry.get_crypt_handler(name)
            kw = {"rounds": max(h.min_rounds, 1)} if "rounds" in h.setting_kwds and h.rounds_cost == "log2" else ({"rounds": max(h.min_rounds, 1000)} if "rounds" in h.setting_kwds else {})
            ck = {"user": "u"} if "user" in (h.context_kwds or ()) else {}
            samples[name] = h.using(**kw).hash("pw", **ck) if name != "unix_disabled" else "!"
        except Exception:  # noqa: BLE001
            pass
    extra = [s for s in samples if s not in POOL]
    for _ in range(n):
        schemes, handlers, cats, kw = gen_config(rng, registry)
        if rng.random() < 0.5:
            # overlapping formats side by side, in both orders
            add = [x for x in rng.sample(extra, 2) if x not in schemes]
            schemes = list(kw["schemes"]) + add
            rng.shuffle(schemes)
            kw["schemes"] = schemes
            handlers = {s: registry.get_crypt_handler(s) for s in schemes}
        kw = repair(rng, schemes, cats, kw)
        try:
            c = CryptContext(**kw)
        except Exception:  # noqa: BLE001
            continue
        for cat in [None] + cats:
            for name, hv in samples.items():
                want = next((s for s in schemes if handlers[s].identify(hv)), None)
                try:
                    got = c.identify(hv, category=cat)
                except Exception as e:  # noqa: BLE001
                    got = "err " + errname(e)
                if got != want:
                    return {"input": {"op": "attribution", "kwds": kw, "category": cat, "hash": hv}, "observed": got, "expected": f"{want} (the first configured scheme that claims it)"}
            try:
                d = c.default_scheme(cat)
                rec = c.handler(d, cat)
            except Exception:  # noqa: BLE001
                continue
            if c._config.is_deprecated_with_flag(d, cat)[0]:
                return {"input": {"op": "category-default", "kwds": kw, "category": cat}, "observed": f"default scheme {d} is deprecated for the category",
                        "expected": "the category's default is a scheme that is not deprecated for it"}
            if "rounds" in rec.setting_kwds and (rec.default_rounds is None or rec.default_rounds > (12 if rec.rounds_cost == "log2" else 20000) or rec.vary_rounds):
                continue
            if d == "bsdi_crypt":
                continue        # recorded finding bsdi-odd-rounds-exceed-even-max
            try:
                with deadline(10):
                    fresh = c.hash("pw", category=cat)
                    obs = (c.identify(fresh, category=cat), c.needs_update(fresh, category=cat))
            except Slow:
                continue
            except Exception as e:  # noqa: BLE001
                obs = "err " + errname(e)
            want_id = next((s for s in schemes if handlers[s].identify(fresh)), None) if isinstance(obs, tuple) else None
            if want_id != d:
                continue        # an earlier scheme (a catch-all such as plaintext, or an overlapping format) claims the default's hashes: attribution follows the
                                # first-claimer rule checked above, and the configuration, not the library, makes the fresh hash look foreign
            if obs != (want_id, False):
                return {"input": {"op": "category-fresh", "kwds": kw, "category": cat}, "observed": repr(obs), "expected": repr((want_id, False))}
    return None


def reconfigured_failure():
    """real code only; returns a failing-input record or None"""
    from passlib import registry
    from passlib.context import CryptContext

    # a context reconfigured after construction answers like one built directly from the final configuration — calls that carry context
    # keywords (user=) included; and hasher OBJECTS taken from another context carry nothing of that context's policy into this one
    final = dict(schemes=["sha256_crypt", "postgres_md5", "md5_crypt"], sha256_crypt__default_rounds=1000, deprecated=["postgres_md5"])
    direct = CryptContext(**final)
    hs_sha = registry.get_crypt_handler("sha256_crypt").using(rounds=1000).hash("pw")
    hs_pg = registry.get_crypt_handler("postgres_md5").hash("pw", user="u")

    def answers(c):
        out = []
        for f in (lambda: c.verify("pw", hs_sha, user="u"), lambda: c.verify("pw", hs_pg, user="u"), lambda: c.verify_and_update("pw", hs_sha, user="u"),
                  lambda: c.verify_and_update("pw", hs_pg, user="u")[0], lambda: c.identify(hs_pg), lambda: c.needs_update(hs_pg), lambda: bool(c.hash("pw", user="u"))):
            try:
                out.append(f())
            except Exception as e:  # noqa: BLE001
                out.append(errname(e))
        return out

    want = answers(direct)
    for start in ({}, {"schemes": ["md5_crypt"]}, {"schemes": ["des_crypt", "md5_crypt"], "deprecated": ["des_crypt"]}):
        for how in ("load", "update", "copy", "load-twice", "using"):
            c = CryptContext(**start)
            if how == "load":
                c.load(final)
            elif how == "update":
                c.update(**final)
            elif how == "copy":
                c = c.copy(**final)
            elif how == "using":
                c = c.using(**final)
            else:
                c.load({"schemes": ["postgres_md5"]})
                c.load(final)
            got = answers(c)
            if got != want:
                return {"input": {"op": "reconfigured", "start": start, "how": how, "final": final}, "observed": got, "expected": want}
    a_ctx = CryptContext(["sha256_crypt", "md5_crypt", "des_crypt"], deprecated=["md5_crypt", "des_crypt"], sha256_crypt__default_rounds=1000)
    for src in ("handler()", "schemes(resolve=True)"):
        objs = [a_ctx.handler("md5_crypt"), a_ctx.handler("des_crypt")] if src == "handler()" else [h for h in a_ctx.schemes(resolve=True) if h.name != "sha256_crypt"]
        b_ctx = CryptContext(schemes=objs)
        fresh = b_ctx.hash("pw")
        obs = (b_ctx.identify(fresh), b_ctx.needs_update(fresh), b_ctx.verify_and_update("pw", fresh))
        if obs != ("md5_crypt", False, (True, None)):
            return {"input": {"op": "hashers-from-another-context", "source": src}, "observed": repr(obs), "expected": "('md5_crypt', False, (True, None)): the default scheme's fresh hash is not flagged"}
    return None


def search(ctx, broken, seeds):
    """the property's statement on the real code, for configurations with ordered windows"""
    warnings.simplefilter("ignore")
    from passlib import registry
    from passlib.context import CryptContext

    rng = ctx.rng
    for tag, inp, ok, obs, exp in bytes_parity_cases(rng, 60):
        if not ok:
            return {"input": inp, "observed": obs, "expected": exp, "check": tag}
    for tag, inp, ok, obs, exp in scheme_flag_cases(rng, 200):
        if not ok:
            return {"input": inp, "observed": obs, "expected": exp, "check": tag}
    r = statement_search(ctx)
    if r:
        return r
    fast = ["sha256_crypt", "pbkdf2_sha256", "md5_crypt", "des_crypt", "phpass", "ldap_md5", "sha1_crypt"]
    # cost variation next to a scheme's hard limit: the context must still be able to hash, and must not flag the result
    for s in ("sha256_crypt", "sha512_crypt", "pbkdf2_sha256", "sha1_crypt"):
        h = registry.get_crypt_handler(s)
        for d in (h.min_rounds, h.min_rounds + 2, h.min_rounds + 30):
            for vary in (5, 0.05, "10%"):
                kw = {"schemes": [s], f"{s}__default_rounds": d, "all__vary_rounds": vary}
                c = CryptContext(**kw)
                for _ in range(12):
                    try:
                        fresh = c.hash("pw")
                    except Exception as e:  # noqa: BLE001
                        return {"input": {"op": "hash-vary", "kwds": kw}, "observed": errname(e) + ": " + str(e), "expected": "a hash of the default scheme at the configured cost"}
                    if c.needs_update(fresh):
                        return {"input": {"op": "hash-vary", "kwds": kw}, "observed": {"hash": fresh, "needs_update": True}, "expected": "a hash the context has just produced never needs updating"}
    # per-category overrides: hash, needs_update and verify_and_update must all use the CATEGORY's default scheme and cost
    for _ in range(12 if not ctx.thorough else 150):
        a, b2 = rng.sample(["sha256_crypt", "sha512_crypt", "pbkdf2_sha256", "sha1_crypt"], 2)
        ra, rb = rng.randrange(1000, 3000), rng.randrange(3001, 6000)
        kw = {"schemes": [a, b2, "md5_crypt"], "default": a, "deprecated": ["auto"], f"{a}__default_rounds": ra, f"{a}__max_rounds": ra + 100,
              "admin__context__default": b2, f"admin__{b2}__default_rounds": rb, f"admin__{b2}__min_rounds": rb - 10,
              f"staff__{a}__min_rounds": ra + 200, f"staff__{a}__max_rounds": ra + 900, f"staff__{a}__default_rounds": ra + 300}
        c = CryptContext(**kw)
        old = registry.get_crypt_handler("md5_crypt").hash("pw")
        for cat, want_scheme, want_rounds in ((None, a, ra), ("admin", b2, rb), ("staff", a, ra + 300)):
            inp = {"op": "category", "kwds": kw, "category": cat}
            fresh = c.hash("pw", category=cat)
            hh = registry.get_crypt_handler(want_scheme)
            if c.identify(fresh) != want_scheme or hh.from_string(fresh).rounds != want_rounds:
                return {"input": inp, "observed": {"hash": fresh}, "expected": f"{want_scheme} at {want_rounds} rounds"}
            if c.needs_update(fresh, category=cat):
                return {"input": inp, "observed": {"hash": fresh, "needs_update": True}, "expected": "a fresh hash of the category is not flagged for that category"}
            ok, new = c.verify_and_update("pw", old, category=cat)
            if not ok or new is None or c.identify(new) != want_scheme or hh.from_string(new).rounds != want_rounds or c.needs_update(new, category=cat):
                return {"input": dict(inp, hash=old), "observed": {"ok": ok, "new": new}, "expected": f"(True, new) with new = {want_scheme} at {want_rounds} rounds, needing no further update"}
            if c.verify_and_update("pw", new, category=cat) != (True, None):
                return {"input": dict(inp, hash=new), "observed": "another update requested", "expected": "(True, None): fixed point after one step"}
    # a category's options given through the `all` pseudo-scheme apply to every scheme of that category, whether or not the scheme has an
    # option of its own there (expectation written from the documentation: <cat>__all__<opt> = default for all schemes in that category)
    rs = ["sha256_crypt", "sha512_crypt", "pbkdf2_sha256", "sha1_crypt"]
    for _ in range(10 if not ctx.thorough else 120):
        a, b2 = rng.sample(rs, 2)
        lo, hi = 3000, 5000
        opt = rng.choice(["min_rounds", "max_rounds", "default_rounds"])
        own = rng.choice([None, a, b2])
        kw = {"schemes": [a, b2], "default": rng.choice([a, b2]), f"admin__all__{opt}": {"min_rounds": lo, "max_rounds": hi, "default_rounds": 4000}[opt]}
        if own:
            kw[f"admin__{own}__vary_rounds"] = 0            # an own option of one scheme in that category, changing nothing
        try:
            c = CryptContext(**kw)
        except Exception as e:  # noqa: BLE001
            return {"input": {"op": "category-all-option", "kwds": kw}, "observed": errname(e) + ": " + str(e)[:80], "expected": "a valid configuration"}
        for n in (a, b2):
            hh = registry.get_crypt_handler(n)
            for r in (2000, 4000, 6000):
                hs = hh.using(rounds=r).hash("pw")
                for cat in (None, "admin", "other"):
                    if cat == "admin":
                        want = {"min_rounds": r < lo, "max_rounds": r > hi, "default_rounds": False}[opt]
                    else:
                        want = False
                    got = c.needs_update(hs, category=cat)
                    if got != want:
                        return {"input": {"op": "category-all-option", "kwds": kw, "category": cat, "scheme": n, "rounds": r, "hash": hs}, "observed": got, "expected": want}
        if opt == "default_rounds":
            d = c.default_scheme(category="admin")
            fresh = c.hash("pw", category="admin")
            got = registry.get_crypt_handler(d).from_string(fresh).rounds
            if got != 4000:
                return {"input": {"op": "category-all-option", "kwds": kw, "category": "admin", "call": "hash"}, "observed": {"hash": fresh, "rounds": got}, "expected": 4000}
    r = reconfigured_failure()
    if r:
        return r
    # per-category `deprecated`: the value that APPLIES to the category decides ("auto" = everything but that category's default; a list =
    # exactly the listed schemes; an empty list = nothing), whichever spelling the global setting uses
    base_schemes = ["sha256_crypt", "md5_crypt", "des_crypt"]
    samples = {n: registry.get_crypt_handler(n).using(**({"rounds": 1000} if n == "sha256_crypt" else {})).hash("pw") for n in base_schemes}
    for glob in (None, ["auto"], ["des_crypt"], ["md5_crypt", "des_crypt"], []):
        for catv in (None, ["auto"], ["des_crypt"], ["md5_crypt"], []):
            kw = {"schemes": base_schemes, "sha256_crypt__default_rounds": 1000, "sha256_crypt__min_rounds": 1000}
            if glob is not None:
                kw["deprecated"] = glob
            if catv is not None:
                kw["admin__context__deprecated"] = catv
            try:
                c = CryptContext(**kw)
            except Exception as e:  # noqa: BLE001
                return {"input": {"op": "category-deprecated", "kwds": kw}, "observed": errname(e) + ": " + str(e)[:80], "expected": "a valid configuration"}
            for cat in (None, "admin", "other"):
                eff_dep = catv if (cat == "admin" and catv is not None) else glob
                for n in base_schemes:
                    want = (n != "sha256_crypt") if eff_dep == ["auto"] else (n in (eff_dep or []))
                    got = c.needs_update(samples[n], category=cat)
                    if got != want:
                        return {"input": {"op": "category-deprecated", "kwds": kw, "category": cat, "scheme": n, "hash": samples[n]}, "observed": got, "expected": want}
                    ok, new = c.verify_and_update("pw", samples[n], category=cat)
                    if ok is not True or (new is not None) != want:
                        return {"input": {"op": "category-deprecated", "kwds": kw, "category": cat, "scheme": n, "hash": samples[n], "call": "verify_and_update"},
                                "observed": [ok, new], "expected": "(True, new) iff deprecated for that category"}
    # attribution does not depend on what the context was asked before: after any sequence of look-ups every hash is attributed like on
    # a fresh context of the same configuration (schemes whose strings overlap: a prefix-only claimer listed after a stricter one)
    overlap_sets = [["ldap_hex_md5", "ldap_md5", "ldap_hex_sha1", "ldap_sha1", "ldap_salted_sha1"], ["ldap_md5", "ldap_hex_md5", "md5_crypt"],
                    ["sha256_crypt", "ldap_hex_sha1", "ldap_sha1", "plaintext"], ["bigcrypt", "des_crypt", "crypt16"], ["des_crypt", "bigcrypt"],
                    ["django_salted_sha1", "django_salted_md5", "hex_md5", "hex_sha1"], ["nthash", "hex_md5", "lmhash", "hex_md4"]]
    for schemes in overlap_sets:
        hashes = []
        for n in schemes:
            h = registry.get_crypt_handler(n)
            hashes += [h.using(**({"rounds": h.min_rounds} if "rounds" in (h.setting_kwds or ()) else {})).hash(pw) for pw in ("pw", "another")]
        fresh_view = {}
        for hh in hashes:
            fresh_view[hh] = (CryptContext(schemes).identify(hh), CryptContext(schemes).verify("pw", hh))
        live = CryptContext(schemes)
        for _ in range(30 if not ctx.thorough else 300):
            hh = rng.choice(hashes)
            got = (live.identify(hh), live.verify("pw", hh))
            if got != fresh_view[hh]:
                return {"input": {"op": "lookup-history", "schemes": schemes, "hash": hh}, "observed": got, "expected": fresh_view[hh],
                        "check": "after earlier look-ups on the same context object"}
            ok, new = live.verify_and_update("pw", hh)
            if ok is not fresh_view[hh][1]:
                return {"input": {"op": "lookup-history", "schemes": schemes, "hash": hh, "call": "verify_and_update"}, "observed": [ok, new], "expected": fresh_view[hh][1]}
    # a cost of 0 is a legitimate configured value where the scheme's hard minimum is 0
    for kw in ({"schemes": ["sun_md5_crypt"], "sun_md5_crypt__default_rounds": 0}, {"schemes": ["sun_md5_crypt"], "sun_md5_crypt__default_rounds": 0, "sun_md5_crypt__max_rounds": 2000},
               {"schemes": ["sun_md5_crypt"], "guest__sun_md5_crypt__default_rounds": 0, "sun_md5_crypt__default_rounds": 3}):
        c = CryptContext(**kw)
        cat = "guest" if any(k.startswith("guest__") for k in kw) else None
        fresh = c.hash("pw", category=cat)
        r = registry.get_crypt_handler("sun_md5_crypt").from_string(fresh).rounds
        if r != 0 or c.needs_update(fresh, category=cat):
            return {"input": {"op": "zero-default-rounds", "kwds": kw, "category": cat}, "observed": {"hash": fresh, "rounds": r}, "expected": "0 rounds, as configured"}
    # bsdi_crypt makes generated costs odd: next to an EVEN minimum the result must still lie inside the window
    # (the even-maximum case is the recorded finding bsdi-odd-rounds-exceed-even-max and is not probed here)
    for mn in (30000, 12000, 5002):
        for kw in ({"schemes": ["bsdi_crypt"], "bsdi_crypt__min_rounds": mn}, {"schemes": ["bsdi_crypt"], "bsdi_crypt__min_rounds": mn, "bsdi_crypt__default_rounds": mn}):
            c = CryptContext(**kw)
            fresh = c.hash("pw")
            r = registry.get_crypt_handler("bsdi_crypt").from_string(fresh).rounds
            if r < mn or c.needs_update(fresh):
                return {"input": {"op": "bsdi-even-minimum", "kwds": kw}, "observed": {"hash": fresh, "rounds": r, "needs_update": c.needs_update(fresh)},
                        "expected": "an odd cost not below the configured minimum; not flagged"}
    for _ in range(80 if not ctx.thorough else 1500):
        schemes = rng.sample(fast, rng.randrange(1, 5))
        kw = {"schemes": schemes}
        if rng.random() < 0.5:
            kw["deprecated"] = rng.choice([["auto"], rng.sample(schemes[1:], rng.randrange(0, len(schemes)))])
        win = {}
        for s in schemes:
            h = registry.get_crypt_handler(s)
            if "rounds" in h.setting_kwds:
                lo = h.min_rounds
                if h.rounds_cost == "log2":
                    a = rng.randrange(lo, lo + 3); b = rng.randrange(a, a + 3); d = rng.randrange(a, b + 1)
                else:
                    a = rng.randrange(lo, lo + 2000); b = rng.randrange(a, a + 2000); d = rng.randrange(a, b + 1)
                kw[f"{s}__min_rounds"], kw[f"{s}__max_rounds"], kw[f"{s}__default_rounds"] = a, b, d
                win[s] = (a, b)
        try:
            c = CryptContext(**kw)
        except Exception as e:  # noqa: BLE001
            return {"input": {"op": "config", "kwds": kw}, "observed": errname(e), "expected": "a valid configuration"}
        d = c.default_scheme()
        fresh = c.hash("pw")
        if c.identify(fresh) != d and schemes.index(c.identify(fresh)) > schemes.index(d):
            return {"input": {"op": "fresh-hash", "schemes": schemes, "options": kw, "category": None}, "observed": {"identified": c.identify(fresh)}, "expected": d}
        if c.identify(fresh) == d:
            if c.needs_update(fresh):
                return {"input": {"op": "fresh-hash", "schemes": schemes, "options": {k: v for k, v in kw.items() if k != "schemes"}, "category": None},
                        "observed": {"hash": fresh, "needs_update": True}, "expected": "a hash the context has just produced never needs updating"}
            ok, new = c.verify_and_update("pw", fresh)
            if not ok or new is not None:
                return {"input": {"op": "vau-fresh", "kwds": kw}, "observed": (ok, new), "expected": (True, None)}
        dep = kw.get("deprecated", [])
        for s in schemes:
            h = registry.get_crypt_handler(s)
            for r in ([None] if s not in win else [win[s][0] - 1, win[s][0], win[s][1], win[s][1] + 1]):
                if r is not None and (r < h.min_rounds or r > h.max_rounds):
                    continue
                hh = h.using(rounds=r).hash("pw") if r is not None else h.hash("pw")
                who = c.identify(hh)
                if who != s:
                    if schemes.index(who) > schemes.index(s) or not registry.get_crypt_handler(who).identify(hh):
                        return {"input": {"op": "identify", "kwds": kw, "hash": hh}, "observed": who, "expected": s}
                    continue
                is_dep = (s != d) if dep == ["auto"] else (s in dep)
                outside = r is not None and not (win[s][0] <= r <= win[s][1])
                want = is_dep or outside
                got = c.needs_update(hh)
                if got != want:
                    return {"input": {"op": "needs_update", "kwds": kw, "scheme": s, "rounds": r}, "observed": got, "expected": want}
                ok, new = c.verify_and_update("pw", hh)
                ok2, new2 = c.verify_and_update("nope", hh)
                if (ok2, new2) != (False, None) or ok is not True or (new is None) == want:
                    return {"input": {"op": "verify_and_update", "kwds": kw, "scheme": s, "rounds": r}, "observed": [ok, new, ok2, new2], "expected": "(True, new iff needs update), (False, None)"}
                if new is not None and (c.identify(new) != d or not c.verify("pw", new) or c.needs_update(new)):
                    return {"input": {"op": "rehash", "kwds": kw, "scheme": s, "rounds": r}, "observed": new, "expected": "default-scheme hash verifying the password, needing no further update"}
    return None


def replay(ctx, inp):
    warnings.simplefilter("ignore")
    if inp.get("op") == "fresh-hash":
        from passlib.context import CryptContext

        c = CryptContext(inp["schemes"], **inp["options"])
        h = c.hash("pw", category=inp.get("category"))
        flagged = c.needs_update(h, category=inp.get("category"))
        return {"fails": bool(flagged), "observed": {"hash": h, "needs_update": flagged}}
    if inp.get("op") == "hash-vary":
        from passlib.context import CryptContext

        c = CryptContext(**inp["kwds"])
        for _ in range(200):
            try:
                h = c.hash("pw")
            except Exception as e:  # noqa: BLE001
                return {"fails": True, "observed": errname(e) + ": " + str(e)}
            if c.needs_update(h):
                return {"fails": True, "observed": {"hash": h, "needs_update": True}}
        return {"fails": False, "observed": "200 fresh hashes made and none flagged"}
    if inp.get("op") in ("attribution", "category-default", "category-fresh"):
        from passlib import registry
        from passlib.context import CryptContext

        kw, cat = inp["kwds"], inp.get("category")
        try:
            c = CryptContext(**kw)
            if inp["op"] == "attribution":
                want = next((s for s in kw["schemes"] if registry.get_crypt_handler(s).identify(inp["hash"])), None)
                got = c.identify(inp["hash"], category=cat)
                return {"fails": got != want, "observed": got, "expected": want}
            d = c.default_scheme(cat)
            if inp["op"] == "category-default":
                return {"fails": bool(c._config.is_deprecated_with_flag(d, cat)[0]), "observed": d}
            fresh = c.hash("pw", category=cat)
            return {"fails": bool(c.needs_update(fresh, category=cat)), "observed": {"hash": fresh, "needs_update": c.needs_update(fresh, category=cat)}}
        except Exception as e:  # noqa: BLE001
            return {"fails": True, "observed": errname(e) + ": " + str(e)}
    if inp.get("op") == "scheme-flag":
        from passlib.context import CryptContext

        try:
            c = CryptContext(**inp["kwds"])
            cat = inp.get("category")
            fresh = c.hash("pw", category=cat)
            obs = (c.needs_update(fresh, category=cat), c.verify_and_update("pw", fresh, category=cat))
            return {"fails": obs != (False, (True, None)), "observed": {"hash": fresh, "needs_update, verify_and_update": repr(obs)}}
        except Exception as e:  # noqa: BLE001
            return {"fails": True, "observed": errname(e) + ": " + str(e)}
    if inp.get("op") == "bytes-hash":
        from passlib.context import CryptContext

        c = CryptContext(**inp["kwds"])
        h = inp["hash"]
        try:
            a = (c.needs_update(h), c.verify_and_update("pw", h)[0])
            b = (c.needs_update(h.encode()), c.verify_and_update("pw", h.encode())[0])
            return {"fails": a != b, "observed": {"text": a, "bytes": b}}
        except Exception as e:  # noqa: BLE001
            return {"fails": True, "observed": errname(e) + ": " + str(e)}
    r = search(ctx, [], [])
    return {"fails": r is not None, "observed": r}
