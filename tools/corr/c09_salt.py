"""C09 — salt size / fixed salt / ident / truncation settings of using(): real classes vs Model.UsingSalt (driver suite `usalt`).

Synthetic handler classes (every combination of limits the mixins admit) and every registered salted / multi-ident / truncating
hasher are customised with values inside, at and beyond the limits, strictly and relaxed, as ints and as text; what the real class
then holds (default_salt_size, fixed salt, default_ident, truncate_error) and the salt of the next hash under a controlled random
source are compared with the model's answer.
"""
from __future__ import annotations

import warnings

from .common import errname


def cps(s) -> str:
    if isinstance(s, bytes):
        s = list(s)
    else:
        s = [ord(c) for c in s]
    return ",".join(map(str, s)) if s else "-"


class FixedRng:
    def __init__(self, v):
        self.v = v
        self.last_range = None

    def randrange(self, a, b=None):
        if b is None:
            a, b = 0, a
        self.last_range = b - a
        return a + self.v % (b - a)

    def getrandbits(self, k):
        return self.v % (1 << k)

    def randint(self, a, b):
        return a + self.v % (b - a + 1)


def mk_salt_cls(mn, mx, df, sc, dc):
    import passlib.utils.handlers as uh

    ns = dict(name="verif_salt", setting_kwds=("salt", "salt_size"), min_salt_size=mn, max_salt_size=mx, default_salt_size=df,
              salt_chars=sc, default_salt_chars=dc, checksum_size=1, checksum_chars="x", _calc_checksum=lambda self, secret: "x")
    return type("VerifSalt", (uh.HasSalt, uh.GenericHandler), ns)


def cls_arg(mn, mx, df, sc, dc):
    return f"{mn};{'N' if mx is None else mx};{df};{'N' if sc is None else cps(sc)};{cps(dc)}"


def size_arg(v):
    if v is None:
        return "N"
    if isinstance(v, str):
        return "s:" + cps(v)
    return f"i:{v}"


def model_suite(ctx, s):  # noqa: C901
    warnings.simplefilter("ignore")
    import passlib.utils.handlers as uh
    from passlib import hash as H
    from passlib.registry import list_crypt_handlers

    rng = ctx.rng
    thorough = ctx.thorough
    alph = ["ab", "./0123456789", "abcdefghijklmnopqrstuvwxyzABCDEFGHIJKLMNOPQRSTUVWXYZ0123456789./", "xyz"]
    # ---- _clip_to_valid_salt_size on synthetic classes: every small (mn, mx) incl. mx None / 0 / = mn, every n around the limits
    for mn in (0, 1, 2, 4, 8):
        for mx in (None, 0, 1, 2, 4, 8, 16):
            if mx not in (None, 0) and mx < mn:
                continue
            for relaxed in (False, True):
                for n in sorted({-3, -1, 0, 1, mn - 1, mn, mn + 1, (mx or 0) - 1, (mx or 0), (mx or 0) + 1, 40}):
                    c = mk_salt_cls(mn, mx, mn, "ab", "ab")
                    try:
                        ans = "ok " + str(c._clip_to_valid_salt_size(n, relaxed=relaxed))
                    except Exception as e:  # noqa: BLE001
                        ans = "err " + errname(e)
                    s.add_raw(f"usalt clip {mn} {'N' if mx is None else mx} {int(relaxed)} {n}", ans, "clip")
    # ---- using(salt_size / default_salt_size / salt / relaxed) + the salt of the next hash
    n_cases = 400 if not thorough else 6000
    for _ in range(n_cases):
        mn = rng.choice([0, 0, 1, 2, 4, 8])
        mx = rng.choice([None, 0, mn, mn + 1, mn + 4, 16, 22])
        if mx not in (None, 0) and mx < mn:
            mx = mn
        hi = mx if mx else mn + 6
        df = rng.randint(mn, hi)
        dc = rng.choice(alph)
        sc = rng.choice([None, dc, dc, dc + "!", alph[2]])
        if sc is not None and any(ch not in sc for ch in dc):
            sc = dc
        relaxed = rng.random() < 0.4
        pick = lambda: rng.choice([None, None, mn - 1, mn, mn + 1, hi - 1, hi, hi + 1, hi + 7, -2, str(rng.choice([mn, hi, hi + 1])), f" {hi} ", "x", "", "1_0", "٣"])  # noqa: E731
        sz, dsz = pick(), (pick() if rng.random() < 0.25 else None)
        if rng.random() < 0.5:
            sz, dsz = dsz, sz
        salt = None
        if rng.random() < 0.35:
            ln = rng.choice([0, mn - 1 if mn else 0, mn, hi, hi + 1, hi + 5])
            pool = dc if rng.random() < 0.8 else dc + "!$"
            salt = "".join(rng.choice(pool) for _ in range(max(ln, 0)))
        kw = {}
        if sz is not None:
            kw["salt_size"] = sz
        if dsz is not None:
            kw["default_salt_size"] = dsz
        if salt is not None:
            kw["salt"] = salt
        if relaxed:
            kw["relaxed"] = True
        base = mk_salt_cls(mn, mx, df, sc, dc)
        sub = None
        try:
            sub = base.using(**kw)
            fixed = sub._generate_salt() if "_generate_salt" in sub.__dict__ else None
            ans = f"ok {sub.default_salt_size} {'N' if fixed is None else cps(fixed)}"
        except Exception as e:  # noqa: BLE001
            ans = "err " + errname(e)
        s.add_raw(f"usalt using {cls_arg(mn, mx, df, sc, dc)} {int(relaxed)} {size_arg(sz)} {size_arg(dsz)} {'N' if salt is None else cps(salt)}", ans, "using")
        # the parent is untouched
        if (base.default_salt_size, "_generate_salt" in base.__dict__) != (df, False):
            s.add_raw("usalt parent-mutated", "parent class changed by using()", "using-frame")
        if sub is not None:
            draw = rng.getrandbits(80)
            fr = FixedRng(draw)
            old = uh.rng
            uh.rng = fr
            try:
                try:
                    got = "ok " + cps(sub(use_defaults=True).salt)
                except Exception as e:  # noqa: BLE001
                    got = "err " + errname(e)
            finally:
                uh.rng = old
            fixed = sub._generate_salt() if "_generate_salt" in sub.__dict__ else None
            d = draw % fr.last_range if fr.last_range else 0
            s.add_raw(f"usalt init {cls_arg(mn, mx, sub.default_salt_size, sc, dc)} {'N' if fixed is None else cps(fixed)} {d}", got, "init")
    # ---- the registered salted hashers: their own limits through the same model
    for name in list_crypt_handlers():
        try:
            h = getattr(H, name)
        except Exception:  # noqa: BLE001
            continue
        if not (isinstance(h, type) and issubclass(h, uh.HasSalt)) or "salt_size" not in (h.setting_kwds or ()):
            continue
        if getattr(h, "_salt_is_bytes", False):
            sc, dc = None, bytes([0, 1])
        else:
            sc, dc = h.salt_chars, h.default_salt_chars
        mn, mx, df = h.min_salt_size, h.max_salt_size, h.default_salt_size
        for relaxed in (False, True):
            for k in sorted({mn - 1, mn, mn + 1, (mx or mn + 30) - 1, (mx or mn + 30), (mx or mn + 30) + 1, df}):
                try:
                    kw = dict(salt_size=k)
                    if relaxed:
                        kw["relaxed"] = True
                    sub = h.using(**kw)
                    ans = f"ok {sub.default_salt_size} N"
                except Exception as e:  # noqa: BLE001
                    ans = "err " + errname(e)
                s.add_raw(f"usalt using {cls_arg(mn, mx, df, sc, dc)} {int(relaxed)} i:{k} N N", ans, "using-registered")
    # ---- identifiers: synthetic classes and the registered multi-ident hashers
    def ident_case(values, aliases, default, di, i, cls, tag):
        try:
            kw = {}
            if di is not None:
                kw["default_ident"] = di
            if i is not None:
                kw["ident"] = i
            ans = "ok " + cps(cls.using(**kw).default_ident)
        except Exception as e:  # noqa: BLE001
            ans = "err " + errname(e)
        al = ";".join(f"{cps(k)}={cps(v)}" for k, v in aliases.items()) or "-"
        s.add_raw(f"usalt ident {';'.join(cps(v) for v in values)} {al} {cps(default)} {'N' if di is None else cps(di)} {'N' if i is None else cps(i)}", ans, tag)

    for name in list_crypt_handlers():
        try:
            h = getattr(H, name)
        except Exception:  # noqa: BLE001
            continue
        if not (isinstance(h, type) and issubclass(h, uh.HasManyIdents)):
            continue
        if name == "bcrypt_sha256":
            continue        # its constructor adds a rule of its own (version 2 admits $2b$ only): covered by the settings oracle of C09
        values, aliases, default = list(h.ident_values), dict(h.ident_aliases or {}), h.default_ident
        probes = list(values) + list(aliases) + ["", "$", "$9$", values[0][:-1], values[0] + "$", values[0].upper()]
        for p in probes:
            for di, i in ((None, p), (p, None), (p, values[0])):
                try:
                    ident_case(values, aliases, default, di, i, h, "ident-registered")
                except Exception:  # noqa: BLE001
                    raise
    for _ in range(60 if not thorough else 600):
        values = rng.sample(["$a$", "$b$", "$c$", "$d$"], rng.randint(1, 3))
        aliases = {k: rng.choice(["$a$", "$b$", "$c$", "$d$", "$z$"]) for k in rng.sample(["a", "b", "c", "z"], rng.randint(0, 3))}
        default = values[0]
        ns = dict(name="verif_ident", setting_kwds=("ident",), ident_values=tuple(values), ident_aliases=aliases, default_ident=default,
                  checksum_size=1, checksum_chars="x", _calc_checksum=lambda self, secret: "x")
        cls = type("VerifIdent", (uh.HasManyIdents, uh.GenericHandler), ns)
        p = rng.choice(values + list(aliases) + ["$z$", "q", ""])
        di, i = rng.choice([(None, p), (p, None), (p, p), (None, None)])
        ident_case(values, aliases, default, di, i, cls, "ident-synthetic")
    # ---- truncation policy
    words = ["true", "t", "yes", "y", "on", "1", "enable", "enabled", "false", "f", "no", "n", "off", "0", "disable", "disabled", "", "none", "maybe", "2", "tru", "yess", "o n", "nonee"]
    deco = [lambda w: w, str.upper, str.title, lambda w: " " + w + "\t", lambda w: " " + w + " ", lambda w: w + "\n", lambda w: "\x1f" + w, lambda w: w.replace("i", "İ"),
            lambda w: w.replace("k", "K"), lambda w: "x" + w, lambda w: w.replace("s", "ſ"), lambda w: w + "​"]
    from passlib.hash import bcrypt as rb
    from passlib.hash import des_crypt

    for base_h in (des_crypt, rb):
        for parent in (False, True):
            p = base_h.using(truncate_error=parent)
            for arg, enc in [(None, "N"), (True, "b:1"), (False, "b:0")] + [(f(w), "s:" + cps(f(w))) for w in words for f in deco]:
                try:
                    ans = "ok " + str(bool(p.using(truncate_error=arg).truncate_error))
                except Exception as e:  # noqa: BLE001
                    ans = "err " + errname(e)
                s.add_raw(f"usalt trunc {int(parent)} {enc}", ans, "trunc")
            if p.truncate_error is not parent:
                s.add_raw("usalt parent-mutated", "truncate_error of the parent changed", "trunc-frame")


if __name__ == "__main__":
    import json
    import os
    import sys

    sys.path.insert(0, os.path.dirname(os.path.dirname(os.path.abspath(__file__))))
    from corr.common import Suite
    from runner import Ctx

    ctx = Ctx("C09", "thorough" if "--thorough" in sys.argv else "quick", int(os.environ.get("VERIF_SEED", "0")))
    su = Suite(ctx, "using-salt-ident-truncate-model")
    model_suite(ctx, su)
    r = su.result()
    print(json.dumps({k: r[k] for k in ("cases", "unmodelled", "distribution")}, indent=1))
    print("mismatches:", len(r["mismatches"]))
    for m in r["mismatches"][:10]:
        print(m)
