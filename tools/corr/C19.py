"""C19 — first use from several threads behaves like first use from one."""
from __future__ import annotations

import json
import os
import shutil
import subprocess
import sys
import tempfile
import time
from concurrent.futures import ThreadPoolExecutor

from .common import Oracle, Suite, merge

GEN_UNITS = ["Threads", "ThreadsLines", "Backend", "Registry", "ContextPolicy", "LazyTables"]
LEAN_TARGETS = ["PasslibVerif.Props.C19", "PasslibVerif.Props.C19Tables"]
ASSUMPTIONS = [
    "every single access to shared state (one attribute load / store / delete on the shared object or class, one lock operation, one dict get/set) is atomic: CPython with the GIL; free-threaded builds are out of scope",
    "the theorems quantify over ALL interleavings of such single accesses, for any number of threads; the real-code correspondence can only preempt between source lines and explores a bounded subset (2 threads / 2 preemptions quick, up to 3 / 3 thorough), plus free-running stress",
    "`__import__` runs a module body once under the import system's own locks and returns the initialised module (Instr.importOnce); `threading.RLock` is a correct re-entrant lock",
    "the slow initialisers themselves (CryptContext.__init__, Base64Engine.__init__, backend loaders, onload callbacks) succeed as they do for a single thread and touch the shared object only through the accesses the translator lists; re-entrant attribute access from inside CryptContext.__init__ is handled by the `_lazy_busy` flag (pinned statement, exercised by every real run)",
    "which backend loaders succeed on this host is reflected at translation time (md5_crypt, bcrypt); backend switching with set_backend() while other threads hash is documented as unsupported by passlib: stress-tested here (no failure observed), not part of the theorems",
]
EXPLANATION = (
    "The translator (tools/extract_units_threads.py + threads_compile.py) compiles the CURRENT text of LazyCryptContext.__getattribute__/_lazy_init (without and with onload), "
    "LazyBase64Engine ditto, the HasManyBackends lazy stub -> _stub_requires_backend -> set_backend -> loader commit (md5_crypt), bcrypt's _NoBackend stub -> "
    "SubclassBackendMixin._set_backend -> update_mixin_classes, and registry.get_crypt_handler of an unloaded name into lists of micro-instructions with at most one shared "
    "access each (Gen/Threads.lean). Model/Threads.lean interprets them for any number of threads (step : World -> Tid -> World). Props/C19 proves, for every schedule and "
    "every number of threads: a finishing thread gets the single-thread outcome (first_use_linearizable_*), the initialiser and onload start at most once (init_once_*), "
    "writers hold the lock (mutual_exclusion_*), the lock holder can always move (no_deadlock_*), and after initialisation a call depends only on its own steps "
    "(post_init_independent_*) — by an inductive invariant over step (Lemmas.Threads.inv_init / inv_step / inv_run) whose finite description is computed from the instruction "
    "list and checked by the kernel; no schedule enumeration. The pre-fix protocols (same translator, old text) are kept as data and proved unsafe with witness schedules. "
    "Correspondence: tools/sched.py drives REAL threads deterministically (settrace line events, scheduler-aware replacement of the module RLock, a forked process per "
    "schedule); every schedule enumerated by the model up to the preemption bound is run on the real code and through the model and the per-quantum traces (thread, source line) "
    "and per-thread outcomes are compared; free-running stress and post-initialisation independence are oracles on the real code alone."
)
ONLY_CORRESPONDENCE = [
    "that CPython preempts no finer than the single accesses of the model (GIL atomicity of attribute get/set/del and dict operations)",
    "interleavings inside one source line and schedules beyond the preemption bound are covered by the theorem only, not by real runs",
    "post-initialisation independence of real hash/verify calls (digest code, salts, os crypt()) is a stress oracle; the theorem covers the lazy-initialisation protocol state only",
]

HERE = os.path.dirname(os.path.abspath(__file__))
TOOLS = os.path.dirname(HERE)
REPO = os.environ.get("PASSLIB_REPO", "/repo")
PROTOS = ["ctx", "ctxOnload", "eng", "stub", "bcStub", "reg"]
WANT = {"ctx": 4, "ctxOnload": 5, "eng": 2, "stub": 2, "bcStub": 2, "reg": 2}
WHAT = {
    "ctx": "fresh LazyCryptContext(schemes=[md5_crypt]).schemes()", "ctxOnload": "fresh LazyCryptContext(schemes=[des_crypt], onload=f).schemes() (f returns schemes=[md5_crypt])",
    "eng": "fresh LazyBase64Engine(HASH64_CHARS).encode_bytes(b'abc')", "stub": "md5_crypt.verify('password', <hash>) in a process that has not loaded a backend",
    "bcStub": "bcrypt.verify('password', <hash>) in a process that has not loaded a backend", "reg": "registry.get_crypt_handler('md5_crypt') in a process that has not imported it",
}


def _tools():
    if TOOLS not in sys.path:
        sys.path.insert(0, TOOLS)
    import extract_units_threads as T
    import sched

    return T, sched


def worker(req, timeout=3000):
    p = subprocess.run([sys.executable, os.path.join(TOOLS, "sched.py")], input=json.dumps(req).encode(), capture_output=True, timeout=timeout,
                       env=dict(os.environ, PASSLIB_BUILTIN_BCRYPT=""))
    if p.returncode != 0:
        raise RuntimeError("sched worker failed: " + p.stderr.decode()[-1500:])
    return json.loads(p.stdout)


def real_runs(repo, proto, n, schedules, points, procs=4):
    """run the schedules on the real code; parallel worker processes, each forking one child per schedule"""
    if not schedules:
        return []
    procs = max(1, min(procs, len(schedules) // 8 or 1))
    parts = [schedules[i::procs] for i in range(procs)]
    with ThreadPoolExecutor(procs) as ex:
        outs = list(ex.map(lambda part: worker({"repo": repo, "proto": proto, "n": n, "points": points, "schedules": part})["runs"], parts))
    res = [None] * len(schedules)
    for i, o in enumerate(outs):
        res[i::procs] = o
    return res


def show(run):
    if "crash" in run:
        return "crash: " + run["crash"][-300:]
    s = ",".join(f"{t}:{ln}" for t, ln in run["trace"]) + " => " + "|".join(run["out"])
    if run.get("notes"):
        s += " !! " + "; ".join(run["notes"])
    return s


def run_failed(proto, run):
    return "crash" in run or bool(run.get("notes")) or any(o != f"ok:{WANT[proto]}" for o in run["out"])


def make_old_tree(tmp):
    """a complete passlib tree with the three pre-fix files (None when the history is not available)"""
    sys.path.insert(0, TOOLS)
    import threads_old

    shutil.copytree(os.path.join(REPO, "passlib"), os.path.join(tmp, "passlib"), ignore=shutil.ignore_patterns("__pycache__"))
    return threads_old.old_tree(tmp)


def enum_schedules(ctx, name, n, k):
    out = ctx.model([f"threads enum {name} {n} {k}"])[0]
    if out in ("", "bad-op"):
        return []
    return [[int(x) for x in s.split(",")] for s in out.split(";") if s and s != "-"]


def correspond(ctx):
    T, sched = _tools()
    t_start = time.time()
    s_sched = Suite(ctx, "schedules-real-vs-model")
    o_first = Oracle(ctx, "scheduled-first-calls-get-the-single-thread-result")
    o_free = Oracle(ctx, "free-running-first-calls")
    o_post = Oracle(ctx, "post-initialisation-independence")
    o_old = Oracle(ctx, "old-protocols-still-derivable-and-detected")
    try:
        progs = T.compile_all(REPO)
    except Exception as e:  # noqa: BLE001
        # the translator refuses the current text (reported as the broken obligation translate:Threads): no model schedules to
        # compare; the real-code parts below still run and the search preempts at every line instead
        progs = None
        ctx.notes.append(f"protocols not compilable from the current source ({str(e)[:200]}): model-enumerated schedules skipped")
    # ---- 1. every schedule the model enumerates, on the real code and through the model
    bounds = [(2, 2, None), (3, 1, None)] if not ctx.thorough else [(2, 3, None), (3, 2, None), (3, 3, 8000)]
    jobs = []
    for proto in (PROTOS if progs is not None else []):
        pts = sched.preemption_lines(progs[proto])
        for n, k, cap in bounds:
            sc = enum_schedules(ctx, proto, n, k)
            if cap and len(sc) > cap:
                sc = ctx.rng.sample(sc, cap)
            jobs.append((proto, n, k, sc, pts))
    total = sum(len(j[3]) for j in jobs)
    ctx.notes.append(f"{total} schedules enumerated by the model: " + ", ".join(f"{p}[{n}thr/{k}pre]={len(sc)}" for p, n, k, sc, _ in jobs))
    with ThreadPoolExecutor(6) as ex:
        results = list(ex.map(lambda j: real_runs(REPO, j[0], j[1], j[3], j[4], procs=3 if not ctx.thorough else 4), jobs))
    for (proto, n, k, sc, _pts), runs in zip(jobs, results):
        for s, r in zip(sc, runs):
            line = f"threads qrun {proto} {n} " + ",".join(map(str, s))
            s_sched.add_raw(line, show(r), f"{proto}-{n}thr")
            inp = {"op": "schedule", "proto": proto, "n": n, "points": "model", "schedule": s}
            o_first.check(proto, not run_failed(proto, r), inp, show(r)[-300:] + " " + str([e for e in r.get("errors", []) if e]), f"every thread: ok:{WANT[proto]} ({WHAT[proto]})")
    # ---- 2. free running stress
    reps, nthr = (30, 12) if not ctx.thorough else (300, 16)
    with ThreadPoolExecutor(6) as ex:
        free = list(ex.map(lambda p: worker({"repo": REPO, "proto": p, "n": nthr, "points": [], "schedules": [], "free": reps, "free_n": nthr})["free"], PROTOS))
    for proto, runs in zip(PROTOS, free):
        for i, r in enumerate(runs):
            ok = "crash" not in r and not r["notes"] and all(o == f"ok:{WANT[proto]}" for o in r["out"])
            o_free.check(proto, ok, {"op": "stress", "proto": proto, "threads": nthr, "reps": 40}, r if not ok else r["out"][:3], f"{nthr} threads: ok:{WANT[proto]}")
    # ---- 2b. the initialisation made slow through the public API, other threads released while the first is inside it
    o_slow = Oracle(ctx, "slow-initialisation-windows")
    for proto, runs in zip(PROTOS, slow_runs(2 if not ctx.thorough else 10)):
        for r in runs:
            if r.get("skipped"):
                continue
            ok = "crash" not in r and not r["notes"] and all(o == "ok" for o in r["out"])
            o_slow.check(proto, ok, {"op": "slow-window", "proto": proto, "threads": 4}, r, "every thread: the single-thread result, initialisation once")
    # ---- 2d. first use from one thread while another does something else to the same object
    for kind, r in mixed_runs(ctx.thorough).items():
        ok = "crash" not in r and not r.get("bad")
        o_slow.check("mixed:" + kind, ok, {"op": "mixed", "kind": kind}, r if not ok else {"runs": r.get("runs")}, "every call gets the single-thread answer")
    # ---- 2c. lazily built DES tables: a line-level schedule that stops the first thread between the table assignments
    p = subprocess.run([sys.executable, "-W", "ignore", os.path.join(TOOLS, "corr", "c19_des_demo.py")], capture_output=True, text=True, timeout=120, env=dict(os.environ, PYTHONPATH=REPO))
    o_slow.check("des-tables", p.returncode == 0, {"op": "des-tables"}, (p.stdout + p.stderr)[-300:], "both threads get the DES block")
    # ---- 2e. the same for the Blowfish tables and for the digest look-up cache (first look-up of an OpenSSL-only digest)
    for op, script, want in (("blowfish-tables", "c19_blowfish_demo.py", "both threads get the bcrypt digest"), ("lookup-hash-cache", "c19_lookup_hash_demo.py", "both threads get the digest"),
                             ("lazy-prefix-wrapper", "c19_lazy_wrapper_demo.py", "both threads get the single-thread answers while the wrapped handler's module is being imported"),
                             ("wordset-loader", "c19_wordset_demo.py", "both threads get a phrase of the word set, wherever the first one is preempted while loading it")):
        p = subprocess.run([sys.executable, "-W", "ignore", os.path.join(TOOLS, "corr", script)], capture_output=True, text=True, timeout=120, env=dict(os.environ, PYTHONPATH=REPO))
        o_slow.check(op, p.returncode == 0, {"op": op}, (p.stdout + p.stderr)[-300:], want)
    # ---- 3. after initialisation: concurrent hash / verify on shared hashers and contexts = sequential answers
    for r in post_init_runs(1 if not ctx.thorough else 10):
        o_post.check(r["what"], r["ok"], {"op": "post-init", "what": r["what"]}, r["observed"], "the answers of the sequential run")
    # ---- 4. the pre-fix protocols: still what the translator derives from the old text; the harness finds their races
    if progs is not None:
        old_checks(ctx, o_old, T, sched)
    ctx.notes.append(f"correspondence wall time {time.time() - t_start:.1f} s")
    return merge(s_sched, o_first, o_free, o_slow, o_post, o_old)


def post_init_runs(reps):
    code = r'''
import sys, json, threading, warnings
warnings.simplefilter("ignore")
sys.path.insert(0, sys.argv[1])
sys.setswitchinterval(1e-6)
from passlib.hash import md5_crypt, sha256_crypt, des_crypt, bcrypt, sha512_crypt, pbkdf2_sha256
from passlib.context import CryptContext, LazyCryptContext
from passlib.apps import custom_app_context, ldap_nocrypt_context
from passlib.utils.binary import h64, h64big, bcrypt64
ctx = LazyCryptContext(schemes=["sha256_crypt", "md5_crypt", "des_crypt"], deprecated=["des_crypt"], sha256_crypt__default_rounds=1000)
hashers = {"md5_crypt": md5_crypt.using(salt="saltsalt"), "sha256_crypt": sha256_crypt.using(salt="saltsalt", rounds=1000), "des_crypt": des_crypt.using(salt="ab"),
           "bcrypt": bcrypt.using(salt="abcdefghijklmnopqrstuO", rounds=4), "sha512_crypt": sha512_crypt.using(salt="saltsalt", rounds=1000),
           "pbkdf2_sha256": pbkdf2_sha256.using(salt=b"saltsalt", rounds=10)}
pws = ["password", "pässword", "", "x" * 80]
def ops():
    res = []
    for name, h in sorted(hashers.items()):
        for pw in pws:
            s = h.hash(pw)
            res.append((name, pw, s, h.verify(pw, s), h.verify(pw + "x", s)))
    for pw in pws:
        for name, h in sorted(hashers.items()):
            if name not in ("sha256_crypt", "md5_crypt", "des_crypt"):
                continue
            s = h.hash(pw)
            res.append(("ctx", name, ctx.identify(s), ctx.verify(pw, s), ctx.needs_update(s), ctx.verify_and_update(pw + "y", s)[0]))
        s = hashers["sha256_crypt"].hash(pw)
        res.append(("app", custom_app_context.verify(pw, s), custom_app_context.identify(s), custom_app_context.needs_update(s),
                    ldap_nocrypt_context.identify(ldap_nocrypt_context.hash(pw)), ldap_nocrypt_context.verify(pw, "{MD5}X03MO1qnZdYdgyfeuILPmQ==")))
        res.append(("eng", h64.encode_bytes(pw.encode()), h64big.encode_bytes(pw.encode()), bcrypt64.encode_bytes(pw.encode())))
    return json.dumps(res, sort_keys=True, default=str)
seq = ops()          # initialises everything, sequentially
out = []
for rep in range(int(sys.argv[2])):
    n = 12
    got = [None] * n
    bar = threading.Barrier(n)
    def body(i):
        bar.wait()
        try:
            got[i] = ops()
        except BaseException as e:
            got[i] = "exc " + type(e).__name__ + ": " + str(e)[:120]
    ths = [threading.Thread(target=body, args=(i,)) for i in range(n)]
    [t.start() for t in ths]; [t.join(120) for t in ths]
    bad = [g for g in got if g != seq]
    out.append({"what": "12 threads x %d hash/verify/identify/needs_update calls on shared hashers, contexts, engines" % (len(json.loads(seq))), "ok": not bad,
                "observed": ("all equal to the sequential answers" if not bad else str(bad[0])[:300])})
print(json.dumps(out))
'''
    p = subprocess.run([sys.executable, "-c", code, REPO, str(reps)], capture_output=True, timeout=1200)
    if p.returncode != 0:
        return [{"what": "post-init stress", "ok": False, "observed": p.stderr.decode()[-400:]}]
    return json.loads(p.stdout)


def old_checks(ctx, o_old, T, sched):
    sys.path.insert(0, TOOLS)
    import threads_old

    lean_old = open(os.path.join(TOOLS, "..", "lean", "PasslibVerif", "Model", "ThreadsOld.lean"), encoding="utf-8").read()
    with tempfile.TemporaryDirectory() as tmp:
        try:
            got = make_old_tree(tmp)
        except Exception as e:  # noqa: BLE001
            got = None
            ctx.notes.append(f"old tree: {e}")
        if got is None:
            ctx.notes.append("repository history not available: the pre-fix texts were not re-derived in this run")
            return
        facts = T.host_facts()
        witnessed = {}
        for _commit, (_path, protos) in threads_old.OLD.items():
            old = T.compile_all([tmp, REPO], facts=facts, only=protos)
            for name, p in old.items():
                text = T.lean_prog(name + "Old", p)       # instructions + initial state (source positions are kept apart)
                o_old.check("same-data:" + name, text in lean_old, {"op": "old-text", "proto": name}, "derived program differs from Model/ThreadsOld.lean" if text not in lean_old else "identical",
                            "the instruction list kept in Model/ThreadsOld.lean")
                witnessed[name] = p
        # the harness must FIND the races of the old code (non-vacuity of the real-code search), and agree with the old model on them
        todo = ["ctx", "eng"] if not ctx.thorough else ["ctx", "ctxOnload", "eng", "stub", "bcStub"]
        for proto in todo:
            sc = enum_schedules(ctx, proto + "Old", 2, 1 if not ctx.thorough else 2)
            runs = real_runs([tmp], proto, 2, sc, sched.preemption_lines(witnessed[proto]), procs=3)
            model = ctx.model([f"threads qrun {proto}Old 2 " + ",".join(map(str, s)) for s in sc])
            failing = [s for s, r in zip(sc, runs) if run_failed(proto, r)]
            agree = sum(1 for r, m in zip(runs, model) if show(r) == m)
            o_old.check("race-found:" + proto, bool(failing), {"op": "old-tree", "proto": proto}, f"{len(failing)} of {len(sc)} schedules fail on the pre-fix code", "at least one failing schedule")
            o_old.check("old-model-agrees:" + proto, agree == len(sc), {"op": "old-tree", "proto": proto}, f"{agree} of {len(sc)} traces+outcomes equal", "all")


# ---------------------------------------------------------------------------------------------------------------------
MIXED = {"has-during-load": (3, 12), "list-during-load": (1, 1), "records-first-call": (400, 4000)}


def mixed_runs(thorough=False, only=None):
    kinds = [k for k in MIXED if only is None or k == only]
    # the registry kind needs unloaded names: its own fresh worker process (nothing imported yet); the others share one
    with ThreadPoolExecutor(3) as ex:
        res = list(ex.map(lambda k: worker({"repo": REPO, "proto": "eng", "n": 1, "points": [], "schedules": [], "mixed": {k: MIXED[k][1 if thorough else 0]}}).get("mixed", {}).get(k, {"crash": "no answer"}), kinds))
    return dict(zip(kinds, res))


def slow_runs(reps):
    with ThreadPoolExecutor(6) as ex:
        return list(ex.map(lambda p: worker({"repo": REPO, "proto": p, "n": 4, "points": [], "schedules": [], "slow": reps, "slow_n": 4}).get("slow", []), PROTOS))


def search(ctx, broken, seeds):
    """the property on the real code: enumerate / sample schedules of first calls, then free-running stress; first failure wins"""
    T, sched = _tools()
    for op, script in (("des-tables", "c19_des_demo.py"), ("blowfish-tables", "c19_blowfish_demo.py"), ("lookup-hash-cache", "c19_lookup_hash_demo.py"), ("lazy-prefix-wrapper", "c19_lazy_wrapper_demo.py"),
                       ("wordset-loader", "c19_wordset_demo.py")):
        p = subprocess.run([sys.executable, "-W", "ignore", os.path.join(TOOLS, "corr", script)], capture_output=True, text=True, timeout=120, env=dict(os.environ, PYTHONPATH=REPO))
        if p.returncode != 0:
            return {"input": {"op": op}, "observed": (p.stdout + p.stderr)[-300:], "expected": "every thread gets the single-thread answer"}
    for kind, r in mixed_runs(False).items():
        if "crash" in r or r.get("bad"):
            return {"input": {"op": "mixed", "kind": kind}, "observed": r.get("bad", r)[:2] if isinstance(r.get("bad", r), list) else r, "expected": "every call gets the single-thread answer"}
    for proto, runs in zip(PROTOS, slow_runs(3)):
        for r in runs:
            if not r.get("skipped") and ("crash" in r or r["notes"] or any(o != "ok" for o in r["out"])):
                return {"input": {"op": "slow-window", "proto": proto, "threads": 4}, "observed": r,
                        "expected": "every thread gets the single-thread result while another thread is inside the (slow) initialisation"}
    try:
        progs = T.compile_all(REPO)
    except Exception:  # noqa: BLE001
        progs = None
    rng = ctx.rng
    for proto in PROTOS:
        cands = []
        if progs is not None:
            try:
                cands = [("model", s) for s in enum_schedules(ctx, proto, 2, 2)]
            except Exception:  # noqa: BLE001
                cands = []
        # without (or besides) the model: random schedules, preempting at every line of the protocol's functions
        cands += [("all-lines", [rng.randrange(2) for _ in range(rng.choice([30, 60, 120]))]) for _ in range(150 if not ctx.thorough else 1500)]
        cands += [("all-lines", [rng.randrange(3) for _ in range(rng.choice([60, 120]))]) for _ in range(60 if not ctx.thorough else 600)]
        for kind in ("model", "all-lines"):
            sc = [s for k, s in cands if k == kind]
            if not sc:
                continue
            n = 3 if kind == "all-lines" else 2
            pts = sched.preemption_lines(progs[proto]) if kind == "model" else "all-lines"
            runs = real_runs(REPO, proto, n, sc, pts, procs=8)
            for s, r in zip(sc, runs):
                if run_failed(proto, r):
                    return {"input": {"op": "schedule", "proto": proto, "n": n, "points": kind, "schedule": s},
                            "observed": {"outcomes": r.get("out"), "errors": r.get("errors"), "notes": r.get("notes"), "crash": r.get("crash")},
                            "expected": f"every thread: ok:{WANT[proto]} — {WHAT[proto]}"}
        free = worker({"repo": REPO, "proto": proto, "n": 12, "points": [], "schedules": [], "free": 40, "free_n": 12})["free"]
        for r in free:
            if "crash" in r or r["notes"] or any(o != f"ok:{WANT[proto]}" for o in r["out"]):
                return {"input": {"op": "stress", "proto": proto, "threads": 12, "reps": 40}, "observed": r, "expected": f"every thread: ok:{WANT[proto]} — {WHAT[proto]}"}
    for r in post_init_runs(2):
        if not r["ok"]:
            return {"input": {"op": "post-init", "what": r["what"]}, "observed": r["observed"], "expected": "the answers of the sequential run"}
    return None


def replay(ctx, inp):
    T, sched = _tools()
    op = inp.get("op")
    if op == "schedule":
        proto = inp["proto"]
        pts = inp.get("points", "all-lines")
        if pts == "model":
            try:
                pts = sched.preemption_lines(T.compile_all(REPO, only=[proto])[proto])
            except Exception:  # noqa: BLE001
                pts = "all-lines"
        r = real_runs(REPO, proto, inp["n"], [inp["schedule"]], pts, procs=1)[0]
        return {"fails": run_failed(proto, r), "observed": {"outcomes": r.get("out"), "errors": r.get("errors"), "notes": r.get("notes"), "crash": r.get("crash")}}
    if op == "stress":
        proto = inp["proto"]
        free = worker({"repo": REPO, "proto": proto, "n": inp.get("threads", 12), "points": [], "schedules": [], "free": inp.get("reps", 40), "free_n": inp.get("threads", 12)})["free"]
        bad = [r for r in free if "crash" in r or r["notes"] or any(o != f"ok:{WANT[proto]}" for o in r["out"])]
        return {"fails": bool(bad), "observed": bad[:2] or f"{len(free)} runs, every thread ok:{WANT[proto]}"}
    if op == "mixed":
        r = mixed_runs(False, only=inp["kind"]).get(inp["kind"], {})
        return {"fails": "crash" in r or bool(r.get("bad")), "observed": r}
    if op == "des-tables":
        p = subprocess.run([sys.executable, "-W", "ignore", os.path.join(TOOLS, "corr", "c19_des_demo.py")], capture_output=True, text=True, timeout=120, env=dict(os.environ, PYTHONPATH=REPO))
        return {"fails": p.returncode != 0, "observed": (p.stdout + p.stderr)[-300:]}
    if op in ("blowfish-tables", "lookup-hash-cache", "lazy-prefix-wrapper", "wordset-loader"):
        script = {"blowfish-tables": "c19_blowfish_demo.py", "lookup-hash-cache": "c19_lookup_hash_demo.py", "lazy-prefix-wrapper": "c19_lazy_wrapper_demo.py",
                  "wordset-loader": "c19_wordset_demo.py"}[op]
        p = subprocess.run([sys.executable, "-W", "ignore", os.path.join(TOOLS, "corr", script)], capture_output=True, text=True, timeout=120, env=dict(os.environ, PYTHONPATH=REPO))
        return {"fails": p.returncode != 0, "observed": (p.stdout + p.stderr)[-300:]}
    if op == "slow-window":
        runs = worker({"repo": REPO, "proto": inp["proto"], "n": 4, "points": [], "schedules": [], "slow": 3, "slow_n": inp.get("threads", 4)}).get("slow", [])
        bad = [r for r in runs if "crash" in r or r["notes"] or any(o != "ok" for o in r["out"])]
        return {"fails": bool(bad), "observed": bad[:2] or f"{len(runs)} runs, every thread ok"}
    if op == "post-init":
        rs = post_init_runs(2)
        return {"fails": any(not r["ok"] for r in rs), "observed": rs}
    r = search(ctx, [], [])
    return {"fails": r is not None, "observed": r}
