"""C02, group `Iter` — the compiled models of passlib's OWN pure-Python iterated-digest checksum code
(lean/PasslibVerif/Model/Code/Iter.lean, driver suite `citer`) against the REAL functions of the passlib source tree at
$PASSLIB_REPO: phpass._calc_checksum, mysql323 / mysql41._calc_checksum, sha1_crypt._calc_checksum_builtin, fshp._calc_checksum
(+ to_string's data), cisco_pix / cisco_asa._calc_checksum, cisco_type7._cipher / _calc_checksum / to_string, raw_sun_md5_crypt,
sun_md5_crypt.to_string(_withchk=False) / _calc_checksum, right_pad_string.

The private functions are called directly on instances made with object.__new__ (no constructor validation), so that the
whole domain of the functions — not only what `hash()` lets through — is compared.

    cd /tmp/wp/d2/verif && PASSLIB_REPO=/tmp/repo_clean /venv/bin/python -m tools.corr.c02_code_iter [--thorough] [--seed N] [--only a,b]
"""
from __future__ import annotations

import os
import sys
import warnings

if __name__ == "__main__":
    _here = os.path.dirname(os.path.abspath(__file__))
    sys.path.insert(0, os.path.dirname(_here))
sys.path.insert(0, os.environ.get("PASSLIB_REPO", "/repo"))

from .common import Suite, errname, hx  # noqa: E402

LEAN_TARGETS = ["PasslibVerif.Props.C02CodeIter", "PasslibVerif.Props.C02CodeIterSun", "PasslibVerif.Props.C02CodeIterExamples", "PasslibVerif.Props.C02CodeIterExamples2"]

H64 = "./0123456789ABCDEFGHIJKLMNOPQRSTUVWXYZabcdefghijklmnopqrstuvwxyz"
LENGTHS = list(range(0, 41)) + [63, 64, 65, 127, 128]
GROUPS = ["phpass", "mysql323", "mysql41", "sha1_crypt", "fshp", "cisco", "type7", "sun", "util"]


def cps(s) -> str:
    return ",".join(str(ord(c)) for c in s) if s else "-"


def sec_arg(secret) -> str:
    return ("t:" + cps(secret)) if isinstance(secret, str) else ("b:" + hx(secret))


def user_arg(user) -> str:
    return "none" if user is None else sec_arg(user)


def ans(thunk) -> str:
    """canonical answer: hex of the returned bytes / ASCII text"""
    try:
        r = thunk()
        if isinstance(r, str):
            r = r.encode("ascii")
        return "ok " + hx(bytes(r))
    except Exception as e:  # noqa: BLE001
        if type(e).__name__ == "PasswordValueError" and "NULL" in str(e):  # what `uh.exc.NullPasswordError(self)` builds
            return "err NullPasswordError"
        return "err " + errname(e)


def gen_secrets(rng, thorough, nul=True, extra=()):
    """bytes and text secrets: every length of the grid, every byte value, text in several scripts, unencodable text"""
    out = []
    reps = 3 if thorough else 1
    for n in LENGTHS:
        for _ in range(reps):
            out.append(bytes(rng.randrange(256) for _ in range(n)))
        out.append(bytes(rng.choice(b"abcXYZ019 \t./") for _ in range(n)))
    lo = 0 if nul else 1
    out.append(bytes(range(lo, 256)))
    out.append(bytes(range(255, lo - 1, -1)))
    for v in range(lo, 256):
        out.append(b"p" + bytes([v]) + b"w")
        if thorough:
            out.append(bytes([v]))
            out.append(bytes([v]) * 17)
    if nul:
        out += [b"\x00", b"a\x00", b"\x00a", b"ab\x00cd"]
    out += [b" ", b"\t", b" \t \t", b"a b\tc", b"  lead", b"trail  "]
    out += list(extra)
    # text
    alph = "abcXYZ019 \t" + "é€ßİı" + "ࠀ￿" + "𝄞\U0010ffff" + ("\x00" if nul else "")
    for n in LENGTHS:
        out.append("".join(rng.choice(alph) for _ in range(n)))
    out += ["", "password", "pässwörd", "ÿ", "Ā", "߿", "퟿", "", "\U00010000"]
    out += ["\ud800", "ab\udfffcd", "\udc80x"]  # lone surrogates: UnicodeEncodeError
    return out


def new(cls, **attrs):
    o = object.__new__(cls)
    for k, v in attrs.items():
        setattr(o, k, v)
    return o


def model_suite(ctx, s_m, only=None):
    warnings.simplefilter("ignore")
    rng = ctx.rng
    th = ctx.thorough
    from passlib import hash as H
    from passlib.handlers import sun_md5_crypt as SUN
    from passlib.utils import right_pad_string

    want = set(only or GROUPS)

    # ---- phpass -------------------------------------------------------------------------------------------------------
    if "phpass" in want:
        salts = ["ohUJ.1sd", "........", "zzzzzzzz", "", "a", "abcdefghijk", "sält1234", "€uro", "\x7f\x00abc"]
        for sec in gen_secrets(rng, th):
            for _ in range(2 if th else 1):
                salt = rng.choice(salts) if rng.random() < 0.5 else "".join(rng.choice(H64) for _ in range(8))
                rounds = rng.choice([0, 1, 2, 3, 4, 5, 7, 8] + ([10, 11] if th else []))
                h = new(H.phpass, salt=salt, rounds=rounds)
                s_m.add_raw(f"citer phpass {sec_arg(sec)} {cps(salt)} {rounds}", ans(lambda: h._calc_checksum(sec)), "phpass")

    # ---- mysql --------------------------------------------------------------------------------------------------------
    if "mysql323" in want:
        h = new(H.mysql323)
        extra = [bytes([255]) * 300, b"\xff" * 4096, bytes(rng.randrange(256) for _ in range(5000))]
        for sec in gen_secrets(rng, th, extra=extra):
            s_m.add_raw(f"citer mysql323 {sec_arg(sec)}", ans(lambda: h._calc_checksum(sec)), "mysql323")
        for n in [0, 1, 15, 16, 0xFFFFFFF, 0x10000000, 0x7FFFFFFF, 0xFFFFFFFF, 0x100000000, 0x123456789AB]:
            s_m.add_raw(f"citer fmt08x {n}", ans(lambda: f"{n:08x}"), "fmt08x")
        for _ in range(400 if th else 60):
            n = rng.randrange(1 << rng.choice([4, 8, 28, 31, 32, 33, 40]))
            s_m.add_raw(f"citer fmt08x {n}", ans(lambda: f"{n:08x}"), "fmt08x")
    if "mysql41" in want:
        h = new(H.mysql41)
        for sec in gen_secrets(rng, th):
            s_m.add_raw(f"citer mysql41 {sec_arg(sec)}", ans(lambda: h._calc_checksum(sec)), "mysql41")

    # ---- sha1_crypt ---------------------------------------------------------------------------------------------------
    if "sha1_crypt" in want:
        salts = ["", "a", "abcd", "Wq3GL2Vp", "." * 64, "z" * 65, "sält", "0123456789abcdefghij"]
        for sec in gen_secrets(rng, th):
            for _ in range(2 if th else 1):
                salt = rng.choice(salts) if rng.random() < 0.6 else "".join(rng.choice(H64) for _ in range(rng.choice([0, 1, 8, 63, 64])))
                rounds = rng.choice([0, 1, 1, 2, 3, 9, 10, 40, 41, 42, 43, 99, 100] + ([1000, 1001] if th else []))
                h = new(H.sha1_crypt, salt=salt, rounds=rounds)
                s_m.add_raw(f"citer sha1_crypt {sec_arg(sec)} {cps(salt)} {rounds}",
                            ans(lambda: h._calc_checksum_builtin(sec)), "sha1_crypt")
        # keys around the HMAC block size
        for n in [62, 63, 64, 65, 66, 100, 200]:
            sec = bytes(rng.randrange(1, 256) for _ in range(n))
            for rounds in (1, 2, 5):
                h = new(H.sha1_crypt, salt="abcd", rounds=rounds)
                s_m.add_raw(f"citer sha1_crypt {sec_arg(sec)} {cps('abcd')} {rounds}",
                            ans(lambda: h._calc_checksum_builtin(sec)), "sha1_crypt")

    # ---- fshp ---------------------------------------------------------------------------------------------------------
    if "fshp" in want:
        from base64 import b64encode

        for sec in gen_secrets(rng, th):
            for _ in range(2 if th else 1):
                variant = rng.choice([0, 1, 2, 3, 0, 1, 2, 3, 4, 7])
                salt = bytes(rng.randrange(256) for _ in range(rng.choice([0, 1, 8, 16, 63, 64, 65])))
                rounds = rng.choice([0, 1, 1, 2, 3, 10, 50] + ([480] if th else []))
                h = new(H.fshp, variant=variant, salt=salt, rounds=rounds)
                s_m.add_raw(f"citer fshp {sec_arg(sec)} {variant} {hx(salt)} {rounds}", ans(lambda: h._calc_checksum(sec)), "fshp")

                def data():
                    h.checksum = h._calc_checksum(sec)
                    return h.to_string().split("}", 1)[1]

                s_m.add_raw(f"citer fshpstr {sec_arg(sec)} {variant} {hx(salt)} {rounds}", ans(data), "fshpstr")

    # ---- cisco_pix / cisco_asa ----------------------------------------------------------------------------------------
    if "cisco" in want:
        users = [None, "", b"", "a", "ab", "abc", "abcd", "abcde", "user", "administrator", b"\xff", b"\x00\x01", "é", "𝄞", "\ud800",
                 b"365", "365"]
        clens = list(range(0, 41)) + [63, 64, 65]
        secs = []
        for n in clens:
            secs.append(bytes(rng.randrange(256) for _ in range(n)))
            secs.append(bytes(rng.choice(b"abcXYZ019") for _ in range(n)))
            secs.append("".join(rng.choice("abc9é€𝄞") for _ in range(n)))
        secs += [bytes(range(0, 16)), bytes(range(240, 256)), bytes(range(112, 144)), "\ud800", "abc\udfff"]
        for v in range(256):
            secs.append(b"p" + bytes([v]) + b"w")
        for sec in secs:
            for kind, cls in (("pix", H.cisco_pix), ("asa", H.cisco_asa)):
                for ud in (True, False):
                    for user in (users if (th or len(sec) in (0, 1, 11, 12, 13, 14, 15, 16, 17, 27, 28, 29, 31, 32, 33)) else rng.sample(users, 4)):
                        h = new(cls, user=user, use_defaults=ud)
                        s_m.add_raw(f"citer cisco {kind} {int(ud)} {user_arg(user)} {sec_arg(sec)}",
                                    ans(lambda: h._calc_checksum(sec)), "cisco_" + kind)

    # ---- cisco_type7 --------------------------------------------------------------------------------------------------
    if "type7" in want:
        T7 = H.cisco_type7
        for sec in gen_secrets(rng, th):
            salts = list(range(0, 53)) + [53, 99, 100, 105, 1000] if (th or len(sec) in (0, 1, 52, 53, 54)) else [0, 15, 52, rng.randrange(0, 53), rng.randrange(53, 200)]
            for salt in salts:
                h = new(T7, salt=salt)
                s_m.add_raw(f"citer type7 {sec_arg(sec)} {salt}", ans(lambda: h._calc_checksum(sec)), "type7")

                def whole():
                    h.checksum = h._calc_checksum(sec)
                    return h.to_string()

                s_m.add_raw(f"citer type7str {sec_arg(sec)} {salt}", ans(whole), "type7str")
                if isinstance(sec, bytes):
                    s_m.add_raw(f"citer type7cipher {hx(sec)} {salt}", ans(lambda: T7._cipher(sec, salt)), "type7cipher")

    # ---- sun_md5_crypt ------------------------------------------------------------------------------------------------
    if "sun" in want:
        S = H.sun_md5_crypt
        salts = ["", "a", "abcd", "Wq3GL2Vp", "." * 20, "sält", "a$b"]
        for salt in salts:
            for rounds in (0, 1, 9, 10, 99, 100, 4294963199):
                for bare in (False, True):
                    h = new(S, salt=salt, rounds=rounds, bare_salt=bare)
                    s_m.add_raw(f"citer sunconfig {cps(salt)} {rounds} {int(bare)}",
                                ans(lambda: h.to_string(_withchk=False)), "sunconfig")
        secs = gen_secrets(rng, th)
        if not th:
            # (each case costs 4096+rounds MD5 computations on both sides: the quick tier keeps the boundary lengths and a rotating ninth of the rest)
            k = rng.randrange(9)
            core = [s for s in secs if len(s) in (0, 1, 8, 16, 63, 64, 65, 128)]
            secs = core[:: 3] + [s for i, s in enumerate(secs) if i % 9 == k and len(s) not in (0, 1, 8, 16, 63, 64, 65, 128)]
            secs = secs[:90]
        for sec in secs:
            salt = rng.choice(salts) if rng.random() < 0.5 else "".join(rng.choice(H64) for _ in range(rng.choice([0, 1, 8, 16])))
            rounds = rng.choice([0, 0, 1, 2, 7, 8, 63, 64, 65, 100, 904])
            bare = rng.random() < 0.4
            h = new(S, salt=salt, rounds=rounds, bare_salt=bare)
            s_m.add_raw(f"citer sun {sec_arg(sec)} {cps(salt)} {rounds} {int(bare)}", ans(lambda: h._calc_checksum(sec)), "sun")
            if isinstance(sec, bytes):
                cfg = bytes(rng.randrange(256) for _ in range(rng.choice([0, 1, 5, 20])))
                s_m.add_raw(f"citer sunraw {hx(sec)} {rounds} {hx(cfg)}", ans(lambda: SUN.raw_sun_md5_crypt(sec, rounds, cfg)), "sunraw")

    # ---- helpers ------------------------------------------------------------------------------------------------------
    if "util" in want:
        for n in list(range(0, 20)) + [31, 32, 33, 40]:
            src = bytes(rng.randrange(256) for _ in range(n))
            for size in (0, 1, 15, 16, 17, 31, 32, 33):
                s_m.add_raw(f"citer rpad {hx(src)} {size}", ans(lambda: right_pad_string(src, size)), "rpad")
    return s_m.result()


if __name__ == "__main__":
    import argparse
    import json
    import time

    sys.path.insert(0, os.path.dirname(os.path.dirname(os.path.abspath(__file__))))
    from runner import Ctx  # type: ignore

    ap = argparse.ArgumentParser()
    ap.add_argument("--thorough", action="store_true")
    ap.add_argument("--seed", type=int, default=1)
    ap.add_argument("--only", default="")
    a = ap.parse_args()
    import passlib

    assert os.path.realpath(passlib.__file__).startswith(os.path.realpath(os.environ.get("PASSLIB_REPO", "/repo"))), passlib.__file__
    cx = Ctx("C02codeIter", "thorough" if a.thorough else "quick", a.seed)
    t0 = time.time()
    sm = Suite(cx, "c02-code-iter-model")
    model_suite(cx, sm, [x for x in a.only.split(",") if x] or None)
    res = sm.result()
    print(json.dumps({"cases": res["cases"], "mismatches": len(res["mismatches"]), "unmodelled": res["unmodelled"],
                      "seconds": round(time.time() - t0, 1), "passlib": os.path.dirname(passlib.__file__)}))
    for m in res["mismatches"][:12]:
        print("MISMATCH", json.dumps(m)[:700])
    print(json.dumps(res["distribution"], indent=0)[:6000])
    sys.exit(1 if res["mismatches"] else 0)
