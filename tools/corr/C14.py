"""C14 — token matching honours the window and never accepts a code twice."""
from __future__ import annotations

import itertools

from .common import Oracle, Suite, errname, merge

GEN_UNITS = ["Totp", "PyUnicode", "TotpAll"]
LEAN_TARGETS = ["PasslibVerif.Props.C14"]
ASSUMPTIONS = [
    "the application feeds back the counter of each accepted match as last_counter (as the property states)",
    "normalize_time (datetime -> int) is covered under C13; here times are integers",
]
EXPLANATION = (
    "Theorems about Model.Totp.matchTok for an ARBITRARY token generator: exact window characterisation, "
    "earliest-match / used / invalid / malformed specification, strictly increasing accepted counters over every "
    "history (induction). Correspondence: the real TOTP.match with a table-driven _generate (colliding codes) and with "
    "real HMAC keys, exhaustive over small periods/windows/skews/last counters."
)


def mk_totp(digits, period, table=None, key=b"0123456789abcdefghij"):
    from passlib.totp import TOTP

    t = TOTP(key=key, format="raw", digits=digits, period=period)
    if table is not None:
        t._generate = lambda counter: table[counter % len(table)]
    return t


def tok_arg(tok):
    if isinstance(tok, int):
        return f"i:{tok}"
    return "t:" + (",".join(str(ord(c)) for c in tok) if tok else "-")


def show_match(m):
    return f"{m.counter} {m.time} {m.expected_counter} {m.skipped} {m.expire_time} {m.cache_seconds} {m.cache_time}"


def correspond(ctx):
    rng = ctx.rng
    s_small = Suite(ctx, "match-exhaustive-small")
    s_rand = Suite(ctx, "match-random-large")
    s_norm = Suite(ctx, "normalize-token")
    s_hist = Suite(ctx, "histories")
    tables = [["000011", "000022"], ["000011", "000022", "000011", "000033", "000044"], ["000007", "000007", "000007"], ["000012", "000034", "000056", "000078", "000090", "000012", "000013"]]
    periods = (1, 2, 3, 4) if ctx.thorough else (1, 3, 4)
    windows = range(0, 7) if ctx.thorough else (0, 1, 3, 4, 6)
    skews = range(-4, 5) if ctx.thorough else (-4, -1, 0, 2)
    lasts = [None] + list(range(-1, 13)) if ctx.thorough else [None, -1, 0, 1, 2, 5, 9]
    times = range(0, 41) if ctx.thorough else range(0, 41, 1)
    for table in tables[: (4 if ctx.thorough else 2)]:
        tl = "|".join(table)
        toks = sorted(set(table)) + ["000099"]
        for p in periods:
            t = mk_totp(6, p, table)
            for w, sk, last, tm in itertools.product(windows, skews, lasts, times):
                for tok in (toks if ctx.thorough else toks[:2] + ["000099"]):
                    s_small.add(f"totp match 6 {p} {tl} {tok_arg(tok)} {tm} {w} {sk} {'none' if last is None else last}",
                                lambda t=t, tok=tok, tm=tm, w=w, sk=sk, last=last: show_match(t.match(tok, tm, window=w, skew=sk, last_counter=last)), f"p{p}")
    # random large values, table generator with 6 digits
    for _ in range(3000 if not ctx.thorough else 60000):
        digits = rng.choice([6, 7, 8, 10])
        table = ["%0*d" % (digits, rng.randrange(10 ** digits)) for _ in range(rng.choice([1, 2, 5, 9]))]
        p = rng.choice([1, 15, 30, 60, 3600])
        t = mk_totp(digits, p, table)
        tm = rng.randrange(0, 1 << 40)
        w = rng.choice([0, 1, p - 1, p, p + 1, 2 * p, 10 * p, rng.randrange(0, 5 * p + 1), -1])
        sk = rng.choice([0, -p, p, rng.randrange(-3 * p, 3 * p + 1)])
        c0 = (tm + sk) // p
        last = rng.choice([None, c0 - 2, c0 - 1, c0, c0 + 1, c0 + 3, -1, -7, 0])
        tok = rng.choice(table + ["%0*d" % (digits, rng.randrange(10 ** digits))])
        tok_v = rng.choice([tok, int(tok), " ".join(tok), tok[:3] + "-" + tok[3:], tok + " ", tok[:-1], tok + "0"])
        s_rand.add(f"totp match {digits} {p} {'|'.join(table)} {tok_arg(tok_v)} {tm} {w} {sk} {'none' if last is None else last}",
                   lambda t=t, tok_v=tok_v, tm=tm, w=w, sk=sk, last=last: show_match(t.match(tok_v, tm, window=w, skew=sk, last_counter=last)), "rand")
    # token normalisation incl. unicode digits, separators, ints, negative ints
    from passlib.totp import TOTP

    samples = ["123456", "12 34 56", "123-456", "1=2=3=4=5=6", "١٢٣٤٥٦", "²" * 6, "12345", "1234567", "", " ", "12345a",
               "１２３４５６", "123 456", "123 456", "123\x00456", "12345\n6", "+12345", "-12345", "12.345", "0x1234", "١٢٣456"]
    for digits in (6, 8, 10):
        T = TOTP.using(digits=digits)
        for s in samples:
            s_norm.add(f"totp norm {digits} {tok_arg(s)}", lambda T=T, s=s: ",".join(str(ord(c)) for c in T.normalize_token(s)) or "-", "text")
            s_norm.add(f"totp norm {digits} {tok_arg(s)}", lambda T=T, s=s: ",".join(str(ord(c)) for c in T.normalize_token(s.encode("utf-8"))) or "-", "bytes")
        for n in [0, 1, 12, 999999, 1000000, 10 ** digits - 1, 10 ** digits, -1, -12345, -(10 ** (digits - 1)), -(10 ** (digits - 1)) + 1, -(10 ** (digits - 2))] + [rng.randrange(-10 ** 11, 10 ** 11) for _ in range(60)]:
            s_norm.add(f"totp norm {digits} i:{n}", lambda T=T, n=n: ",".join(str(ord(c)) for c in T.normalize_token(n)), "int")
            s_norm.add(f"totp fmt {digits} {n}", lambda n=n, digits=digits: "%0*d" % (digits, n), "py-fmt")
    # histories with feedback: replayed, stale, future and colliding codes
    from passlib import exc

    for _ in range(1500 if not ctx.thorough else 20000):
        table = rng.choice(tables)
        p = rng.choice([1, 2, 3, 30])
        t = mk_totp(6, p, table)
        attempts = []
        tm = rng.randrange(0, 50 * p)
        for _k in range(rng.randrange(1, 9)):
            tm += rng.choice([0, 0, 1, p, p - 1, 2 * p, -p])
            tm = max(tm, 0)
            attempts.append((rng.choice(table + ["000099"]), tm, rng.choice([0, 1, p, 2 * p, 3 * p]), rng.choice([0, 0, -p, p])))

        def run(t=t, attempts=attempts):
            last = None
            acc = []
            for tok, tm, w, sk in attempts:
                try:
                    m = t.match(tok, tm, window=w, skew=sk, last_counter=last)
                except exc.TokenError:
                    continue
                acc.append(m.counter)
                last = m.counter
            return ",".join(map(str, acc)) or "-"

        line = "totp hist 6 %d %s %s" % (p, "|".join(table), ";".join(f"{tok_arg(a[0])}/{a[1]}/{a[2]}/{a[3]}" for a in attempts))
        s_hist.add(line, run, "hist")
    o_tok = Oracle(ctx, "codes-as-typed")
    for tag, inp, ok, obs, exp in token_form_cases(rng):
        o_tok.check(tag, ok, inp, obs, exp)
    o_live = Oracle(ctx, "time-forms-and-live-objects")
    for tag, inp, ok, obs, exp in live_object_cases(rng):
        o_live.check(tag, ok, inp, obs, exp)
    return merge(s_small, s_rand, s_norm, s_hist, o_tok, o_live, exhaustive=False)


# ------------------------------------------------------------------------------------------
def oracle(t, table, tok, tm, w, sk, last, p):
    """the property's own statement, computed independently"""
    lo = max((tm + sk - w) // p, -1 if last is None else last, 0)
    hi = (tm + sk + w) // p
    for c in range(lo, hi + 1):
        if table[c % len(table)] == tok:
            return ("used", c) if (last is not None and c == last) else ("ok", c)
    return ("invalid", None)


def search(ctx, broken, seeds):
    from passlib import exc

    rng = ctx.rng
    tables = [["000011", "000022"], ["000011", "000022", "000011", "000033", "000044"], ["000007", "000007", "000007"]]
    for table in tables:
        for p in (1, 2, 3, 4):
            t = mk_totp(6, p, table)
            for w, sk, last, tm in itertools.product(range(0, 7), range(-4, 5), [None] + list(range(-1, 13)), range(0, 41)):
                for tok in sorted(set(table)) + ["000099"]:
                    want = oracle(t, table, tok, tm, w, sk, last, p)
                    try:
                        m = t.match(tok, tm, window=w, skew=sk, last_counter=last)
                        got = ("ok", m.counter)
                    except exc.UsedTokenError:
                        got = ("used", last)
                    except exc.InvalidTokenError:
                        got = ("invalid", None)
                    except Exception as e:  # noqa: BLE001
                        got = (errname(e), None)
                    if got != want:
                        return {"input": {"op": "match", "table": table, "period": p, "token": tok, "time": tm, "window": w, "skew": sk, "last_counter": last},
                                "observed": got, "expected": want}
    # histories: accepted counters strictly increase
    for _ in range(20000):
        table = rng.choice(tables)
        p = rng.choice([1, 2, 3])
        t = mk_totp(6, p, table)
        last = None
        acc = []
        hist = []
        tm = rng.randrange(0, 30)
        for _k in range(10):
            tm = max(0, tm + rng.choice([0, 1, -1, p, 2 * p]))
            tok, w, sk = rng.choice(table), rng.choice([0, 1, p, 3 * p]), rng.choice([0, -p, p])
            hist.append((tok, tm, w, sk))
            try:
                m = t.match(tok, tm, window=w, skew=sk, last_counter=last)
            except exc.TokenError:
                continue
            acc.append(m.counter)
            last = m.counter
        if any(b <= a for a, b in zip(acc, acc[1:])):
            return {"input": {"op": "history", "table": table, "period": p, "attempts": hist}, "observed": acc, "expected": "strictly increasing accepted counters"}
    for gen in (token_form_cases(rng), live_object_cases(rng)):
        for tag, inp, ok, obs, exp in gen:
            if not ok:
                return {"input": inp, "observed": obs, "expected": exp, "check": tag}
    return None


def token_form_cases(rng):
    """the code as typed: a malformed code is reported as malformed whatever the window / last_counter say (even when there is nothing left to
    search); a well-formed code decorated with blanks, dashes or Unicode white space is the same code; yields (tag, input, ok, observed, expected)"""
    from passlib import exc

    t = mk_totp(6, 30)
    good = t.generate(1000).token
    fw = lambda d: "".join(chr(0xFF10 + int(c)) for c in d)                     # noqa: E731  the same digits in full-width form
    ai = lambda d: "".join(chr(0x0660 + int(c)) for c in d)                     # noqa: E731  … in Arabic-Indic form
    # a code of the wrong length is malformed in any script: the current code with one more leading zero, or one digit short
    other_scripts = [fw("0" + good), "0" + fw(good), fw("0") + good, fw(good)[:5], ai("0" + good), ai(good)[1:], fw("00" + good), "０" * 7, "０" * 5]
    for tok in ["12345", "1234567", "12345a", "", "      ", "12 34", 12345678, 1234567, 1.5, None, b"12345", ["123456"]] + other_scripts:
        for kw in ({}, {"last_counter": 40, "window": 30}, {"last_counter": 10 ** 6}, {"window": 0, "last_counter": 33}, {"skew": -5000, "window": 0}):
            inp = {"op": "malformed", "token": repr(tok), "time": 1000, "kwds": kw}
            try:
                t.match(tok, 1000, **kw)
                got = "accepted"
            except exc.MalformedTokenError:
                got = "MalformedTokenError"
            except Exception as e:  # noqa: BLE001
                got = errname(e)
            want = "MalformedTokenError" if not (tok is None or isinstance(tok, (float, list))) else got
            if isinstance(tok, (float, list)) or tok is None:
                want = "TypeError" if got not in ("MalformedTokenError",) else got
            yield ("malformed-reported-as-malformed", inp, got == want or (want == "TypeError" and got in ("TypeError", "ExpectedTypeError", "MalformedTokenError")), got, want)
    for deco in (" ", "-", "\t", "\n", "\xa0", "\u2002", "\u2009", "\u202f", "\u3000", "\x85", "\u2028", "  -  "):
        for form in (good[:3] + deco + good[3:], deco + good, good + deco, deco.join(good)):
            inp = {"op": "decorated", "token": form, "time": 1000}
            try:
                m = t.match(form, 1000)
                got = ("accepted", m.counter)
            except Exception as e:  # noqa: BLE001
                got = (errname(e), None)
            yield ("decorated-code-is-the-same-code", inp, got == ("accepted", 33), got, ("accepted", 33))


def live_object_cases(rng):
    """match() on a live object: the time may be given as a number or a date-time in any zone (same instant, same answer), and after the
    key of the object was replaced the codes of the NEW key are the valid ones; yields (tag, input, ok, observed, expected)"""
    import datetime

    from passlib import exc
    from passlib.totp import TOTP

    def outcome(t, tok, tm, **kw):
        try:
            return ("ok", t.match(tok, tm, **kw).counter)
        except exc.UsedTokenError:
            return ("used", None)
        except exc.InvalidTokenError:
            return ("invalid", None)
        except Exception as e:  # noqa: BLE001
            return (errname(e), None)

    for _ in range(40):
        key = rng.randbytes(20)
        t = TOTP(key=key, format="raw", period=30)
        ts = rng.randrange(10 ** 9, 2 * 10 ** 9)
        tok = t.generate(ts).token
        c = ts // 30
        for off_min in (0, 60, -300, 330, 765, -720, rng.randrange(-720, 721)):
            tz = datetime.timezone(datetime.timedelta(minutes=off_min))
            forms = {"int": ts, "float": ts + 0.25, "aware": datetime.datetime.fromtimestamp(ts, tz), "naive-utc": datetime.datetime(1970, 1, 1) + datetime.timedelta(seconds=ts)}
            for kw, want in (({}, ("ok", c)), ({"last_counter": c}, ("used", None)), ({"last_counter": c + 5}, ("invalid", None)), ({"window": 0, "skew": 3600}, ("invalid", None))):
                for fname, tm in forms.items():
                    got = outcome(t, tok, tm, **kw)
                    yield ("time-representation", {"op": "match-time-form", "key": key.hex(), "time": ts, "form": fname, "utc_offset_min": off_min, "kwds": kw}, got == want, got, want)
    for _ in range(30):
        k1, k2 = rng.randbytes(20), rng.randbytes(20)
        ts = rng.randrange(10 ** 9, 2 * 10 ** 9)
        for warm in ("generate", "match", "none"):
            t = TOTP(key=k1, format="raw")
            if warm == "generate":
                t.generate(ts)
            elif warm == "match":
                outcome(t, "000000", ts)
            t.key = k2
            new_tok, old_tok = TOTP(key=k2, format="raw").generate(ts).token, TOTP(key=k1, format="raw").generate(ts).token
            inp = {"op": "key-replaced", "first_use": warm, "old_key": k1.hex(), "new_key": k2.hex(), "time": ts}
            got = (outcome(t, new_tok, ts)[0], outcome(t, old_tok, ts)[0] if old_tok != new_tok else "invalid", t.generate(ts).token == new_tok)
            yield ("key-replaced-on-live-object", inp, got == ("ok", "invalid", True), got, ("ok", "invalid", True))


def replay(ctx, inp):
    r = search(ctx, [], [])
    return {"fails": r is not None, "observed": r}
