"""C16 — htpasswd/htdigest files stay a faithful user database under any edit history."""
from __future__ import annotations

import itertools
import os
import shutil
import tempfile
import time
import warnings

from .common import Oracle, Suite, errname, hx, merge

GEN_UNITS = ["Apache"]
LEAN_TARGETS = ["PasslibVerif.Props.C16", "PasslibVerif.Props.C16File"]
ASSUMPTIONS = [
    "CryptContext.verify_and_update / htdigest.verify are parameters of the model (decided under C04 / C01); here they enter as the table of answers the real context gave",
    "file mtime granularity is the operating system's (load_if_changed is exercised on a temp directory, not modelled beyond the mtime cell)",
]
EXPLANATION = (
    "Invariant (every live key has exactly one record token in the source list; keys unique) proved for load and every operation, hence for "
    "every history; export emits every live record exactly once; the rendered line of a valid record parses back to it; bad names are refused "
    "with the state unchanged. Correspondence: explicit-state exploration of all op sequences up to a bound plus random sequences on the real "
    "HtpasswdFile/HtdigestFile, comparing every return value and to_string() with the compiled model and re-reading the text with an independent reader."
)

KNOWN = {
    "hash-field-unvalidated": "set_hash() accepts hash text containing ':' / newline / trailing blanks, which does not survive export+reload",
    "hash-first-user": "a user name beginning with '#' is written as a comment line and is lost on reload",
}


def independent_reader(text: bytes, fields: int):
    """6-line reader, independent of passlib and of the Lean model: first entry of a key wins"""
    db = {}
    for line in text.split(b"\n"):
        if not line.strip() or line.lstrip().startswith(b"#"):
            continue
        parts = line.rstrip().split(b":")
        if len(parts) == fields:
            db.setdefault(tuple(parts[:-1]), parts[-1])
    return db


class Sim:
    """drives one real file object, recording protocol ops + real answers"""

    def __init__(self, digest, ctx_obj=None, tmpdir=None, autosave=False, encoding="utf-8", return_unicode=True):
        from passlib import apache

        self.digest = digest
        self.ops = []
        self.outs = []
        self.vau = {}
        kw = dict(encoding=encoding, return_unicode=return_unicode)
        self.path = None
        if tmpdir:
            self.path = os.path.join(tmpdir, "db")
            kw.update(path=self.path, new=True, autosave=autosave)
        if digest:
            self.f = apache.HtdigestFile(**kw)
        else:
            self.f = apache.HtpasswdFile(context=ctx_obj, **kw) if ctx_obj is not None else apache.HtpasswdFile(**kw)
            orig = self.f.context.verify_and_update

            raw = {}

            def spy(pwd, h, _orig=orig):
                key = (pwd if isinstance(pwd, bytes) else pwd.encode(), h if isinstance(h, bytes) else h.encode())
                if key in raw:
                    # the context is a parameter of the model: one answer per (password, hash) question.  The real context would draw
                    # a fresh random salt for a second identical question; replaying its first answer keeps the table single-valued.
                    return raw[key]
                ok, new = _orig(pwd, h)
                nb = None if new is None else (new if isinstance(new, bytes) else new.encode())
                self.vau[key] = (ok, nb)
                raw[key] = (ok, new)
                return ok, new

            self.f.context = _Ctx(self.f.context, spy)
        self.encoding = encoding

    def b(self, v):
        return v if isinstance(v, bytes) else v.encode(self.encoding)

    def rec(self, op, thunk):
        self.ops.append(op)
        try:
            self.outs.append("ok" + ("" if (r := thunk()) is None else " " + r))
        except Exception as e:  # noqa: BLE001
            self.outs.append("err " + errname(e))

    def r(self, realm):
        return "~" if realm is None else hx(self.b(realm))

    def load(self, data):
        self.rec(f"L:{hx(data)}", lambda: self.f.load_string(data))

    def set_hash(self, u, realm, h):
        if self.digest:
            self.rec(f"S:{hx(self.b(u))}:{self.r(realm)}:{hx(self.b(h))}", lambda: str(int(self.f.set_hash(u, realm, h))))
        else:
            self.rec(f"S:{hx(self.b(u))}:~:{hx(self.b(h))}", lambda: str(int(self.f.set_hash(u, h))))

    def set_password(self, u, realm, p):
        # the produced hash is salted/random: run the real call, then tell the model which hash was stored
        try:
            ex = self.f.set_password(u, realm, p) if self.digest else self.f.set_password(u, p)
            h = self.f.get_hash(u, realm) if self.digest else self.f.get_hash(u)
            h = self.b(h)
            self.ops.append(f"S:{hx(self.b(u))}:{self.r(realm) if self.digest else '~'}:{hx(h)}")
            self.outs.append("ok " + str(int(ex)))
        except Exception as e:  # noqa: BLE001
            self.ops.append(f"S:{hx(self.b(u))}:{self.r(realm) if self.digest else '~'}:{hx(b'x')}")
            self.outs.append("err " + errname(e))

    def delete(self, u, realm=None):
        if self.digest:
            self.rec(f"D:{hx(self.b(u))}:{self.r(realm)}", lambda: str(int(self.f.delete(u, realm))))
        else:
            self.rec(f"D:{hx(self.b(u))}:~", lambda: str(int(self.f.delete(u))))

    def delete_realm(self, realm):
        self.rec(f"R:{hx(self.b(realm))}", lambda: str(self.f.delete_realm(realm)))

    def get_hash(self, u, realm=None):
        def f():
            h = self.f.get_hash(u, realm) if self.digest else self.f.get_hash(u)
            return "none" if h is None else hx(self.b(h))
        self.rec(f"G:{hx(self.b(u))}:{self.r(realm) if self.digest else '~'}", f)

    def users(self, realm=None):
        self.rec(f"U:{self.r(realm) if self.digest else '~'}", lambda: ",".join(hx(self.b(x)) for x in (self.f.users(realm) if self.digest else self.f.users())))

    def check(self, u, p):
        def f():
            r = self.f.check_password(u, p)
            return "none" if r is None else str(int(r))
        self.rec(f"C:{hx(self.b(u))}:{hx(self.b(p))}", f)

    def to_string(self):
        self.rec("T", lambda: hx(self.f.to_string()))

    def line(self):
        vau = ";".join(f"{hx(p)},{hx(h)},{int(ok)},{'~' if new is None else hx(new)}" for (p, h), (ok, new) in self.vau.items()) or "-"
        return f"apache run {int(self.digest)} {vau} " + " ".join(self.ops)

    def answer(self):
        return " | ".join(self.outs)


class _Ctx:
    def __init__(self, inner, vau):
        self._inner = inner
        self.verify_and_update = vau

    def __getattr__(self, a):
        return getattr(self._inner, a)


INITIAL = [
    b"",
    b"u1:h1\n",
    b"# comment\n\nu1:h1\n  \nu2:h2\n# tail comment\n",
    b"u1:h1\nu1:hdup\nu2:h2\n\n   \n",
    b"u2:h2\n   # indented comment\nu1:h1",
    b"u1:h1   \n\tu2:h2\n",
    b"u1:h1\n# tail comment without newline",
    b"# only a comment",
]
INITIAL_DIGEST = [
    b"",
    b"u1:r1:d1\n",
    b"# c\nu1:r1:d1\nu1:r2:d2\n\nu2:r1:d3\n# t\n",
    b"u1:r1:d1\nu1:r1:ddup\nu2:r2:d4",
]
MALFORMED = [b"u1\n", b"u1:h1:extra\n", b"u1:h1\nbroken line\n", b":\n", b"u1:\n"]


def small_ops(digest):
    users = ["u1", "u2"]
    if digest:
        realms = ["r1", "r2"]
        ops = []
        for u, r in itertools.product(users, realms):
            ops += [("set_hash", u, r, "dd" + u[-1] + r[-1]), ("delete", u, r)]
        ops += [("delete_realm", "r1"), ("get", "u1", "r1"), ("users", "r1")]
        return ops
    ops = []
    for u in users:
        ops += [("set_hash", u, None, "hh" + u[-1]), ("delete", u, None), ("check", u, "pw1"), ("get", u, None)]
    ops += [("users", None), ("set_pw", "u1", None, "pw1")]
    return ops


def apply(sim, op):
    k = op[0]
    if k == "set_hash":
        sim.set_hash(op[1], op[2], op[3])
    elif k == "set_pw":
        sim.set_password(op[1], op[2], op[3])
    elif k == "delete":
        sim.delete(op[1], op[2])
    elif k == "delete_realm":
        sim.delete_realm(op[1])
    elif k == "get":
        sim.get_hash(op[1], op[2])
    elif k == "users":
        sim.users(op[1])
    elif k == "check":
        sim.check(op[1], op[2])
    elif k == "load":
        sim.load(op[1])


def quick_ctx():
    from passlib.context import CryptContext

    # fast schemes only; ldap_md5 deprecated => check_password stores an upgraded hash
    return CryptContext(["ldap_salted_sha1", "ldap_md5", "plaintext"], deprecated=["ldap_md5", "plaintext"])


def semantic_cases(rng, rounds, tmp):
    """real-code checks the line protocol does not carry; yields (tag, input, ok, observed, expected):
    htdigest passwords in every file encoding against an independent MD5(user:realm:password); names longer than 255 *bytes* (multi-byte
    text included) and names with separators/control characters are refused by every method of both classes with the state unchanged;
    with autosave the file on disk equals the export after every change, the upgrade done by check_password included."""
    import hashlib

    from passlib import apache
    from passlib.context import CryptContext
    from passlib.hash import ldap_md5

    # ---- realms: an explicit realm — the empty one included — is that realm; None means the default realm (TypeError without one)
    for default in ("r1", "", None):
        for _ in range(max(rounds // 30, 6)):
            f = apache.HtdigestFile(default_realm=default)
            ref = {}
            hist = []
            for _k in range(rng.randrange(3, 14)):
                u, r = rng.choice(["u1", "u2"]), rng.choice([None, "", "r1", "r2"])
                k = rng.choice(["set_hash", "set_hash", "delete", "get", "users", "delete_realm", "set_pw", "check"])
                eff = default if r is None else r
                hist.append([k, u, r])
                inp = {"op": "realm-history", "default_realm": default, "ops": list(hist)}
                try:
                    if k == "set_hash":
                        h = hashlib.md5(b"%d" % rng.randrange(100)).hexdigest()
                        hist[-1].append(h)
                        got = f.set_hash(u, r, h)
                        want = (u, eff) in ref
                        ref[(u, eff)] = h
                    elif k == "set_pw":
                        got = f.set_password(u, r, "pw")
                        want = (u, eff) in ref
                        ref[(u, eff)] = hashlib.md5(f"{u}:{eff}:pw".encode()).hexdigest()
                    elif k == "delete":
                        got = f.delete(u, r)
                        want = ref.pop((u, eff), None) is not None
                    elif k == "get":
                        got, want = f.get_hash(u, r), ref.get((u, eff))
                    elif k == "users":
                        got, want = sorted(f.users(r)), sorted(x for x, rr in ref if rr == eff)
                    elif k == "check":
                        got = f.check_password(u, r, "pw")
                        want = None if (u, eff) not in ref else ref[(u, eff)] == hashlib.md5(f"{u}:{eff}:pw".encode()).hexdigest()
                    else:
                        if r is None:
                            continue
                        got = f.delete_realm(r)
                        want = len([1 for x, rr in ref if rr == r])
                        for key in [key for key in ref if key[1] == r]:
                            ref.pop(key)
                    if r is None and default is None:
                        yield ("realm-semantics", inp, False, "accepted without a realm", "TypeError")
                        break
                    if got != want:
                        yield ("realm-semantics", inp, False, got, want)
                        break
                except TypeError:
                    if not (r is None and default is None):
                        yield ("realm-semantics", inp, False, "TypeError", "an answer")
                        break
                    hist.pop()
                    continue
            else:
                text = f.to_string()
                reread = independent_reader(text, 3)
                want_db = {(u.encode(), r.encode()): h.encode() for (u, r), h in ref.items()}
                yield ("realm-semantics", {"op": "realm-history", "default_realm": default, "ops": hist}, reread == want_db, {"export": text.decode("latin-1")}, repr(want_db))
    # ---- the same bytes mean the same database whether they come from a string or from a file
    for data in (b"# disabled 2019\rmallory:h9\nu1:h1\n", b"u1:h1\r\nu2:h2\r\n", b"u1:h1\rx\nu2:h2", b"\ru1:h1\n", b"u1:h1\n\r\nu2:h2\n", b"a\x0cb:h\nu\x1c1:h\x1d\nv:h\x85\n", b"u1:r\r1:d1\nu2:r1:d2\n"):
        for cls, fields in ((apache.HtpasswdFile, 2), (apache.HtdigestFile, 3)):
            inp = {"op": "string-vs-path", "class": cls.__name__, "content": data.decode("latin-1")}
            path = os.path.join(tmp, "same_bytes")
            with open(path, "wb") as fh:
                fh.write(data)

            def view(mk):
                try:
                    f = mk()
                    recs = sorted((repr(k), repr(v)) for k, v in f._records.items())
                    return (recs, f.to_string())
                except ValueError as e:
                    return ("ValueError", str(e)[:40])

            a, b2 = view(lambda: cls.from_string(data)), view(lambda: cls(path))
            yield ("load-string-equals-load-path", inp, a == b2, a, b2)
            if a[0] != "ValueError":
                got = independent_reader(a[1], fields)
                live = {tuple(x.encode("latin-1") if isinstance(x, str) else x for x in (eval(k) if k.startswith("(") else (eval(k),))): (eval(v).encode("latin-1") if isinstance(eval(v), str) else eval(v)) for k, v in a[0]}
                plain = all(b":" not in v and v == v.rstrip() for v in live.values())
                if plain:
                    yield ("loaded-string-export-rereads", inp, got == live, repr(got), repr(live))
    pws = ["pw", "pässword", "ÿ", "café", "\xe9", "a b", "密码", ""]
    users = ["u1", "Ünï", "é"]
    for _ in range(rounds):
        enc = rng.choice(["utf-8", "latin-1", "utf-8", "cp1252"])
        u, r, pw = rng.choice(users), rng.choice(["r1", "é"]), rng.choice(pws)
        as_bytes = rng.random() < 0.3
        try:
            ub, rb, pb = u.encode(enc), r.encode(enc), pw.encode(enc)
        except UnicodeEncodeError:
            continue
        f = apache.HtdigestFile(encoding=enc)
        inp = {"op": "digest-password", "encoding": enc, "user": u, "realm": r, "password": pw, "bytes_args": as_bytes}
        try:
            f.set_password(u, r, pb if as_bytes else pw)
            want = hashlib.md5(ub + b":" + rb + b":" + pb).hexdigest()
            got = f.get_hash(u, r)
            got = got if isinstance(got, str) else got.decode()
            yield ("digest-hash-is-md5", inp, got == want, got, want)
            a = f.check_password(u, r, pw)
            b = f.check_password(u, r, pb)
            c = f.check_password(u, r, pw + "x")
            d = f.check_password("nobody", r, pw)
            other = next((q for q in pws if q != pw), "zz")
            try:
                e = f.check_password(u, r, other)
            except Exception:  # noqa: BLE001
                e = False
            obs = (a, b, c, d, e)
            yield ("digest-check_password", inp, obs == (True, True, False, None, False), obs, (True, True, False, None, False))
            # a second file object reading the export answers alike
            g = apache.HtdigestFile.from_string(f.to_string(), encoding=enc)
            obs = (g.check_password(u, r, pw), g.check_password(u, r, pw + "x"))
            yield ("digest-check-after-reload", inp, obs == (True, False), obs, (True, False))
        except Exception as ex:  # noqa: BLE001
            yield ("digest-password", inp, False, errname(ex), "no error")
    # htpasswd: a password given as text is the file encoding's bytes, in set_password as in check_password (independent expectation:
    # {MD5} + base64(md5(bytes)) under an ldap_md5 context); every file encoding, text and bytes arguments
    import base64

    from passlib.context import CryptContext

    for _ in range(rounds):
        enc = rng.choice(["utf-8", "latin-1", "latin-1", "cp1252", "iso-8859-15"])
        u, pw = rng.choice(users), rng.choice(pws)
        as_bytes = rng.random() < 0.3
        try:
            ub, pb = u.encode(enc), pw.encode(enc)
        except UnicodeEncodeError:
            continue
        inp = {"op": "passwd-password", "encoding": enc, "user": u, "password": pw, "bytes_args": as_bytes}
        try:
            f = apache.HtpasswdFile(encoding=enc, context=CryptContext(["ldap_md5"]))
            f.set_password(u, pb if as_bytes else pw)
            want = "{MD5}" + base64.b64encode(hashlib.md5(pb).digest()).decode()
            got = f.get_hash(u)
            got = got if isinstance(got, str) else got.decode()
            yield ("passwd-hash-is-of-encoded-password", inp, got == want, got, want)
            obs = (f.check_password(u, pw), f.check_password(u, pb), f.check_password(u, pw + "x"), f.check_password("nobody", pw))
            yield ("passwd-check_password", inp, obs == (True, True, False, None), obs, (True, True, False, None))
            g = apache.HtpasswdFile.from_string(f.to_string(), encoding=enc, context=CryptContext(["ldap_md5"]))
            obs = (g.check_password(u, pw), g.check_password(u, pw + "x"))
            yield ("passwd-check-after-reload", inp, obs == (True, False), obs, (True, False))
        except Exception as ex:  # noqa: BLE001
            yield ("passwd-password", inp, False, errname(ex), "no error")
    # names
    bad = ["a:b", "a\nb", "a\rb", "a\tb", "a\x00b", "x" * 256, "é" * 128, "€" * 86, "x" * 254 + "é"]
    good = ["x" * 255, "é" * 127, "€" * 85, "a b"]
    for cls, key in ((apache.HtpasswdFile, "passwd"), (apache.HtdigestFile, "digest")):
        for name in bad + good:
            for where in (("user", "realm") if key == "digest" else ("user",)):
                for as_bytes in (False, True):
                    f = cls.from_string(b"u1:r1:h1\n" if key == "digest" else b"u1:h1\n")
                    before = f.to_string()
                    nm = name.encode("utf-8") if as_bytes else name
                    uu, rr = (nm, "r1") if where == "user" else ("u1", nm)
                    if key == "digest":
                        calls = [("set_hash", lambda: f.set_hash(uu, rr, "h")), ("set_password", lambda: f.set_password(uu, rr, "p")), ("delete", lambda: f.delete(uu, rr)),
                                 ("check_password", lambda: f.check_password(uu, rr, "p")), ("get_hash", lambda: f.get_hash(uu, rr))]
                    else:
                        calls = [("set_hash", lambda: f.set_hash(uu, "h")), ("set_password", lambda: f.set_password(uu, "p")), ("delete", lambda: f.delete(uu)),
                                 ("check_password", lambda: f.check_password(uu, "p")), ("get_hash", lambda: f.get_hash(uu))]
                    for cname, call in calls:
                        inp = {"op": "name", "class": cls.__name__, "field": where, "name": name, "bytes_args": as_bytes, "method": cname}
                        if name in bad:
                            try:
                                call()
                                obs = "accepted"
                            except ValueError:
                                obs = "ValueError"
                            except Exception as ex:  # noqa: BLE001
                                obs = errname(ex)
                            yield ("bad-name-refused", inp, obs == "ValueError" and f.to_string() == before, obs if obs != "ValueError" else "state changed", "ValueError, state unchanged")
                        else:
                            try:
                                call()
                                obs = "accepted"
                            except Exception as ex:  # noqa: BLE001
                                obs = errname(ex)
                            yield ("long-name-accepted", inp, obs == "accepted", obs, "accepted")
    # an explicit-path save is a copy: it leaves the bound file's bookkeeping alone, so unsaved edits survive a following load_if_changed()
    for cls, init, edit in ((apache.HtpasswdFile, b"u1:h1\n", lambda f: f.set_hash("u2", "h2")), (apache.HtdigestFile, b"u1:r1:h1\n", lambda f: f.set_hash("u2", "r1", "h2"))):
        path, other = os.path.join(tmp, "bound_db"), os.path.join(tmp, "copy_db")
        with open(path, "wb") as fh:
            fh.write(init)
        old = time.time() - 100
        os.utime(path, (old, old))
        f = cls(path)
        edit(f)
        want = f.to_string()
        f.save(other)
        changed = f.load_if_changed()
        inp = {"op": "save-elsewhere", "class": cls.__name__, "initial": init.decode()}
        yield ("save-elsewhere-keeps-unsaved-edits", inp, changed is False and f.to_string() == want and open(other, "rb").read() == want and open(path, "rb").read() == init,
               {"load_if_changed": changed, "state": f.to_string().decode(), "bound_file": open(path, "rb").read().decode()}, {"load_if_changed": False, "state": want.decode(), "bound_file": init.decode()})
        for pth in (path, other):
            if os.path.exists(pth):
                os.unlink(pth)
    # reload-if-changed: a bound file replaced by another version is re-read whatever its timestamp (newer, older — a restored backup,
    # cp -p, rsync -t — or far in the past); an untouched file is not
    for cls, a, b in ((apache.HtpasswdFile, b"u1:h1\nu2:h2\n", b"u1:h9\n"), (apache.HtdigestFile, b"u1:r1:h1\nu2:r1:h2\n", b"u1:r1:h9\n")):
        for delta in (-86400 * 400, -3600, -2, -1, 1, 2, 3600):
            path = os.path.join(tmp, "reload_db")
            with open(path, "wb") as fh:
                fh.write(a)
            t0 = int(time.time()) - 1000
            os.utime(path, (t0, t0))
            f = cls(path)
            unchanged = f.load_if_changed()
            with open(path, "wb") as fh:
                fh.write(b)
            os.utime(path, (t0 + delta, t0 + delta))
            changed = f.load_if_changed()
            inp = {"op": "reload-if-changed", "class": cls.__name__, "mtime_delta": delta}
            obs = {"untouched": unchanged, "replaced": changed, "state": f.to_string().decode()}
            yield ("reload-if-changed", inp, unchanged is False and changed is True and f.to_string() == b, obs, {"untouched": False, "replaced": True, "state": b.decode()})
            os.unlink(path)
    # the first record is read like any other: every first byte a name may start with (0x21..0xFF except ':' and '#'), both classes,
    # loaded from a string; the record is there under exactly that name and the export is the input
    for cls, tail in ((apache.HtpasswdFile, b"x:h1\nv:h2\n"), (apache.HtdigestFile, b"x:r1:h1\nv:r1:h2\n")):
        for first in range(0x21, 0x100):
            if first in (0x3A, 0x23):
                continue
            data = bytes([first]) + tail
            inp = {"op": "first-record-byte", "class": cls.__name__, "byte": first}
            try:
                f = cls.from_string(data, encoding="latin-1")
                keys = sorted(repr(k) for k in f._records)
                want_name = bytes([first]) + b"x"
                wk = sorted(repr(k) for k in ([want_name, b"v"] if cls is apache.HtpasswdFile else [(want_name, b"r1"), (b"v", b"r1")]))
                yield ("first-record-byte", inp, keys == wk and f.to_string() == data, {"keys": keys, "export": f.to_string().decode("latin-1")}, {"keys": wk, "export": data.decode("latin-1")})
            except Exception as ex:  # noqa: BLE001
                yield ("first-record-byte", inp, False, errname(ex), "loads")
    # another writer saves the bound file WHILE this object is reading it (after the last line was handed over, before the file is closed):
    # whatever was read, the next load_if_changed() must notice the newer version — the remembered timestamp may never be newer than the
    # content that was read.  Forced through the module's own `open`: the file object runs the other writer at end of iteration.
    for cls, a, b in ((apache.HtpasswdFile, b"alice:h1\nbob:h2\n", b"alice:h1\nbob:h2\ncarol:h3\n"), (apache.HtdigestFile, b"alice:r:h1\n", b"alice:r:h1\ncarol:r:h3\n")):
        for how in ("constructor", "load", "load_if_changed"):
            path = os.path.join(tmp, "race_db")
            with open(path, "wb") as fh:
                fh.write(a)
            t0 = int(time.time()) - 1000
            os.utime(path, (t0, t0))
            fired = []

            class _Reader:
                def __init__(self, fh):
                    self.fh = fh

                def __iter__(self):
                    yield from self.fh
                    if not fired:
                        fired.append(1)
                        with open(path, "wb") as w:
                            w.write(b)
                        os.utime(path, (t0 + 50, t0 + 50))

                def __enter__(self):
                    return self

                def __exit__(self, *exc):
                    self.fh.close()
                    return False

                def __getattr__(self, name):
                    return getattr(self.fh, name)

            def hooked(p, mode="r", *aa, **kk):
                fh = open(p, mode, *aa, **kk)
                return _Reader(fh) if (p == path and "r" in mode and "w" not in mode) else fh

            inp = {"op": "writer-during-load", "class": cls.__name__, "how": how}
            try:
                if how == "constructor":
                    apache.open = hooked
                    f = cls(path)
                else:
                    f = cls(path)
                    os.utime(path, (t0 + 10, t0 + 10))
                    apache.open = hooked
                    f.load() if how == "load" else f.load_if_changed()
                try:
                    del apache.open
                except AttributeError:
                    pass
                seen_before = f.to_string()
                changed = f.load_if_changed()
                obs = {"other_writer_ran": bool(fired), "first_read": seen_before.decode(), "load_if_changed": changed, "state": f.to_string().decode()}
                ok = bool(fired) and changed is True and f.to_string() == b
            except Exception as ex:  # noqa: BLE001
                ok, obs = False, errname(ex) + ": " + str(ex)[:100]
            finally:
                if "open" in vars(apache):
                    del apache.open
            yield ("writer-during-load-is-noticed", inp, ok, obs, {"load_if_changed": True, "state": b.decode()})
            os.unlink(path)
    # autosave: disk == export after every change, including the hash upgrade made by check_password
    cobj = CryptContext(["ldap_salted_sha1", "ldap_md5"], deprecated=["ldap_md5"])
    for _ in range(max(4, rounds // 10)):
        path = os.path.join(tmp, "auto_db")
        if os.path.exists(path):
            os.unlink(path)
        f = apache.HtpasswdFile(path, new=True, autosave=True, context=cobj)
        hist = []
        for _k in range(rng.randrange(1, 6)):
            u = rng.choice(["u1", "u2"])
            k = rng.choice(["set_old", "check", "check", "set_pw", "delete", "check_wrong"])
            hist.append([k, u])
            try:
                if k == "set_old":
                    f.set_hash(u, ldap_md5.hash("pw"))
                elif k == "set_pw":
                    f.set_password(u, "pw")
                elif k == "delete":
                    f.delete(u)
                elif k == "check":
                    as_s = lambda v: v if v is None or isinstance(v, str) else v.decode()  # noqa: E731
                    old = as_s(f.get_hash(u))
                    ans = f.check_password(u, "pw")
                    if old is not None and old.startswith("{MD5}"):
                        new = as_s(f.get_hash(u))
                        yield ("deprecated-upgraded", {"op": "autosave", "history": list(hist)}, ans is True and new.startswith("{SSHA}"), (ans, new), "True and a hash of the default scheme")
                else:
                    f.check_password(u, "nope")
                export = f.to_string()
            except Exception as ex:  # noqa: BLE001
                disk = open(path, "rb").read() if os.path.exists(path) else b""
                yield ("autosave-step-raises", {"op": "autosave", "history": list(hist)}, False, {"error": errname(ex) + ": " + str(ex)[:80], "file_on_disk": disk.decode("latin-1")}, "the operation succeeds and the file holds every current user")
                break
            disk = open(path, "rb").read() if os.path.exists(path) else b""
            yield ("autosave-disk-equals-export", {"op": "autosave", "history": list(hist)}, disk == export or (not os.path.exists(path) and k in ("delete", "check", "check_wrong")),
                   disk.decode("latin-1"), export.decode("latin-1"))
        again = apache.HtpasswdFile(path, context=cobj) if os.path.exists(path) else None
        if again is not None:
            tob = lambda v: v if isinstance(v, bytes) else v.encode()  # noqa: E731  (an upgraded hash is kept as text until written)
            obs = {k: tob(v) for k, v in again._records.items()}
            cur = {k: tob(v) for k, v in f._records.items()}
            yield ("autosave-reload-equals-records", {"op": "autosave", "history": list(hist)}, obs == cur, repr(obs), repr(cur))


def correspond(ctx):
    import logging

    logging.disable(logging.WARNING)
    warnings.simplefilter("ignore")
    rng = ctx.rng
    s_exp = Suite(ctx, "explicit-state-sequences", batch=20000)
    s_rnd = Suite(ctx, "random-sequences", batch=5000)
    s_bytes = Suite(ctx, "byte-helpers")
    s_file = Suite(ctx, "file-persistence")
    independent = {"checked": 0}
    depth = 4 if ctx.thorough else 3
    cobj = quick_ctx()

    def finish(sim, suite, tag):
        sim.to_string()
        line, ans = sim.line(), sim.answer()
        suite.add_raw(line, ans, tag)
        # independent reader on the exported text (only when every stored hash is a plain token)
        try:
            text = sim.f.to_string()
        except Exception as e:  # noqa: BLE001
            suite.mismatches.append({"input": line, "impl": "to_string() raised " + errname(e) + ": " + str(e)[:80], "model": "an export"})
            return
        live = {(k if isinstance(k, tuple) else (k,)): sim.b(v) for k, v in sim.f._records.items()}
        ok_fields = all(b":" not in v and b"\n" not in v and v == v.rstrip() and not k[0].lstrip().startswith(b"#") for k, v in live.items())
        if ok_fields:
            independent["checked"] += 1
            got = independent_reader(text, 3 if sim.digest else 2)
            if got != live or text.count(b"\n") < len(live):
                suite.mismatches.append({"input": line, "impl": f"export re-read gives {got!r}", "model": f"records are {live!r}"})

    # Suite.add expects "ok ..." stripped form: we compare whole joined strings, so wrap
    for digest in (False, True):
        inits = INITIAL_DIGEST if digest else INITIAL
        ops = small_ops(digest)
        for init in inits:
            for seq in itertools.product(ops, repeat=depth):
                if not ctx.thorough and rng.random() > 0.12:
                    continue
                sim = Sim(digest, None if digest else cobj)
                sim.load(init)
                for op in seq:
                    apply(sim, op)
                finish(sim, s_exp, "digest" if digest else "passwd")
        for bad in MALFORMED:
            sim = Sim(digest, None if digest else cobj)
            sim.load(inits[1])
            sim.load(bad)
            sim.get_hash("u1", "r1" if digest else None)
            finish(sim, s_exp, "malformed-load")
    # random longer sequences, hostile names, text/bytes args, encodings
    names = ["u1", "u2", "Ünï", "a b", " lead", "trail ", "x" * 255, "x" * 256, "a:b", "a\nb", "a\tb", "a\x00b", "a\rb", "", "\x0bv", "é" * 127, "é" * 128]
    for _ in range(400 if not ctx.thorough else 6000):
        digest = rng.random() < 0.4
        enc = rng.choice(["utf-8", "utf-8", "latin-1"])
        sim = Sim(digest, None if digest else cobj, encoding=enc, return_unicode=rng.random() < 0.5)
        sim.load(rng.choice(INITIAL_DIGEST if digest else INITIAL))
        for _k in range(rng.randrange(5, 50)):
            u = rng.choice(names)
            if enc == "latin-1":
                u = u if all(ord(c) < 256 for c in u) else "u1"
            ub = u.encode(enc) if rng.random() < 0.3 else u
            r = rng.choice(["r1", "r2", "r:x", "é"]) if digest else None
            k = rng.choice(["set_hash", "set_hash", "delete", "get", "users", "check", "set_pw", "load", "delete_realm"])
            if k == "set_hash":
                sim.set_hash(ub, r, rng.choice(["h1", "h2", "{MD5}rL0Y20zC+Fzt72VPzMSk2A==", "$apr1$x$y"]))
            elif k == "set_pw":
                sim.set_password(ub, r, rng.choice(["pw1", "pw2"]))
            elif k == "delete":
                sim.delete(ub, r)
            elif k == "get":
                sim.get_hash(ub, r)
            elif k == "users":
                sim.users(r)
            elif k == "check" and not digest:
                sim.check(ub, rng.choice(["pw1", "pw2", "h1"]))
            elif k == "load":
                sim.load(rng.choice((INITIAL_DIGEST if digest else INITIAL) + MALFORMED))
            elif k == "delete_realm" and digest:
                sim.delete_realm(r)
        finish(sim, s_rnd, "digest" if digest else "passwd")
    # byte helpers
    for _ in range(3000):
        d = bytes(rng.choice(b"ab:# \t\n\r\x0b\x0c") for _ in range(rng.randrange(0, 12)))
        s_bytes.add(f"apache lines {hx(d)}", lambda d=d: ",".join(hx(x) for x in __import__("io").BytesIO(d)), "lines")
        s_bytes.add(f"apache split {hx(d)}", lambda d=d: ",".join(hx(x) for x in d.split(b":")), "split")
        s_bytes.add(f"apache strip {hx(d)}", lambda d=d: hx(d.lstrip()) + " " + hx(d.rstrip()), "strip")
    # file persistence: save / load / load_if_changed / autosave on a temp directory (real code only + model of content)
    tmp = tempfile.mkdtemp(prefix="c16_", dir=os.path.dirname(os.path.abspath(__file__)))
    try:
        for autosave in (False, True):
            for _ in range(30 if not ctx.thorough else 300):
                sim = Sim(False, cobj, tmpdir=tmp, autosave=autosave)
                for _k in range(rng.randrange(1, 8)):
                    k = rng.choice(["set_hash", "delete", "set_hash"])
                    u = rng.choice(["u1", "u2", "u3"])
                    if k == "set_hash":
                        sim.set_hash(u, None, rng.choice(["h1", "h2"]))
                    else:
                        sim.delete(u, None)
                    if autosave:
                        # the file on disk must equal the export after every change
                        on_disk = open(sim.path, "rb").read() if os.path.exists(sim.path) else b""
                        if on_disk != sim.f.to_string() and sim.f._records is not None and (sim.outs[-1] != "ok 0" or k != "delete"):
                            s_file.mismatches.append({"input": sim.line(), "impl": f"disk {on_disk!r}", "model": f"export {sim.f.to_string()!r}"})
                sim.f.save()
                from passlib import apache

                again = apache.HtpasswdFile(sim.path)
                changed = again.load_if_changed()
                s_file.add_raw(sim.line() + " T", (sim.answer() + " | ok " + hx(again.to_string())) if not changed else "load_if_changed reloaded an unchanged file", "save-load")
                if os.path.exists(sim.path):
                    os.unlink(sim.path)
        o_sem = Oracle(ctx, "passwords-names-autosave")
        for tag, inp, ok, obs, exp in semantic_cases(rng, 150 if not ctx.thorough else 3000, tmp):
            o_sem.check(tag, ok, inp, obs, exp)
    finally:
        shutil.rmtree(tmp, ignore_errors=True)
    # the file side (path, mtime cell, load / load_if_changed / save / autosave, another process replacing the file): Model.ApacheFile
    from . import c16_file

    s_fmodel = Suite(ctx, "file-side-model", batch=2000)
    c16_file.model_suite(ctx, s_fmodel)
    res = merge(s_exp, s_rnd, s_bytes, s_file, s_fmodel, o_sem, exhaustive=ctx.thorough)
    res["suites"]["explicit-state-sequences"]["independent_reader_checks"] = independent["checked"]
    return res


# ------------------------------------------------------------------------------------------
def history_violation(digest, init, seq, cobj):
    """the property's oracle on the real code: after the history, export parses back (independent reader) to
    exactly the live records, each once; returns a description or None"""
    sim = Sim(digest, None if digest else cobj)
    try:
        sim.f.load_string(init)
    except ValueError:
        return None
    last_pw = {}
    for op in seq:
        try:
            k = op[0]
            if k == "set_hash":
                (sim.f.set_hash(op[1], op[2], op[3]) if digest else sim.f.set_hash(op[1], op[3]))
                last_pw.pop((op[1], op[2]), None)
            elif k == "set_pw":
                (sim.f.set_password(op[1], op[2], op[3]) if digest else sim.f.set_password(op[1], op[3]))
                last_pw[(op[1], op[2])] = op[3]
            elif k == "delete":
                (sim.f.delete(op[1], op[2]) if digest else sim.f.delete(op[1]))
                last_pw.pop((op[1], op[2]), None)
            elif k == "delete_realm":
                sim.f.delete_realm(op[1])
                for kk in [kk for kk in last_pw if kk[1] == op[1]]:
                    last_pw.pop(kk)
            elif k == "check" and not digest:
                sim.f.check_password(op[1], op[2])
        except ValueError:
            continue
        except Exception as e:  # noqa: BLE001
            return {"what": f"operation {op} raised {type(e).__name__}: {e}"}
    try:
        text = sim.f.to_string()
    except Exception as e:  # noqa: BLE001
        return {"what": f"to_string() raised {type(e).__name__}: {e}"}
    live = {(k if isinstance(k, tuple) else (k,)): sim.b(v) for k, v in sim.f._records.items()}
    got = independent_reader(text, 3 if digest else 2)
    if got != live:
        return {"what": "export does not parse back to the current records", "export": text.decode("latin-1"), "reread": repr(got), "records": repr(live)}
    lines = [l for l in text.split(b"\n") if l.strip() and not l.lstrip().startswith(b"#")]
    keys = [tuple(l.rstrip().split(b":")[:-1]) for l in lines]
    if len(keys) != len(set(keys)):
        return {"what": "a user occurs twice in the export", "export": text.decode("latin-1")}
    for (u, r), pw in last_pw.items():
        ok = sim.f.check_password(u, r, pw) if digest else sim.f.check_password(u, pw)
        bad = sim.f.check_password(u, r, pw + "x") if digest else sim.f.check_password(u, pw + "x")
        if ok is not True or bad is not False:
            return {"what": f"check_password wrong for {u!r}: right={ok} wrong={bad}"}
    return None


def search(ctx, broken, seeds):
    import logging

    logging.disable(logging.WARNING)
    warnings.simplefilter("ignore")
    cobj = quick_ctx()
    tmp = tempfile.mkdtemp(prefix="c16s_", dir=os.path.dirname(os.path.abspath(__file__)))
    try:
        for tag, inp, ok, obs, exp in semantic_cases(ctx.rng, 300, tmp):
            if not ok:
                return {"input": inp, "observed": obs, "expected": exp, "check": tag}
    finally:
        shutil.rmtree(tmp, ignore_errors=True)
    for digest in (False, True):
        inits = INITIAL_DIGEST if digest else INITIAL
        ops = small_ops(digest)
        for depth in (1, 2, 3):
            for init in inits:
                for seq in itertools.product(ops, repeat=depth):
                    bad = history_violation(digest, init, seq, cobj)
                    if bad:
                        return {"input": {"op": "history", "class": "HtdigestFile" if digest else "HtpasswdFile", "initial": init.decode(), "ops": [list(o) for o in seq]},
                                "observed": bad, "expected": "export parses back to exactly the current users, each once"}
    # bad names are refused and change nothing
    from passlib import apache

    for name in ("a:b", "a\nb", "a\rb", "a\tb", "a\x00b", "x" * 256):
        f = apache.HtpasswdFile.from_string(b"u1:h1\n")
        before = f.to_string()
        for call in (lambda: f.set_hash(name, "h"), lambda: f.set_password(name, "p"), lambda: f.delete(name), lambda: f.check_password(name, "p")):
            try:
                call()
                return {"input": {"op": "bad-name", "name": name}, "observed": "accepted", "expected": "ValueError"}
            except ValueError:
                pass
        if f.to_string() != before:
            return {"input": {"op": "bad-name", "name": name}, "observed": "state changed", "expected": "unchanged"}
    return None


def replay(ctx, inp):
    warnings.simplefilter("ignore")
    if inp.get("op") == "history":
        digest = inp["class"] == "HtdigestFile"
        bad = history_violation(digest, inp["initial"].encode(), [tuple(o) for o in inp["ops"]], quick_ctx())
        return {"fails": bad is not None, "observed": bad}
    if inp.get("op") == "raw":
        from passlib import apache

        f = apache.HtpasswdFile.from_string(inp["initial"].encode())
        for o in inp["ops"]:
            getattr(f, o[0])(*o[1:])
        text = f.to_string()
        live = {(k,): v for k, v in f._records.items()}
        got = independent_reader(text, 2)
        return {"fails": got != live, "observed": {"export": text.decode("latin-1"), "reread": repr(got), "records": repr(live)}}
    if inp.get("op") == "passwd-password":
        from passlib import apache

        f = apache.HtpasswdFile(encoding=inp["encoding"])
        pw = inp["password"]
        f.set_password(inp["user"], pw.encode(inp["encoding"]) if inp.get("bytes_args") else pw)
        obs = (f.check_password(inp["user"], pw), f.check_password(inp["user"], pw.encode(inp["encoding"])))
        return {"fails": obs != (True, True), "observed": repr(obs)}
    r = search(ctx, [], [])
    return {"fails": r is not None, "observed": r}
