"""C09 — the remaining settings of using(): real classes vs Model.UsingMisc (driver suite `umisc`).

fshp variant, scrypt parallelism / block_size, bcrypt_sha256 version (+ ident), scram algs, unix_disabled marker: every supported value,
every alias, neighbours outside the sets, text forms (" 2 ", "2", "02", "x", "", Arabic-Indic digits, underscores), None, wrong types;
what the derived class then holds, what its next hash carries, what its own update check answers for hashes carrying the same / another
value, and that the parent class is unchanged.
"""
from __future__ import annotations

import warnings

from .common import errname


def cps(s) -> str:
    if isinstance(s, (bytes, bytearray)):
        s = list(s)
    else:
        s = [ord(c) for c in s]
    return ",".join(map(str, s)) if s else "-"


def names(l) -> str:
    l = list(l)
    return ";".join(cps(a) for a in l) if l else "E"


def ans(thunk) -> str:
    try:
        return "ok " + thunk()
    except Exception as e:  # noqa: BLE001
        return "err " + errname(e)


def int_arg(v) -> str:
    if v is None:
        return "N"
    if isinstance(v, str):
        return "s:" + cps(v)
    if isinstance(v, int):          # bool included: True is the int 1
        return f"i:{int(v)}"
    return "o"


INT_TEXTS = ["1", "2", " 2 ", "02", "+2", "-2", "0", "x", "", " ", "2.0", "1_6", "1__6", "_2", "٢", "٣٢", "１６", "0x10", "2\n", "\t8", "1e1", "²"]


def model_suite(ctx, s):  # noqa: C901
    warnings.simplefilter("ignore")
    from passlib.hash import bcrypt_sha256, fshp, scram, scrypt, unix_disabled

    rng = ctx.rng
    thorough = ctx.thorough

    # ================================================================= fshp: variant
    info = dict(fshp._variant_info)
    aliases = dict(fshp._variant_aliases)

    def variant_arg(v):
        if v is None:
            return "N"
        if isinstance(v, str):
            return "s:" + cps(v)
        if isinstance(v, bytes):
            return "b:" + cps(v)
        if isinstance(v, int):
            return f"i:{int(v)}"
        return "o"

    vprobes = [None, True, False, 1.0, 2.5, [1], (1,), b"\xff1", b"1\xff", "١", "٣"]
    vprobes += list(range(-2, max(info) + 4)) + [10**20, -(10**20)]
    for al in aliases:
        vprobes += [al, al.encode(), al.upper(), " " + al, al + " ", al + "x", al[:-1], "0" + al, al.replace("sha", "sha-"), al.replace("sha", "sha_")]
    vprobes += ["", "x", "4", "-1", "+1", "1.0", "md5", "sha224", "sha", b"", b"4", b"sha1 "]
    parents = [fshp] + [fshp.using(variant=v) for v in info]
    for parent in parents:
        pv = parent.default_variant
        for v in vprobes:
            sub = None
            try:
                sub = parent.using(variant=v)
                a = f"ok {int(sub.default_variant)}"
            except Exception as e:  # noqa: BLE001
                a = "err " + errname(e)
            s.add_raw(f"umisc variant {pv} {variant_arg(v)}", a, "fshp-variant")
            if parent.default_variant != pv:
                s.add_raw("umisc parent-mutated", f"fshp default_variant changed by using(variant={v!r})", "fshp-frame")
            if sub is not None and parent is fshp:
                # the next hash carries the variant, reads back with it, has the digest size of the table; the update check never looks at it
                def nxt(sub=sub):
                    h = sub.using(rounds=1).hash("pw")
                    o = sub.from_string(h)
                    assert len(o.checksum) == info[o.variant][1], "digest size"
                    assert h.startswith("{FSHP%d|" % o.variant), h
                    return str(int(o.variant))

                s.add_raw(f"umisc variant-init {int(sub.default_variant)}", ans(nxt), "fshp-next-hash")
                for other in info:
                    h = fshp.using(variant=other, rounds=1).hash("pw")
                    real = sub.using(rounds=1).needs_update(h)
                    # model: fshpNeedsUpdate = the rounds answer (False here: same rounds)
                    if real is not False:
                        s.add_raw("umisc fshp-needs-update", f"variant {other} flagged by a class configured with {sub.default_variant}", "fshp-needs-update")
                    else:
                        s.dist["fshp-needs-update-not-flagged:ok"] += 1
    for d in list(range(-2, 7)):
        # a class whose default_variant is set directly (what using() would store if it stored anything): the constructor's assert
        sub = type("fshp_d", (fshp,), dict(default_variant=d))
        s.add_raw(f"umisc variant-init {d}", ans(lambda sub=sub: str(int(sub(use_defaults=True, rounds=1).variant))), "fshp-init")

    # ================================================================= scrypt: parallelism / block_size
    def scrypt_cls(c):
        return f"{int(c.parallelism)};{int(c.block_size)};{int(c.default_rounds)}"

    ivals = [None, True, False, 1.0, 8.5, b"8", [8], -1, 0, 1, 2, 3, 7, 8, 9, 16, 1024, 32767, 32768, 65535, 2**30 - 1, 2**30, 2**30 + 1, (2**30 - 1) // 2, (2**30 - 1) // 2 + 1, 2**15, 2**31, 10**12]
    ivals += INT_TEXTS + ["8", "16", str(2**30), str(2**30 - 1), "-0", "00"]
    sparents = [scrypt, scrypt.using(rounds=1), scrypt.using(rounds=31), scrypt.using(block_size=32768, rounds=4), scrypt.using(parallelism=32767, rounds=4),
                scrypt.using(block_size=2**30 - 1, rounds=4), scrypt.using(parallelism=3, block_size=5, rounds=2)]
    combos = [(p, None) for p in ivals] + [(None, b) for b in ivals]
    extra = 300 if not thorough else 4000
    for _ in range(extra):
        combos.append((rng.choice(ivals), rng.choice(ivals)))
    for _ in range(extra):
        a = rng.choice([1, 2, 3, 5, 7, 2**10, 2**15 - 1, 2**15, 2**15 + 1, 2**20, 2**29, 2**30 - 1])
        b = rng.choice([(2**30 - 1) // a, (2**30 - 1) // a + 1, max((2**30 - 1) // a - 1, 1), a])
        if rng.random() < 0.3:
            a = str(a)
        if rng.random() < 0.3:
            b = f" {b} "
        combos.append((a, b) if rng.random() < 0.5 else (b, a))
    for k, (p, b) in enumerate(combos):
        parent = sparents[k % len(sparents)] if k >= 2 * len(ivals) else scrypt
        relaxed = rng.choice([None, False, True])
        kw = {}
        if p is not None:
            kw["parallelism"] = p
        if b is not None:
            kw["block_size"] = b
        if relaxed is not None:
            kw["relaxed"] = relaxed
        before = scrypt_cls(parent)
        sub = None
        try:
            sub = parent.using(**kw)
            a = f"ok {int(sub.parallelism)} {int(sub.block_size)}"
        except Exception as e:  # noqa: BLE001
            a = "err " + errname(e)
        s.add_raw(f"umisc scrypt {before} {int(bool(relaxed))} {int_arg(p)} {int_arg(b)}", a, "scrypt-using")
        if scrypt_cls(parent) != before:
            s.add_raw("umisc parent-mutated", f"scrypt class changed by using({kw!r})", "scrypt-frame")
        if sub is not None:
            # the settings of the next hash (constructor only: no digest is computed)
            s.add_raw(f"umisc scrypt-init {scrypt_cls(sub)}", ans(lambda sub=sub: (lambda o: f"{int(o.block_size)} {int(o.parallelism)}")(sub(use_defaults=True))), "scrypt-init")
            # the update check of the derived class on hashes carrying the same / other settings (parsed from strings; nothing is computed)
            salt, chk = "c2FsdA", "A" * 43
            for ob, op in {(int(sub.block_size), int(sub.parallelism)), (int(sub.block_size), int(sub.parallelism) + 1), (int(sub.block_size) + 1, int(sub.parallelism)),
                           (8, 1), (max(int(sub.block_size) - 1, 1), max(int(sub.parallelism) - 1, 1))}:
                for rounds in (sub.default_rounds, sub.default_rounds + 1 if sub.default_rounds < sub.max_rounds else sub.default_rounds - 1):
                    h = f"$scrypt$ln={rounds},r={ob},p={op}${salt}${chk}"
                    sub2 = sub.using(min_rounds=sub.default_rounds, max_rounds=sub.default_rounds)
                    ra = int(rounds != sub.default_rounds)
                    s.add_raw(f"umisc scrypt-nu {scrypt_cls(sub2)} {ob} {op} {ra}", ans(lambda: str(bool(sub2.needs_update(h)))), "scrypt-needs-update")
    # a real digest with non-default settings (small cost): the hash carries them and the derived class accepts it
    for p, b in ((2, 3), (1, 1), ("3", " 2 ")):
        sub = scrypt.using(parallelism=p, block_size=b, rounds=2)
        h = sub.hash("pw")
        o = sub.from_string(h)
        s.add_raw(f"umisc scrypt-init {scrypt_cls(sub)}", f"ok {o.block_size} {o.parallelism}", "scrypt-real-hash")
        s.add_raw(f"umisc scrypt-nu {scrypt_cls(sub)} {o.block_size} {o.parallelism} 0", "ok " + str(bool(sub.needs_update(h))), "scrypt-real-hash")
        s.add_raw(f"umisc scrypt-nu {scrypt_cls(scrypt.using(rounds=2))} {o.block_size} {o.parallelism} 0", "ok " + str(bool(scrypt.using(rounds=2).needs_update(h))), "scrypt-real-hash")
    for c in ((0, 8, 4), (1, 0, 4), (-3, 8, 4), (1, 8, 4), (5, 5, 1), (1, -1, 4)):
        sub = type("scrypt_d", (scrypt,), dict(parallelism=c[0], block_size=c[1], default_rounds=c[2]))
        s.add_raw(f"umisc scrypt-init {c[0]};{c[1]};{c[2]}", ans(lambda sub=sub: (lambda o: f"{int(o.block_size)} {int(o.parallelism)}")(sub(use_defaults=True))), "scrypt-init")

    # ================================================================= bcrypt_sha256: version (+ ident)
    def ver_arg(v):
        if v is None:
            return "N"
        if isinstance(v, str):
            return "s:" + cps(v)
        if isinstance(v, int):
            return f"i:{int(v)}"
        if isinstance(v, float) and v == int(v):
            return f"f:{int(v)}"
        if isinstance(v, set):
            return "o"      # `a_set in another_set` looks the argument up as a frozenset: no TypeError, just not found
        try:
            hash(v)
        except TypeError:
            return "u"
        return "o"

    vvals = [None, True, False, 1.0, 2.0, 3.0, 1.5, b"2", (2,), [2], {2}, {}, -1, 0, 1, 2, 3, 4, 10**20] + INT_TEXTS + ["3", "-1", "00001", " 1\n", "١"]
    idents = [None, "2a", "2b", "$2a$", "$2b$", "2y", "$2y$", "2x", "", "2", "$2$"]
    bparents = [bcrypt_sha256, bcrypt_sha256.using(version=1), bcrypt_sha256.using(version=1, ident="2a")]
    for parent in bparents:
        pd, pv = parent.default_ident, parent.version
        for v in vvals:
            for i in idents:
                for which in ("ident", "default_ident", "both"):
                    if which != "ident" and (i is None or (v not in (None, 1, 2, "1", "2") and not thorough)):
                        continue
                    kw = {}
                    if v is not None:
                        kw["version"] = v
                    di = ii = None
                    if i is not None:
                        if which in ("ident", "both"):
                            kw["ident"] = ii = i
                        if which in ("default_ident", "both"):
                            kw["default_ident"] = di = i
                    sub = None
                    try:
                        sub = parent.using(**kw)
                        a = f"ok {cps(sub.default_ident)} {int(sub.version)}"
                    except Exception as e:  # noqa: BLE001
                        a = "err " + errname(e)
                    s.add_raw(f"umisc bs {cps(pd)} {pv} {'N' if di is None else cps(di)} {'N' if ii is None else cps(ii)} {ver_arg(v)}", a, "bsha-using")
                    if (parent.default_ident, parent.version) != (pd, pv):
                        s.add_raw("umisc parent-mutated", f"bcrypt_sha256 class changed by using({kw!r})", "bsha-frame")
    # next hash + update check, on real hashes (cheapest cost)
    real = {}
    for ver, idn in ((1, "2a"), (1, "2b"), (2, "2b")):
        real[(ver, idn)] = bcrypt_sha256.using(version=ver, ident=idn, rounds=4).hash("pw")
    for (ver, idn), h in real.items():
        o = bcrypt_sha256.from_string(h)
        # the hash carries the configured version and ident: model says using() stored exactly (ident, version)
        s.add_raw(f"umisc bs {cps('$2b$')} 2 N {cps(idn)} i:{ver}", f"ok {cps(o.ident)} {int(o.version)}", "bsha-next-hash")
        for cfg in (1, 2):
            sub = bcrypt_sha256.using(version=cfg, rounds=4)
            # super answer: the bcrypt classes below flag a $2a$ hash (ident other than the default) — computed on the real class with version neutralised
            neutral = bool(bcrypt_sha256.using(version=1, rounds=4).needs_update(h))
            s.add_raw(f"umisc bs-nu {cfg} {ver} {int(neutral)}", "ok " + str(bool(sub.needs_update(h))), "bsha-needs-update")

    # ================================================================= scram: algs
    def algs_arg(v):
        if v is None:
            return "N"
        if isinstance(v, str):
            return "t:" + cps(v)
        if isinstance(v, (list, tuple)) and all(isinstance(x, str) for x in v):
            return "l:" + names(v)
        return "o"

    good = ["sha-1", "sha-256", "sha-512", "sha-224", "sha-384", "md5", "md4", "sha1", "sha256", "SHA-1", "Sha_256", "sha512", "SHA512", "scram-sha-1", "SCRAM-SHA-256-PLUS",
            "sha 1", "sha/256", " sha-1 ", "sha3-256", "sha3_512", "sha3-224", "blake2b", "blake2s", "ripemd160", "ripemd-160", "ripemd", "sha-512/256", "sha512-256",
            "sha2-256", "sha-2-256", "shake128", "shake-256", "x", "", "sha", "sha-", "sha-1x", "sha-0", "whirlpool", "sm3", "md5-sha1", "abcdefghij", "abcdefghi", "sha-1024",
            "ſha-1", "SHA-1", "K", "sha-١"]
    avals = [None, 5, 1.5, [], "", ",", " , ", "sha-1", "sha-1,", ",sha-1", "sha-1,,sha-256", "sha-1, sha-256", "sha-256, sha-1", "sha-256", " sha-1 , sha-256 ,", "sha-1,sha-1",
             ["sha-1"], ["sha-1", "sha-1"], ["sha1", "sha-1"], ("sha-512", "sha-1"), ["sha-256", "sha-512"], ["sha-1", "abcdefghij"], ["sha-1", "abcdefghi"],
             "sha-1,sha-256,sha-512", "sha-512,sha-256,sha-1", ["md5", "sha-1", "SHA-256"], "sha-1;sha-256", "sha-1 sha-256", "sha-1\n,\tsha-256", "sha-1,sha-256,", "sha-1,sha-256,,",
             ",,sha-1", "sha_1,SHA256"]
    for g in good:
        avals += [[g, "sha-1"], ["sha-1", g], g + ",sha-1", [g]]
    for _ in range(200 if not thorough else 3000):
        l = [rng.choice(good) for _ in range(rng.randint(0, 4))]
        avals.append(l if rng.random() < 0.5 else rng.choice([",", ", ", " ,", ",,"]).join(l))
    aparents = [scram, scram.using(algs="sha-1,md5")]
    for parent in aparents:
        before = list(parent.default_algs)
        for v in avals:
            for key in ("algs", "default_algs"):
                sub = None
                try:
                    sub = parent.using(**({} if v is None else {key: v}))
                    a = "ok " + names(sub.default_algs)
                except Exception as e:  # noqa: BLE001
                    a = "err " + errname(e)
                d, al = (algs_arg(v), "N") if key == "default_algs" else ("N", algs_arg(v))
                s.add_raw(f"umisc algs {names(before)} {d} {al}", a, "scram-using")
                if list(parent.default_algs) != before:
                    s.add_raw("umisc parent-mutated", f"scram.default_algs changed by using({key}={v!r})", "scram-frame")
                if sub is not None and key == "algs" and parent is scram:
                    s.add_raw(f"umisc algs-init {names(sub.default_algs)}", ans(lambda sub=sub: names(sub(use_defaults=True, rounds=1, salt=b"s", checksum=None).algs)), "scram-init")
        # both keywords at once
        for v, w in (("sha-1", "sha-1"), ("sha-1", ["sha-1", "md5"]), (["sha-256"], "x"), (5, "sha-1"), ("sha-1", 5)):
            s.add_raw(f"umisc algs {names(before)} {algs_arg(v)} {algs_arg(w)}", ans(lambda: names(parent.using(default_algs=v, algs=w).default_algs)), "scram-using-both")
    # a class whose default_algs was set directly: the constructor's assert
    for d in (["sha-1"], ["sha-256", "sha-1"], ["sha1"], ["sha-1", "sha-1"], [], ["sha-256"], ["SHA-1"], ["sha-1", "abcdefghij"]):
        sub = type("scram_d", (scram,), dict(default_algs=d))
        s.add_raw(f"umisc algs-init {names(d)}", ans(lambda sub=sub: names(sub(use_defaults=True, rounds=1, salt=b"s").algs)), "scram-init")
    # update check on real hashes
    sets = [["sha-1"], ["sha-1", "sha-256"], ["sha-1", "sha-256", "sha-512"], ["md5", "sha-1"], ["sha-1", "sha-512"]]
    hashes = {tuple(a): scram.using(algs=a, rounds=1).hash("pw") for a in sets}
    for cfg in sets:
        sub = scram.using(algs=cfg, rounds=1)
        for own, h in hashes.items():
            o = scram.from_string(h)
            assert list(o.algs) == list(own)
            s.add_raw(f"umisc algs-nu {names(sub.default_algs)} {names(o.algs)} 0", "ok " + str(bool(sub.needs_update(h))), "scram-needs-update")
            sub2 = scram.using(algs=cfg, rounds=2, min_rounds=2)
            s.add_raw(f"umisc algs-nu {names(sub2.default_algs)} {names(o.algs)} 1", "ok " + str(bool(sub2.needs_update(h))), "scram-needs-update")

    # ================================================================= unix_disabled: marker
    def marker_arg(v):
        if v is None:
            return "N"
        if isinstance(v, str):
            return "s:" + cps(v)
        if isinstance(v, bytes):
            return "b:" + cps(v)
        return "o"

    mvals = [None, 5, ["!"], 1.5, "", b"", "!", "*", "!!", "*LK*", "!x", "*NP*", "x", "x!", " !", "$1$abc", "!$1$abc", "\x00", "！", "﹡", b"!", b"*", b"*LK*", b"x", b" *", b"!\xc3\xa9", b"\xff!",
             "!é", "*\U0001f600", "!" * 300]
    mparents = [unix_disabled, unix_disabled.using(marker="*LK*"), unix_disabled.using(marker=b"*")]
    for parent in mparents:
        before = parent.default_marker
        for v in mvals:
            sub = None
            try:
                sub = parent.using(marker=v)
                a = "ok " + marker_arg(sub.default_marker)
            except Exception as e:  # noqa: BLE001
                a = "err " + errname(e)
            s.add_raw(f"umisc marker {marker_arg(before)} {marker_arg(v)}", a, "unix-marker")
            if parent.default_marker != before or type(parent.default_marker) is not type(before):
                s.add_raw("umisc parent-mutated", f"unix_disabled.default_marker changed by using(marker={v!r})", "unix-frame")
            if sub is not None:
                def nxt(sub=sub):
                    h = sub.hash("pw")
                    assert sub.identify(h) and unix_disabled.identify(h) and sub.verify("pw", h) is False
                    return cps(h)

                s.add_raw(f"umisc marker-hash {marker_arg(sub.default_marker)}", ans(nxt), "unix-next-hash")


if __name__ == "__main__":
    import json
    import os
    import sys

    sys.path.insert(0, os.path.dirname(os.path.dirname(os.path.abspath(__file__))))
    from corr.common import Suite
    from runner import Ctx

    ctx = Ctx("C09", "thorough" if "--thorough" in sys.argv else "quick", int(os.environ.get("VERIF_SEED", "0")))
    su = Suite(ctx, "using-misc-model")
    model_suite(ctx, su)
    r = su.result()
    print(json.dumps({k: r[k] for k in ("cases", "unmodelled", "distribution")}, indent=1))
    print("mismatches:", len(r["mismatches"]))
    for m in r["mismatches"][:25]:
        print(m)
