"""C01 — a hash verifies exactly the password it was made from."""
from __future__ import annotations

import warnings

from . import verify_common as vc
from .common import Oracle, Suite, hx, merge
from .common import errname as _errname
from .formats_common import cps

GEN_UNITS = ["ShaCrypt", "B64", "Handlers", "PyUnicode", "FormatDigests", "FormatParsers"]
LEAN_TARGETS = ["PasslibVerif.Props.C01", "PasslibVerif.Props.C01Crypt"]
#: per-family end-to-end instantiations (hasher = C07 parser/renderer + Spec checksum): (corr module, Props module, suite name)
FAMILIES = [("c01_pbkdf", ["PasslibVerif.Props.C01Pbkdf"], "pbkdf-family-hash-verify-model"),
            ("c01_misc", ["PasslibVerif.Props.C01Misc"], "misc-family-hash-verify-model"),
            ("c01_desbcrypt", ["PasslibVerif.Props.C01DesBcrypt"], "des-bcrypt-family-hash-verify-model"),
            ("c01_static", ["PasslibVerif.Props.C01Static", "PasslibVerif.Props.C01StaticExamples", "PasslibVerif.Props.C01StaticExamples2"], "static-family-hash-verify-model"),
            ("c01_wrap", ["PasslibVerif.Props.C01Wrap", "PasslibVerif.Props.C01WrapCode"], "wrap-family-hash-verify-model")]
LEAN_TARGETS += [t for f in FAMILIES for t in f[1]]
ASSUMPTIONS = [
    "that two secrets which differ outside a format's documented equivalences have different checksums is collision resistance of the digest primitives — not a theorem; "
    "it is explored on the real code with near-miss secrets",
    "per-format string round trips used by the generic theorem are the C07 theorems; per-format checksum algorithms are specified under C02/C11",
]
EXPLANATION = (
    "Theorems: for ANY hasher whose format round-trips and whose checksum does not read the stored checksum, whatever hash() returns verifies True for the same "
    "secret, as text or as its UTF-8 bytes, and verify of another secret answers exactly 'the checksums are equal'; oversized secrets are refused by hash and verify "
    "alike. Instantiated end to end (C07 parser + C02 checksum model over the FIPS/RFC digest transcriptions) for md5_crypt, apr_md5_crypt, sha256_crypt, sha512_crypt: "
    "every secret hash() accepts, every hash64 salt up to the format's size, every rounds value. Correspondence: the compiled hash/verify model of those four hashers "
    "vs the real ones (text and bytes secrets, NUL, oversize, near misses, foreign and mutated strings); every registered hasher, its ldap_/django_ wrappers and the "
    "libpass hashers through a real-code oracle: ASCII str result, identified, verifies True as text and bytes, False for near-miss secrets outside the documented "
    "equivalences (truncation limits, 7-bit DES, case folding, mysql323 blanks), disabled hashers never verify."
)
ONLY_CORRESPONDENCE = ["hashers other than the four crypt formats: real-code oracle over settings x secrets x near misses (their parse/render models are C07, their algorithms C02/C11)"]

def errname(e):
    return _errname(e)


CRYPT4 = ["md5_crypt", "apr_md5_crypt", "sha256_crypt", "sha512_crypt"]
H64 = "./0123456789ABCDEFGHIJKLMNOPQRSTUVWXYZabcdefghijklmnopqrstuvwxyz"


def sec_arg(secret):
    return ("t:" + cps(secret)) if isinstance(secret, str) else ("b:" + hx(secret))


def model_suite(ctx, s_m):
    rng = ctx.rng
    n = 60 if not ctx.thorough else 800
    for name in CRYPT4:
        h = vc.handler(name)
        for _ in range(n):
            secret = vc.gen_secret(rng)
            if rng.random() < 0.15:
                i = rng.randrange(len(secret) + 1)
                secret = secret[:i] + b"\x00" + secret[i:]
            if rng.random() < 0.05:
                # the size check precedes everything: oversize is cheap; the exact limit is computed by the model only in the thorough tier
                secret = vc.gen_secret(rng, rng.choice([4097, 5000] + ([4095, 4096] if ctx.thorough and "md5" in name else [])), "ascii")
            form = secret
            if rng.random() < 0.4:
                try:
                    form = secret.decode("utf-8")
                except UnicodeDecodeError:
                    pass
            salt = "".join(rng.choice(H64) for _ in range(rng.choice([0, 1, 4, 8] if "md5" in name else [0, 1, 8, 15, 16])))
            rounds = rng.choice([1000, 1001, 1042, 1043, 5000]) if "sha" in name else 0
            kw = dict(salt=salt)
            if "sha" in name:
                kw["rounds"] = rounds
            try:
                hs = h.using(**kw).hash(form)
                ans = "ok " + cps(hs)
            except Exception as e:  # noqa: BLE001
                hs = None
                ans = "err " + errname(e)
            s_m.add_raw(f"vfy {name} hash {sec_arg(form)} {cps(salt)} {rounds}", ans, name + ":hash")
            if hs is None:
                hs = h.using(**kw).hash("pw")
            cands = [hs, hs[:-1] + ("." if hs[-1] != "." else "/"), hs.rsplit("$", 1)[0], hs + "\n", hs[: len(hs) // 2], "", hs.replace("$", "$$", 1)]
            for c in cands:
                for sec in [form, form + ("x" if isinstance(form, str) else b"x")] + ([secret] if form is not secret else []):
                    try:
                        a2 = "ok " + ("True" if h.verify(sec, c) else "False")
                    except Exception as e:  # noqa: BLE001
                        a2 = "err " + errname(e)
                    s_m.add_raw(f"vfy {name} verify {sec_arg(sec)} {cps(c)}", a2, name + ":verify")


def oracle_all(ctx, o, first_only=False):
    """the property on the real code for every shipped hasher"""
    warnings.simplefilter("ignore")
    rng = ctx.rng
    fails = []

    def chk(tag, ok, inp, observed=None, expected=None):
        o.check(tag, ok, inp, observed, expected)
        if not ok:
            fails.append({"input": inp, "observed": observed, "expected": expected})

    from .formats_common import EXPENSIVE

    for name in vc.all_names():
        h = vc.handler(name)
        reps = (2 if name in EXPENSIVE or name in ("scrypt", "sun_md5_crypt") else 6) if not ctx.thorough else 40
        for _ in range(reps):
            kw = vc.cheap_settings(h, rng)
            hh = vc.using(h, kw)
            ck = vc.ctx_kwds(h, rng)
            secret = vc.gen_secret(rng, kind=rng.choice(["ascii", "ascii", "text"]) if name in vc.TEXT_ONLY else None)
            if name == "lmhash" and not secret.isascii():
                # lmhash takes bytes as already being in its code page (cp437), not as UTF-8: "text equals its UTF-8 bytes" is not its
                # contract; non-ASCII passwords are exercised with the right code page in the `encoding` section below
                secret = vc.gen_secret(rng, kind="ascii")
            if vc.BASE.get(name, name) in vc.DES_FAMILY:
                secret = secret.replace(b"\x80", b"\x81")
            if name in ("cisco_pix",):
                secret = secret[:16]
            if name in ("cisco_asa",):
                secret = secret[:32]
            inp = {"op": "hash-verify", "hasher": name, "kwds": {k: (v.hex() if isinstance(v, bytes) else v) for k, v in kw.items()}, "context": ck, "secret": secret.hex()}
            e0 = vc.eff(name, secret)
            if e0 is None:
                continue            # not an admissible secret for this format (e.g. not decodable / not in the format's code page)
            st, hs = vc.safe_call(lambda: hh.hash(secret, **ck))
            if st == "err":
                # a secret the format documents as inadmissible: code page (lmhash), oversized for cisco, …
                if isinstance(hs, (UnicodeEncodeError, UnicodeDecodeError)) or (name in ("cisco_pix", "cisco_asa") and "size" in errname(hs).lower()):
                    continue
                chk(name + ":hash-succeeds", False, inp, errname(hs) + ": " + str(hs)[:100], "hashing an admissible secret succeeds")
                if first_only:
                    return fails
                continue
            ok = isinstance(hs, str) and (hs.isascii() or name in ("plaintext", "ldap_plaintext", "roundup_plaintext"))   # the plaintext schemes store the password itself
            chk(name + ":ascii-str", ok, inp, repr(hs)[:120], "an ASCII text string")
            if name in vc.DISABLED:
                chk(name + ":disabled-never-verifies", hh.verify(secret, hs, **ck) is False and hh.verify(b"", hs, **ck) is False, inp, hs, "verify False for every password")
                continue
            chk(name + ":identified", hh.identify(hs) is True, inp, hs, "identified as its own")
            st, v = vc.safe_call(lambda: hh.verify(secret, hs, **ck))
            chk(name + ":verifies-own", st == "ok" and v is True, inp, (hs, str(v)[:80]), "verify True for the password it was made from")
            try:
                text = secret.decode("utf-8")
            except UnicodeDecodeError:
                text = None
            if text is not None and name not in ("htdigest", "ldap_plaintext", "plaintext", "roundup_plaintext") or (text is not None and "encoding" not in ck):
                st, v = vc.safe_call(lambda: hh.verify(text, hs, **ck))
                chk(name + ":text-equals-bytes", st == "ok" and v is True, inp, str(v)[:80], "the same answer for text and for its UTF-8 bytes")
                st, h2 = vc.safe_call(lambda: hh.verify(secret, hh.hash(text, **ck), **ck))
                chk(name + ":text-hash-bytes-verify", st == "ok" and h2 is True, inp, str(h2)[:80], "a hash made from text verifies the equivalent bytes")
            for other in vc.near_misses(name, secret, rng, 3 if not ctx.thorough else 8):
                e1 = vc.eff(name, other)
                if e1 is None:
                    continue
                if name in ("cisco_pix", "cisco_asa") and len(other) != len(secret):
                    continue        # the user name is appended to short passwords before padding: ("pw" + "a", user "a") and ("pw", user "a") share the same input by construction
                if name == "scram":
                    # SASLprep prohibits control / unassigned / bidi-violating text: such a secret is not admissible for scram
                    try:
                        from passlib.utils import saslprep

                        saslprep(other.decode("utf-8"))
                    except (ValueError, UnicodeDecodeError):
                        continue
                st, v = vc.safe_call(lambda: hh.verify(other, hs, **ck))
                if st == "err":
                    if name in ("cisco_pix", "cisco_asa") or isinstance(v, (UnicodeEncodeError, UnicodeDecodeError)):
                        continue
                    chk(name + ":near-miss-no-error", False, dict(inp, other=other.hex()), errname(v), "an answer")
                    continue
                chk(name + (":equivalent-verifies" if e1 == e0 else ":near-miss-rejected"), v is (e1 == e0), dict(inp, other=other.hex()), v,
                    "True exactly for secrets equal under the format's documented equivalences")
            if fails and first_only:
                return fails
    # ---- every identifier / variant a hasher can write x the boundary secrets (empty, one byte, text with a multi-byte character, the
    #      truncation limit): some identifiers take a code path of their own (bcrypt's legacy $2$ repeats the password, scrypt's $7$ layout,
    #      fshp's digests), which the random settings above reach rarely
    for name in vc.all_names():
        h = vc.handler(name)
        sk = h.setting_kwds or ()
        variants = []
        base = vc.cheap_settings(h, rng)
        if "ident" in sk:
            variants += [dict(base, ident=iv) for iv in (getattr(getattr(h, "wrapped", h), "ident_values", None) or ()) if "2x" not in iv]
        if name == "fshp":
            variants += [dict(base, variant=v) for v in (0, 1, 2, 3)]
        if name == "scrypt":
            # the settings fields of the $7$ layout are 30-bit integers in 5 hash64 digits: values that need the second and third digit
            variants += [dict(base, ident=iv, block_size=r_, parallelism=p_) for iv in ("$7$", "$scrypt$") for r_, p_ in ((64, 1), (1, 64), (65, 2), (1, 4097), (129, 1))]
        if name == "bcrypt_sha256":
            variants += [dict(base, version=1, ident="2a"), dict(base, version=1, ident="2b"), dict(base, version=2)]
        for kw in variants:
            hh = vc.using(h, kw)
            ck = vc.ctx_kwds(h)
            lim = getattr(h, "truncate_size", None) or 0
            for secret in ("", "a", "\u00e9", "pass word", "x" * lim if lim else "xyz", b"", b"\xff", b"ab" * 40):
                inp = {"op": "ident-boundary", "hasher": name, "kwds": {k: (v.hex() if isinstance(v, bytes) else v) for k, v in kw.items()},
                       "secret": secret if isinstance(secret, str) else secret.hex(), "bytes": isinstance(secret, bytes)}
                sb = secret.encode("utf-8") if isinstance(secret, str) else secret
                if vc.eff(name, sb) is None:
                    continue
                st, hs = vc.safe_call(lambda: hh.hash(secret, **ck))
                if st == "err":
                    if isinstance(hs, (UnicodeEncodeError, UnicodeDecodeError)):
                        continue
                    chk(name + ":ident-boundary-hash", False, inp, errname(hs) + ": " + str(hs)[:80], "hashing an admissible secret succeeds")
                    continue
                st, v = vc.safe_call(lambda: hh.verify(secret, hs, **ck))
                chk(name + ":ident-boundary-verify", st == "ok" and v is True and hh.identify(hs) is True, inp, (hs, str(v)[:60]), "identified, verifies True")
                other = (secret + "q") if isinstance(secret, str) else (secret + b"q")
                ob = other.encode("utf-8") if isinstance(other, str) else other
                if vc.eff(name, ob) is not None and vc.eff(name, ob) != vc.eff(name, sb):
                    st, v = vc.safe_call(lambda: hh.verify(other, hs, **ck))
                    chk(name + ":ident-boundary-other", st == "ok" and v is False, inp, str(v)[:60], "False for another secret")
        if fails and first_only:
            return fails
    # ---- context keyword `encoding`: the password is text in another code page; hash and verify must agree on it
    for name in [n for n in vc.all_names() if "encoding" in (getattr(vc.handler(n), "context_kwds", ()) or ())]:
        h = vc.handler(name)
        for enc in ("latin-1", "cp1252", "koi8-r", "utf-8", "cp437"):
            for text in ("caf\u00e9 au lait", "na\u00efve", "plain", "\u00e6\u00c6"):
                try:
                    raw = text.encode(enc)
                except UnicodeEncodeError:
                    continue
                ck = dict(vc.ctx_kwds(h), encoding=enc)
                inp = {"op": "encoding", "hasher": name, "encoding": enc, "secret": text}
                st, hs = vc.safe_call(lambda: h.hash(text, **ck))
                if st == "err":
                    if isinstance(hs, (UnicodeEncodeError, UnicodeDecodeError)):
                        continue
                    chk(name + ":encoding-hash-succeeds", False, inp, errname(hs), "a hash")
                    continue
                st1, v1 = vc.safe_call(lambda: h.verify(text, hs, **ck))
                st2, v2 = vc.safe_call(lambda: h.verify(raw, hs, **ck))
                try:
                    upper_raw = text.upper().encode(enc)
                except UnicodeEncodeError:
                    upper_raw = None
                if name == "lmhash" and upper_raw is None:
                    # what lmhash hashes is the upper-cased text in the code page: text that has no such form cannot have been hashed faithfully
                    chk(name + ":encoding-unrepresentable-refused", False, inp, "hashed: " + str(hs)[:40], "UnicodeEncodeError (the upper-cased text is not in the code page)")
                    continue
                if name == "lmhash" and raw.upper() != upper_raw:
                    st2, v2 = "ok", True        # recorded finding lmhash-bytes-secret-ascii-only-uppercasing: bytes are upper-cased as ASCII only
                chk(name + ":encoding-verifies", st1 == "ok" and v1 is True and st2 == "ok" and v2 is True, inp, {"text": str(v1)[:40], "bytes": str(v2)[:40]},
                    "True for the text and for its bytes in that encoding")
                st3, v3 = vc.safe_call(lambda: h.verify(text + "x", hs, **ck))
                if name not in ("lmhash",) or len(text) < 14:
                    chk(name + ":encoding-near-miss", st3 == "ok" and v3 is False, inp, str(v3)[:40], "False")
    # ---- a character the format's code page cannot represent is refused, never replaced: otherwise passwords differing only there collide
    for name in [n for n in vc.all_names() if "encoding" in (getattr(vc.handler(n), "context_kwds", ()) or ())]:
        h = vc.handler(name)
        for text, twin in (("\u043f\u0430\u0440\u043e\u043b\u044c123", "\u043f\u0440\u0438\u0432\u0435\u0442123"), ("\u20ac100", "?100"), ("a\u0101b", "a?b"), ("\u5bc6\u7801", "??")):
            for enc in (None, "cp437", "latin-1"):
                ck = dict(vc.ctx_kwds(h), **({"encoding": enc} if enc else {}))
                inp = {"op": "unrepresentable", "hasher": name, "encoding": enc, "secret": text, "twin": twin}
                st, hs = vc.safe_call(lambda: h.hash(text, **ck))
                if st == "err":
                    chk(name + ":unrepresentable-refused-cleanly", isinstance(hs, (UnicodeEncodeError, ValueError)), inp, errname(hs), "UnicodeEncodeError")
                    continue
                try:
                    text.encode(enc or "utf-8")
                    representable = True
                except UnicodeEncodeError:
                    representable = False
                st2, v2 = vc.safe_call(lambda: h.verify(twin, hs, **ck))
                chk(name + ":unrepresentable-no-collision", (representable or name != "lmhash") and not (st2 == "ok" and v2 is True), inp, {"hash": str(hs)[:40], "twin_verifies": str(v2)[:40]},
                    "refused, or at least not equal to a password that differs in those characters")
    # ---- exactly the library-wide maximum is an admissible password
    for name in ("md5_crypt", "sha256_crypt", "pbkdf2_sha256", "ldap_salted_sha1", "hex_sha256", "phpass", "mysql41", "nthash", "django_salted_sha1", "htdigest"):
        h = vc.handler(name)
        hh = vc.using(h, vc.cheap_settings(h, rng))
        ck = vc.ctx_kwds(h)
        pw = "".join(rng.choice("abcdefgh") for _ in range(4096))
        st, hs = vc.safe_call(lambda: hh.hash(pw, **ck))
        ok = st == "ok" and hh.verify(pw, hs, **ck) is True and hh.verify(pw[:-1] + "z", hs, **ck) is False
        chk(name + ":max-size-password", ok, {"op": "max-size", "hasher": name, "length": 4096}, errname(hs) if st == "err" else "verify mismatch", "hashes, verifies, last byte matters")
    # ---- the very first call of a process (lazy backend loading must not change the result)
    from .C03 import worker

    for cls in ("bcrypt_sha256", "django_bcrypt_sha256", "bcrypt", "sha256_crypt", "des_crypt"):
        for first in ("hash", "verify"):
            code_ops = [["calc", cls, b"pw".hex()], ["calc", cls, b"pw".hex()]]
            res = worker(code_ops, False)
            same = len(res) == 2 and res[0] == res[1] and res[0].startswith("ok ")
            hs = res[0].split(" ", 2)[2] if same else None
            good = same and vc.handler(cls).verify("pw", hs) is True
            chk(cls + ":first-call-of-process", good, {"op": "first-call", "hasher": cls}, res, "the first hash of a fresh process equals the second and verifies")
            break
    # libpass hashers
    from libpass.hashers.bcrypt import BcryptHasher, BcryptSHA256Hasher
    from libpass.hashers.pbkdf2 import PBKDF2SHA256Handler, PBKDF2SHA512Handler
    from libpass.hashers.sha_crypt import SHA256Hasher, SHA512Hasher

    for mk, lim in ((lambda: SHA256Hasher(rounds=1000), None), (lambda: SHA512Hasher(rounds=1000), None), (lambda: PBKDF2SHA256Handler(rounds=3), None),
                    (lambda: PBKDF2SHA512Handler(rounds=3), None), (lambda: BcryptHasher(rounds=4), 72), (lambda: BcryptSHA256Hasher(rounds=4), None)):
        for _ in range(3 if not ctx.thorough else 30):
            hh = mk()
            secret = vc.gen_secret(rng).replace(b"\x00", b"\x01")
            if lim:
                secret = secret[:lim]
            inp = {"op": "libpass-hash-verify", "hasher": type(hh).__name__, "secret": secret.hex()}
            st, hs = vc.safe_call(lambda: hh.hash(secret))
            if st == "err":
                chk("libpass:hash-succeeds", False, inp, errname(hs), "hashing succeeds")
                continue
            chk("libpass:own", isinstance(hs, str) and hs.isascii() and hh.identify(hs) is True and hh.verify(hs, secret) is True, inp, hs, "ASCII, identified, verifies")
            for other in vc.near_misses("", secret, rng, 3):
                if lim and (len(other) > lim or other[:lim] == secret[:lim]):
                    continue
                st, v = vc.safe_call(lambda: hh.verify(hs, other))
                chk("libpass:near-miss-rejected", st == "ok" and v is False, dict(inp, other=other.hex()), str(v)[:80], "False")
    # ---- long passwords (beyond every block size and every "sane" bound, up to the library's maximum): hash, identify, verify own
    for name in vc.all_names():
        h = vc.handler(name)
        if name in EXPENSIVE or name in ("scrypt", "sun_md5_crypt", "cisco_pix", "cisco_asa") or name in vc.DISABLED:
            continue
        hh = vc.using(h, vc.cheap_settings(h, rng))
        ck = vc.ctx_kwds(h, rng)
        for ln in ((257, 4096) if not ctx.thorough else (255, 256, 257, 300, 1000, 2048, 4095, 4096)):
            secret = "".join(rng.choice("abcdefghijklmnopqrstuvwxyz") for _ in range(ln))
            inp = {"op": "long-secret", "hasher": name, "length": ln}
            st, hs = vc.safe_call(lambda: hh.hash(secret, **ck))
            if st == "err":
                chk(name + ":long-secret-hash", isinstance(hs, (UnicodeEncodeError,)) or "Truncate" in errname(hs), inp, errname(hs) + ": " + str(hs)[:80], "a hash")
                continue
            st, v = vc.safe_call(lambda: (hh.identify(hs), hh.verify(secret, hs, **ck), hh.verify(secret.encode(), hs, **ck)))
            chk(name + ":long-secret-verifies-own", st == "ok" and v == (True, True, True), inp, (hs[:60], str(v)[:60]), "identified; verifies the password it was made from, text and bytes")
        if fails and first_only:
            return fails
    # ---- every backend of a multi-backend hasher: text and its UTF-8 bytes are the same password under each of them
    import passlib.utils.handlers as _uh

    for name in vc.all_names():
        h = vc.handler(name)
        base = getattr(h, "wrapped", h)
        if not (isinstance(base, type) and issubclass(base, _uh.BackendMixin)) or name in EXPENSIVE and name not in ("bcrypt", "bcrypt_sha256"):
            continue
        try:
            orig = base.get_backend()
        except Exception:  # noqa: BLE001
            continue
        try:
            for be in base.backends:
                try:
                    if not base.has_backend(be):
                        continue
                    base.set_backend(be)
                except Exception:  # noqa: BLE001
                    continue
                hh = vc.using(h, vc.cheap_settings(h, rng))
                ck = vc.ctx_kwds(h, rng)
                for text in ("p\u00e4ssw\u00f6rd", "\u5bc6\u7801-\u00e9", "caf\u00e9" * 5):
                    raw = text.encode("utf-8")
                    inp = {"op": "backend-text-bytes", "hasher": name, "backend": be, "secret": text}
                    st, v = vc.safe_call(lambda: (hh.verify(raw, hh.hash(text, **ck), **ck), hh.verify(text, hh.hash(raw, **ck), **ck), hh.verify(text, hh.hash(text, **ck), **ck)))
                    if st == "err" and isinstance(v, (UnicodeEncodeError, UnicodeDecodeError)):
                        continue
                    chk(name + ":backend-text-equals-bytes", st == "ok" and v == (True, True, True), inp, str(v)[:100], "text and its UTF-8 bytes verify each other's hashes")
        finally:
            try:
                base.set_backend(orig)
            except Exception:  # noqa: BLE001
                pass
        if fails and first_only:
            return fails
    return fails


def correspond(ctx):
    warnings.simplefilter("ignore")
    # NullPasswordError is a ValueError; the os_crypt back end refuses NUL with a plain ValueError of its own ("null character in secret")
    s_m = Suite(ctx, "crypt-hash-verify-model", model_canon=lambda o: "err ValueError" if o == "err NullPasswordError" else o)
    o = Oracle(ctx, "all-hashers-hash-verify")
    model_suite(ctx, s_m)
    oracle_all(ctx, o)
    fam = []
    import importlib

    for mod, _props, sname in FAMILIES:
        m = importlib.import_module("." + mod, __package__)
        sf = Suite(ctx, sname, model_canon=getattr(m, "canon", None))
        m.model_suite(ctx, sf)
        fam.append(sf)
    return merge(s_m, o, *fam)


def search(ctx, broken, seeds):
    o = Oracle(ctx, "search")
    fails = oracle_all(ctx, o, first_only=True)
    return fails[0] if fails else None


def replay(ctx, inp):
    warnings.simplefilter("ignore")
    if inp.get("op") == "hash-verify":
        h = vc.handler(inp["hasher"])
        kw = {k: (bytes.fromhex(v) if k == "salt" and isinstance(v, str) and inp["hasher"] in ("scrypt",) else v) for k, v in inp.get("kwds", {}).items()}
        hh = vc.using(h, kw)
        secret = bytes.fromhex(inp["secret"])
        ck = inp.get("context", {})
        try:
            hs = hh.hash(secret, **ck)
            v = hh.verify(secret, hs, **ck)
            return {"fails": v is not True and inp["hasher"] not in vc.DISABLED, "observed": {"hash": hs, "verify": v}}
        except Exception as e:  # noqa: BLE001
            return {"fails": True, "observed": errname(e) + ": " + str(e)[:100]}
    if inp.get("op") == "ident-boundary":
        h = vc.handler(inp["hasher"])
        kw = {k: (bytes.fromhex(v) if k == "salt" and isinstance(v, str) and inp["hasher"] in ("scrypt",) else v) for k, v in inp.get("kwds", {}).items()}
        hh = vc.using(h, kw)
        secret = bytes.fromhex(inp["secret"]) if inp.get("bytes") else inp["secret"]
        try:
            hs = hh.hash(secret, **vc.ctx_kwds(h))
            v = hh.verify(secret, hs, **vc.ctx_kwds(h))
            return {"fails": v is not True, "observed": {"hash": hs, "verify": v}}
        except Exception as e:  # noqa: BLE001
            return {"fails": True, "observed": errname(e) + ": " + str(e)[:100]}
    if inp.get("op") == "scrypt7-dollar-salt":
        from passlib.hash import scrypt

        try:
            hs = scrypt.using(ident="$7$", salt=b"a$b", rounds=1, block_size=1, parallelism=1).hash("pw")
        except NotImplementedError as e:
            return {"fails": False, "observed": "refused: " + str(e)}
        try:
            v = scrypt.verify("pw", hs)
        except Exception as e:  # noqa: BLE001
            v = errname(e)
        return {"fails": v is not True, "observed": {"hash": hs, "verify": v}}
    if inp.get("op") == "lmhash-bytes-case":
        from passlib.hash import lmhash

        hs = lmhash.hash("caf\u00e9", encoding="latin-1")
        v = lmhash.verify("caf\u00e9".encode("latin-1"), hs, encoding="latin-1")
        return {"fails": v is not True, "observed": {"hash": hs, "verify_bytes": v}}
    r = search(ctx, [], [])
    return {"fails": r is not None, "observed": r}
