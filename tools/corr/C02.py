"""C02 — every format computes the published algorithm bit for bit."""
from __future__ import annotations

import hashlib
import warnings

from .common import Oracle, Suite, errname, hx, merge
from .C02_formats import correspond_formats, replay_formats, search_formats

GEN_UNITS = ["ShaCrypt", "B64", "FormatDigests"]
LEAN_TARGETS = ["PasslibVerif.Props.C02", "PasslibVerif.Props.C02Formats"]
#: code-level groups (a statement-by-statement model of passlib's own pure-Python checksum code, proved equal to the specification):
#: (corr module, Props modules, suite name)
CODE_GROUPS = [("c02_code_des", ["PasslibVerif.Props.C02CodeDes", "PasslibVerif.Props.C02CodeDesExamples", "PasslibVerif.Props.C02CodeDesExamples2", "PasslibVerif.Props.C02CodeDesExamples3"],
                "code-model-des-family"),
               ("c02_code_iter", ["PasslibVerif.Props.C02CodeIter", "PasslibVerif.Props.C02CodeIterSun", "PasslibVerif.Props.C02CodeIterExamples", "PasslibVerif.Props.C02CodeIterExamples2"],
                "code-model-iterated-digests"),
               ("c02_code_digest", ["PasslibVerif.Props.C02CodeDigest", "PasslibVerif.Props.C02CodeDigestKdf", "PasslibVerif.Props.C02CodeDigestKdfExamples",
                                    "PasslibVerif.Props.C02CodeDigestKdfExamples2", "PasslibVerif.Props.C02CodeDigestKdfExamples3"], "code-model-digest-family"),
               ("c02_code_wrap", ["PasslibVerif.Props.C02CodeWrap", "PasslibVerif.Props.C02CodeWrapLaws"], "code-model-wrappers-and-bcrypt-prehash")]
LEAN_TARGETS += [t for g in CODE_GROUPS for t in g[1]]
ASSUMPTIONS = [
    "hashlib's MD5/SHA-256/SHA-512 are external C code: the theorems are about passlib's control structure over the FIPS 180-4 / RFC 1321 "
    "transcriptions (Spec.SHA256/SHA512/MD5); hashlib = transcription is checked on every run (suite digests) and is not a theorem",
    "a hashlib object is modelled by the bytes fed to it (update = append)",
    "the statement lists of _raw_sha2_crypt, _raw_md5_crypt and libpass _sha_crypt are pinned by the translator unit ShaCrypt; "
    "the model was written against exactly those statements",
]
EXPLANATION = (
    "Theorems (Props.C02): for EVERY password, salt and rounds value the optimised md5-crypt / sha256-crypt / sha512-crypt code of passlib and of "
    "libpass (42-round blocks, pair loop, odd tail, both DP paths, repeat_string, the length bit loop, offsets table + perms order as found in the "
    "source, transposition tables, hash64 packing) produces exactly the checksum the published algorithm defines (Spec.ShaCrypt: Drepper's "
    "steps 1-22 with the reference implementation's b64_from_24bit order; Spec.Md5Crypt: PHK's crypt-md5.c).  Correspondence: compiled model and "
    "compiled specification vs the real functions on the length/rounds grid of the property; OS crypt() as a third implementation."
)
ONLY_CORRESPONDENCE = [
    "formats other than md5-crypt/apr/sha256-crypt/sha512-crypt: the checksum the real hasher produces is compared with the executable Lean specification "
    "written from the format's published description (Spec/Formats/*.lean, driver word `sfmt`) over the property's grid, and with independent third "
    "implementations (C library crypt(), hashlib.pbkdf2_hmac / hashlib.scrypt, the bcrypt package, Django's hashers, hashlib compositions); "
    "their primitives (DES, Blowfish/bcrypt, scrypt, MD4, HMAC, PBKDF1/2) have theorems under C11; Props.C02Formats relates the format specifications to each other",
    "text steps that the published descriptions leave to the caller are applied by the harness: SASLprep for scram (inputs are SASLprep fixed points), "
    "the OEM code page for lmhash (cp437 on the Python side for str secrets), Unicode case mapping beyond ASCII for oracle10 / mssql2000 / msdcc user names "
    "(inputs are ASCII letters plus caseless characters)",
    "bcrypt `$2x$` is refused by passlib and not specified; argon2 has no backend in the sandbox",
]

LENS = [0, 1, 7, 8, 9, 15, 16, 17, 55, 56, 63, 64, 65, 72, 73, 95, 96, 97, 127, 128, 129, 255, 256]
H64 = "./0123456789ABCDEFGHIJKLMNOPQRSTUVWXYZabcdefghijklmnopqrstuvwxyz"


def rand_pwd(rng, n):
    return bytes(rng.randrange(1, 256) for _ in range(n))


def rand_salt(rng, n):
    return "".join(rng.choice(H64) for _ in range(n))


def rounds_grid(rng, thorough):
    base = [1000 + k for k in range(0, 86)]  # every residue mod 42, twice, odd and even tails
    base += [1008, 1050, 42 * 24, 42 * 24 + 1, 42 * 25 - 1, 2047, 2048, 2049, 4095, 4096, 5000]
    if thorough:
        base += [rng.randrange(1000, 20000) for _ in range(200)] + [65536, 99999]
    return base


def out(s: str) -> str:
    return "ok " + s.encode("ascii").hex()


def correspond(ctx):
    warnings.simplefilter("ignore")
    import libpass.hashers.sha_crypt as lsc
    import passlib.handlers.md5_crypt as m5
    import passlib.handlers.sha2_crypt as s2
    from passlib.utils import repeat_string

    rng = ctx.rng
    s_model = Suite(ctx, "shacrypt-model-vs-passlib")
    s_spec = Suite(ctx, "shacrypt-published-algorithm-vs-passlib")
    s_dig = Suite(ctx, "digests-spec-vs-hashlib")
    s_rep = Suite(ctx, "repeat-string")
    o_os = Oracle(ctx, "os-crypt-third-implementation")

    grid = rounds_grid(rng, ctx.thorough)
    n_len = len(LENS)
    cases = []
    # every length of the property's list x a spread of rounds; every rounds value x a spread of lengths
    for i, ln in enumerate(LENS):
        for r in ([grid[(7 * i + j) % len(grid)] for j in range(3 if not ctx.thorough else 12)]):
            cases.append((ln, r))
    for j, r in enumerate(grid):
        cases.append((LENS[j % n_len], r))
        cases.append((rng.choice([0, 1, 2, 3, 5, 31, 32, 33, 47, 48, 49, 94, 95, 96, 97, 98, 100, 111, 112, 113, 119, 120, 191, 192, 193]), r))
    if ctx.thorough:
        cases += [(rng.randrange(0, 400), rng.choice(grid)) for _ in range(600)] + [(4096, 1000), (1024, 1043), (2048, 1001)]

    def both(line_variant, pwd, salt, rounds, thunk):
        try:
            ans = out(thunk())
        except Exception as e:  # noqa: BLE001
            ans = "err " + errname(e)
        s_model.add_raw(f"shac model {line_variant} {hx(pwd)} {hx(salt.encode())} {rounds}", ans, line_variant)
        s_spec.add_raw(f"shac spec {line_variant} {hx(pwd)} {hx(salt.encode())} {rounds}", ans, line_variant)
        return ans

    import crypt as oscrypt

    for k, (ln, rounds) in enumerate(cases):
        pwd = rand_pwd(rng, ln)
        sl = rng.choice([0, 1, 2, 7, 8, 9, 15, 16]) if k % 3 else 16
        salt = rand_salt(rng, sl)
        a256 = both("sha256", pwd, salt, rounds, lambda: s2._raw_sha2_crypt(pwd, salt, rounds, False))
        a512 = both("sha512", pwd, salt, rounds, lambda: s2._raw_sha2_crypt(pwd, salt, rounds, True))
        both("lp256", pwd, salt, rounds, lambda: lsc._sha_crypt(pwd, salt.encode(), rounds, hashlib.sha256, lsc._256_transpose_map))
        both("lp512", pwd, salt, rounds, lambda: lsc._sha_crypt(pwd, salt.encode(), rounds, hashlib.sha512, lsc._512_transpose_map))
        msalt = salt[:8]
        am = both("md5", pwd, msalt, 0, lambda: m5._raw_md5_crypt(pwd, msalt, False))
        both("apr", pwd, msalt, 0, lambda: m5._raw_md5_crypt(pwd, msalt, True))
        # third implementation: the C library (libxcrypt).  It needs a str password; use the ones that are valid UTF-8/surrogate-free.
        if k % 4 == 0 and ln <= 256:
            try:
                spw = pwd.decode("utf-8")
            except UnicodeDecodeError:
                spw = None
            if spw is not None and salt:
                for ident, ans in (("$5$", a256), ("$6$", a512)):
                    got = oscrypt.crypt(spw, f"{ident}rounds={rounds}${salt}")
                    o_os.check("os-crypt" + ident, got is not None and ("ok " + got.rsplit("$", 1)[1].encode().hex()) == ans, {"pwd": pwd.hex(), "salt": salt, "rounds": rounds, "ident": ident}, got, ans)
                if msalt:
                    got = oscrypt.crypt(spw, f"$1${msalt}")
                    o_os.check("os-crypt$1$", got is not None and ("ok " + got.rsplit("$", 1)[1].encode().hex()) == am, {"pwd": pwd.hex(), "salt": msalt}, got, am)
    # ASCII passwords so that the C library sees every length of the list too
    for ln in LENS:
        spw = "".join(rng.choice("abcXYZ019 !~") for _ in range(ln))
        rounds = rng.choice(grid)
        salt = rand_salt(rng, rng.choice([1, 8, 16]))
        for use512, ident in ((False, "$5$"), (True, "$6$")):
            mine = s2._raw_sha2_crypt(spw.encode(), salt, rounds, use512)
            got = oscrypt.crypt(spw, f"{ident}rounds={rounds}${salt}")
            o_os.check("os-crypt-ascii" + ident, got is not None and got.rsplit("$", 1)[1] == mine, {"pwd": spw, "salt": salt, "rounds": rounds, "ident": ident}, got, mine)
        mine = m5._raw_md5_crypt(spw.encode(), salt[:8], False)
        got = oscrypt.crypt(spw, f"$1${salt[:8]}")
        o_os.check("os-crypt-ascii$1$", got is not None and got.rsplit("$", 1)[1] == mine, {"pwd": spw, "salt": salt[:8]}, got, mine)

    # the digest primitive: transcription vs hashlib around every padding boundary
    for alg in ("md5", "sha256", "sha512"):
        for n in list(range(0, 150)) + [191, 192, 193, 255, 256, 257, 1000]:
            msg = bytes(rng.randrange(256) for _ in range(n))
            s_dig.add(f"digest {alg} {hx(msg)}", lambda a=alg, m=msg: hashlib.new(a, m).hexdigest(), alg)
    # repeat_string (both copies)
    from libpass._utils.str import repeat_string as lp_repeat

    for _ in range(300):
        src = bytes(rng.randrange(256) for _ in range(rng.choice([1, 2, 3, 16, 32, 64])))
        n = rng.choice([0, 1, len(src) - 1, len(src), len(src) + 1, 2 * len(src), 2 * len(src) + 1, rng.randrange(0, 300)])
        s_rep.add(f"shac repeat {hx(src)} {n}", lambda s=src, n=n: repeat_string(s, n).hex() or "", "passlib")
        s_rep.add(f"shac repeat {hx(src)} {n}", lambda s=src, n=n: lp_repeat(s, n).hex() or "", "libpass")
    code = []
    import importlib

    for mod, _props, sname in CODE_GROUPS:
        m = importlib.import_module("." + mod, __package__)
        sc = Suite(ctx, sname, model_canon=getattr(m, "canon", None))
        m.model_suite(ctx, sc)
        code.append(sc)
    return merge(s_model, s_spec, s_dig, s_rep, o_os, *code, *correspond_formats(ctx))


# ------------------------------------------------------------------------------------------
def _py_sha_crypt(pwd: bytes, salt: bytes, rounds: int, H, order, tail):
    """Drepper's steps, written here from the specification text with hashlib (independent of passlib and of the Lean files)"""
    B = H(pwd + salt + pwd).digest()
    ctx = H(pwd + salt)
    n = len(pwd)
    L = len(B)
    ctx.update(B * (n // L) + B[: n % L])
    i = n
    while i > 0:
        ctx.update(B if i % 2 else pwd)
        i //= 2
    A = ctx.digest()
    DP = H(pwd * n).digest()
    P = DP * (n // L) + DP[: n % L]
    DS = H(salt * (16 + A[0])).digest()
    S = DS * (len(salt) // L) + DS[: len(salt) % L]
    C = A
    for i in range(rounds):
        c = H()
        c.update(P if i % 2 else C)
        if i % 3:
            c.update(S)
        if i % 7:
            c.update(P)
        c.update(C if i % 2 else P)
        C = c.digest()
    out = []

    def b64(b2, b1, b0, k):
        w = (b2 << 16) | (b1 << 8) | b0
        for _ in range(k):
            out.append(H64[w & 0x3F])
            w >>= 6

    for a, b, c in order:
        b64(C[a], C[b], C[c], 4)
    tail(C, b64)
    return "".join(out)


ORDER256 = [(0, 10, 20), (21, 1, 11), (12, 22, 2), (3, 13, 23), (24, 4, 14), (15, 25, 5), (6, 16, 26), (27, 7, 17), (18, 28, 8), (9, 19, 29)]
ORDER512 = [(0, 21, 42), (22, 43, 1), (44, 2, 23), (3, 24, 45), (25, 46, 4), (47, 5, 26), (6, 27, 48), (28, 49, 7), (50, 8, 29), (9, 30, 51), (31, 52, 10),
            (53, 11, 32), (12, 33, 54), (34, 55, 13), (56, 14, 35), (15, 36, 57), (37, 58, 16), (59, 17, 38), (18, 39, 60), (40, 61, 19), (62, 20, 41)]


def py_sha256_crypt(pwd, salt, rounds):
    return _py_sha_crypt(pwd, salt, rounds, hashlib.sha256, ORDER256, lambda C, b64: b64(0, C[31], C[30], 3))


def py_sha512_crypt(pwd, salt, rounds):
    return _py_sha_crypt(pwd, salt, rounds, hashlib.sha512, ORDER512, lambda C, b64: b64(0, 0, C[63], 2))


def py_md5_crypt(pwd: bytes, salt: bytes, magic: bytes):
    fin = hashlib.md5(pwd + salt + pwd).digest()
    ctx = hashlib.md5(pwd + magic + salt)
    pl = len(pwd)
    while pl > 0:
        ctx.update(fin[: min(16, pl)])
        pl -= 16
    i = len(pwd)
    while i:
        ctx.update(b"\0" if i & 1 else pwd[:1])
        i >>= 1
    fin = ctx.digest()
    for i in range(1000):
        c = hashlib.md5()
        c.update(pwd if i & 1 else fin)
        if i % 3:
            c.update(salt)
        if i % 7:
            c.update(pwd)
        c.update(fin if i & 1 else pwd)
        fin = c.digest()
    out = []

    def to64(v, n):
        for _ in range(n):
            out.append(H64[v & 0x3F])
            v >>= 6

    for a, b, c in [(0, 6, 12), (1, 7, 13), (2, 8, 14), (3, 9, 15), (4, 10, 5)]:
        to64((fin[a] << 16) | (fin[b] << 8) | fin[c], 4)
    to64(fin[11], 2)
    return "".join(out)


def search(ctx, broken, seeds):
    """the four crypt formats first, then every other format against its independent third implementations"""
    return _search_shacrypt(ctx, broken, seeds) or search_formats(ctx) or _search_spec_lines(ctx, seeds)


def _search_spec_lines(ctx, seeds):
    """formats without a third implementation on this host (MD4 family, msdcc, mysql323, ...): an input on which passlib and the Lean
    specification of the published algorithm disagree is the failing input -- the specification reproduces the published vectors in
    the same run (suite format-spec-reproduces-published-vectors) and agreed with the unchanged code on this grid.
    Re-run on the real code and through the specification before it is reported."""
    from .C02_formats import builtin_backends, gen_cases, run_case

    fmts = []
    for m in seeds or []:
        ln = m.get("input") if isinstance(m, dict) else m
        if isinstance(ln, str) and ln.startswith("sfmt "):
            f = ln.split(" ")[1]
            if f not in fmts:
                fmts.append(f)
    for f in fmts[:6]:
        with builtin_backends():
            cases = [(c, run_case(c)) for c in gen_cases(ctx, only={f})]
        cases = [(c, a) for c, (a, e) in cases if e is None or c.reject is None or not c.reject(e)]
        outs = ctx.model([c.line for c, _a in cases])
        for (c, a), mo in zip(cases, outs):
            if mo != "unmodelled" and a != mo:
                return {"input": dict(c.inp, op="spec-line", line=c.line), "observed": a, "expected": mo + "  (Lean specification of the published algorithm)"}
    return None


def _search_shacrypt(ctx, broken, seeds):
    """the property's statement on the real code: the produced string equals an independent implementation of the published algorithm,
    and the independent implementation's strings verify under passlib — through the public hasher interface."""
    warnings.simplefilter("ignore")
    import passlib.handlers.md5_crypt as m5
    import passlib.handlers.sha2_crypt as s2
    from libpass.hashers.sha_crypt import SHA256Hasher, SHA512Hasher

    rng = ctx.rng
    grid = rounds_grid(rng, ctx.thorough)
    lens = LENS + [2, 3, 31, 32, 33, 94, 98, 100, 120, 200]
    todo = [(ln, grid[(5 * i) % len(grid)]) for i, ln in enumerate(lens)] + [(lens[j % len(lens)], r) for j, r in enumerate(grid)]
    for ln, rounds in todo:
        pwd = rand_pwd(rng, ln)
        salt = rand_salt(rng, rng.choice([0, 1, 8, 15, 16]))
        for name, fn, ref in (
            ("sha256_crypt", lambda: s2._raw_sha2_crypt(pwd, salt, rounds, False), lambda: py_sha256_crypt(pwd, salt.encode(), rounds)),
            ("sha512_crypt", lambda: s2._raw_sha2_crypt(pwd, salt, rounds, True), lambda: py_sha512_crypt(pwd, salt.encode(), rounds)),
            ("md5_crypt", lambda: m5._raw_md5_crypt(pwd, salt[:8], False), lambda: py_md5_crypt(pwd, salt[:8].encode(), b"$1$")),
            ("apr_md5_crypt", lambda: m5._raw_md5_crypt(pwd, salt[:8], True), lambda: py_md5_crypt(pwd, salt[:8].encode(), b"$apr1$")),
        ):
            got, want = fn(), ref()
            if got != want:
                return {"input": {"op": "raw", "format": name, "pwd": pwd.hex(), "salt": salt, "rounds": rounds}, "observed": got, "expected": want}
        if salt:
            for cls, ref, ident in ((SHA256Hasher, py_sha256_crypt, "$5$"), (SHA512Hasher, py_sha512_crypt, "$6$")):
                got = cls(rounds=rounds).hash(pwd, salt=salt)
                want = f"{ident}rounds={rounds}${salt}${ref(pwd, salt.encode(), rounds)}"      # libpass always writes the rounds field
                if got != want:
                    return {"input": {"op": "libpass", "format": cls.__name__, "pwd": pwd.hex(), "salt": salt, "rounds": rounds}, "observed": got, "expected": want}
    return None


def replay(ctx, inp):
    warnings.simplefilter("ignore")
    import passlib.handlers.md5_crypt as m5
    import passlib.handlers.sha2_crypt as s2

    if inp.get("op") == "raw":
        pwd, salt, rounds = bytes.fromhex(inp["pwd"]), inp["salt"], inp["rounds"]
        f = inp["format"]
        if f == "sha256_crypt":
            got, want = s2._raw_sha2_crypt(pwd, salt, rounds, False), py_sha256_crypt(pwd, salt.encode(), rounds)
        elif f == "sha512_crypt":
            got, want = s2._raw_sha2_crypt(pwd, salt, rounds, True), py_sha512_crypt(pwd, salt.encode(), rounds)
        else:
            got, want = m5._raw_md5_crypt(pwd, salt[:8], f == "apr_md5_crypt"), py_md5_crypt(pwd, salt[:8].encode(), b"$apr1$" if f == "apr_md5_crypt" else b"$1$")
        return {"fails": got != want, "observed": got, "expected": want}
    if inp.get("op") == "formats":
        return replay_formats(ctx, inp)
    if inp.get("op") == "spec-line":
        r = _search_spec_lines(ctx, [{"suite": "format-checksums", "input": inp["line"]}])
        return {"fails": r is not None, "observed": r or "the format's grid agrees with the specification"}
    r = _search_shacrypt(ctx, [], [])
    return {"fails": r is not None, "observed": r}
