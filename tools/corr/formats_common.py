"""shared by C07 / C08 / C01: canonical dump of a parsed hash on the real code, hash generators, mutators."""
from __future__ import annotations

import warnings

from .common import errname

#: formats that have a Lean model (Model/Formats/*); grows as families are added
MODELLED = ["md5_crypt", "apr_md5_crypt", "sha256_crypt", "sha512_crypt"]


def cps(s) -> str:
    if isinstance(s, bytes):
        return ",".join(str(b) for b in s) if s else "-"
    return ",".join(str(ord(c)) for c in s) if s else "-"


def handler(name):
    warnings.simplefilter("ignore")
    from passlib import registry

    return registry.get_crypt_handler(name)


def extras(name, obj) -> list[tuple[str, str]]:
    """format-specific parsed fields, in the order the Lean model prints them"""
    out = []
    if name in ("sha256_crypt", "sha512_crypt"):
        out.append(("implicit_rounds", "49" if obj.implicit_rounds else "48"))
    return out


def dump(name, obj) -> str:
    h = handler(name)
    ident = getattr(obj, "ident", None) or ""
    rounds = getattr(obj, "rounds", None)
    salt = getattr(obj, "salt", None)
    chk = obj.checksum
    ex = extras(name, obj)
    o = lambda v: "N" if v is None else cps(v)
    return f"{cps(ident)} {'N' if rounds is None else rounds} {o(salt)} {o(chk)} " + (";".join(f"{k}={v}" for k, v in ex) or "-")


def parse_dump(name, s) -> str:
    return dump(name, handler(name).from_string(s))


def reparse(name, s) -> str:
    return cps(handler(name).from_string(s).to_string())


def cheap(h):
    """the hasher at its cheapest admissible cost"""
    try:
        if "rounds" in (h.setting_kwds or ()):
            lo = h.min_rounds
            r = max(lo, 1) if h.rounds_cost != "log2" else max(lo, 1)
            if h.name in ("bsdi_crypt", "ldap_bsdi_crypt"):
                r |= 1
            return h.using(rounds=r)
    except Exception:  # noqa: BLE001
        pass
    return h


def gen_hashes(name, rng, n=6):
    """hash strings over the settings space of the format (cheap costs)"""
    h = handler(name)
    out = []
    for _ in range(n):
        kw = {}
        if "rounds" in h.setting_kwds:
            lo = h.min_rounds
            kw["rounds"] = rng.choice([lo, lo + 1, 5000 if lo <= 5000 <= (h.max_rounds or 5000) and h.rounds_cost != "log2" else lo, lo + rng.randrange(0, 2000)]) if h.rounds_cost != "log2" else rng.choice([lo, lo + 1])
            if name in ("bsdi_crypt", "ldap_bsdi_crypt"):
                kw["rounds"] |= 1
        if "salt_size" in h.setting_kwds and h.max_salt_size != h.min_salt_size:
            mx = h.max_salt_size or 24
            kw["salt_size"] = rng.choice([h.min_salt_size, mx, rng.randrange(h.min_salt_size, mx + 1)])
        if getattr(h, "ident_values", None):
            kw["ident"] = rng.choice(h.ident_values)
        try:
            out.append(h.using(**kw).hash("pw"))
        except Exception:  # noqa: BLE001
            try:
                out.append(h.hash("pw"))
            except Exception:  # noqa: BLE001
                pass
    return out


def variants(h, name, s, rng):
    """well-formed variants: config-only forms, implicit/explicit default rounds, bytes input handled by caller"""
    out = [s]
    if s.count("$") >= 3:
        out.append(s.rsplit("$", 1)[0])           # config string (no checksum)
        out.append(s.rsplit("$", 1)[0] + "$")
    if name in ("sha256_crypt", "sha512_crypt"):
        hd = handler(name)
        out.append(hd.using(rounds=5000).hash("pw"))
        x = hd.using(rounds=5000).hash("pw")
        out.append(x[:3] + "rounds=5000$" + x[3:])
    return out


def mutants(s, rng, n=40):
    """one-edit neighbours + structural corruptions of a valid hash"""
    out = set()
    alphabet = "$./0aZ9=_,*!{} \x00é٣:+-"
    for _ in range(n):
        k = rng.randrange(6)
        i = rng.randrange(len(s) + 1)
        if k == 0 and s:
            i = min(i, len(s) - 1)
            out.add(s[:i] + rng.choice(alphabet) + s[i + 1:])
        elif k == 1 and s:
            i = min(i, len(s) - 1)
            out.add(s[:i] + s[i + 1:])
        elif k == 2:
            out.add(s[:i] + rng.choice(alphabet) + s[i:])
        elif k == 3:
            out.add(s[:i])
        elif k == 4:
            parts = s.split("$")
            if len(parts) > 2:
                j = rng.randrange(1, len(parts))
                parts.insert(j, parts[j]) if rng.random() < 0.5 else parts.pop(j)
                out.add("$".join(parts))
        else:
            # numbers: zero-padded / oversized / signed / spaced
            import re
            m = list(re.finditer(r"\d+", s))
            if m:
                mm = rng.choice(m)
                rep = rng.choice(["0" + mm.group(0), mm.group(0) + "0" * 12, "+" + mm.group(0), " " + mm.group(0), mm.group(0) + "_0", "", "-1", "٣"])
                out.add(s[:mm.start()] + rep + s[mm.end():])
    out |= {"", "$", s + "$", "$" + s, s + s, s.upper(), s.lower(), " " + s, s + "\n"}
    return sorted(out)
