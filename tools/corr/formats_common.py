"""shared by C07 / C08 / C01: canonical dump of a parsed hash on the real code, hash generators, mutators."""
from __future__ import annotations

import warnings

from . import formats_misc as _misc
from .common import errname

#: formats that have a Lean model (Model/Formats/*); grows as families are added
MODELLED = ["md5_crypt", "apr_md5_crypt", "sha256_crypt", "sha512_crypt"]
#: Misc family (scrypt, scram, fshp, argon2, django_argon2, libpass inspectors): adapters live in formats_misc.py
MODELLED += _misc.NAMES

#: the `Static` family (Model/Formats/Static.lean)
STATIC = ["hex_md4", "hex_md5", "hex_sha1", "hex_sha256", "hex_sha512", "nthash", "lmhash", "bsd_nthash", "msdcc", "msdcc2",
          "mysql323", "mysql41", "oracle10", "oracle11", "postgres_md5", "mssql2000", "mssql2005", "ldap_md5", "ldap_sha1",
          "ldap_salted_md5", "ldap_salted_sha1", "ldap_salted_sha256", "ldap_salted_sha512", "ldap_plaintext", "plaintext",
          "roundup_plaintext", "ldap_hex_md5", "ldap_hex_sha1", "ldap_md5_crypt", "ldap_sha256_crypt", "ldap_sha512_crypt",
          "cisco_pix", "cisco_asa", "cisco_type7", "htdigest", "unix_disabled", "django_disabled"]
MODELLED += STATIC

#: formats whose `identify` is compared with the model as well (`fmt identify`)
IDENTIFY_CHECKED = ["md5_crypt", "apr_md5_crypt", "sha256_crypt", "sha512_crypt"] + STATIC

#: handlers that are not GenericHandlers: their "parse" is the validation `verify` applies to the stored string
WHOLE = ("plaintext", "ldap_plaintext", "unix_disabled", "htdigest")

#: DesBcrypt family (Model/Formats/DesBcrypt.lean)
DES_BCRYPT = ["des_crypt", "bsdi_crypt", "bigcrypt", "crypt16", "django_des_crypt", "bcrypt", "bcrypt_sha256",
              "django_bcrypt", "django_bcrypt_sha256", "sun_md5_crypt", "phpass"]
MODELLED += DES_BCRYPT

IDENTIFY_CHECKED += DES_BCRYPT
IDENTIFY_CHECKED += _misc.NAMES

#: the PBKDF family (Model/Formats/Pbkdf.lean)
PBKDF_FAMILY = ["sha1_crypt", "pbkdf2_sha1", "pbkdf2_sha256", "pbkdf2_sha512", "ldap_pbkdf2_sha1", "ldap_pbkdf2_sha256",
                "ldap_pbkdf2_sha512", "cta_pbkdf2_sha1", "dlitz_pbkdf2_sha1", "atlassian_pbkdf2_sha1", "grub_pbkdf2_sha512",
                "django_pbkdf2_sha1", "django_pbkdf2_sha256", "django_salted_md5", "django_salted_sha1"]
MODELLED += PBKDF_FAMILY


#: hashers whose cheapest admissible cost still takes a noticeable fraction of a second in pure Python / C
EXPENSIVE = {"sun_md5_crypt", "bcrypt", "bcrypt_sha256", "django_bcrypt", "django_bcrypt_sha256", "ldap_bcrypt", "scrypt", "argon2", "django_argon2"}


def cps(s) -> str:
    if isinstance(s, bytes):
        return ",".join(str(b) for b in s) if s else "-"
    return ",".join(str(ord(c)) for c in s) if s else "-"


def handler(name):
    warnings.simplefilter("ignore")
    if name in _misc.ADAPTERS and name not in _misc.REGISTRY_NAMES:
        return _misc.ADAPTERS[name]          # libpass inspectors / stubbed variants: no registry entry
    from passlib import registry

    return registry.get_crypt_handler(name)


def extras(name, obj) -> list[tuple[str, str]]:
    """format-specific parsed fields, in the order the Lean model prints them"""
    out = []
    if name in ("sha256_crypt", "sha512_crypt"):
        out.append(("implicit_rounds", "49" if obj.implicit_rounds else "48"))
    if name == "bcrypt_sha256":
        out.append(("version", cps(str(obj.version))))
    if name == "sun_md5_crypt":
        out.append(("bare_salt", "49" if obj.bare_salt else "48"))
    return out


def is_wrapper(h) -> bool:
    import passlib.utils.handlers as uh

    return isinstance(h, uh.PrefixWrapper)


def dump(name, obj) -> str:
    h = handler(name)
    ident = getattr(obj, "ident", None) or ""
    rounds = getattr(obj, "rounds", None)
    salt = getattr(obj, "salt", None)
    if isinstance(salt, int) and not isinstance(salt, bool):
        salt = bytes([salt])          # cisco_type7: the salt is an integer 0..52
    chk = obj.checksum
    ex = extras(name, obj)
    o = lambda v: "N" if v is None else cps(v)
    return f"{cps(ident)} {'N' if rounds is None else rounds} {o(salt)} {o(chk)} " + (";".join(f"{k}={v}" for k, v in ex) or "-")


def whole_validate(name, s) -> str:
    """plaintext / ldap_plaintext / unix_disabled / htdigest have no from_string: run the validation the real
    `verify` applies to the stored string (InvalidHashError / MalformedHashError are ValueErrors) and return it"""
    h = handler(name)
    if name == "htdigest":
        r = h._norm_hash(s)
        h.verify("", s, "user", "realm")
        return r
    h.verify("", s)                   # raises InvalidHashError when the string is not one of theirs
    return s


def parse_dump(name, s) -> str:
    if name in _misc.ADAPTERS:
        return _misc.parse_dump(name, s)
    h = handler(name)
    if is_wrapper(h):
        return parse_dump(h.wrapped.name, h._unwrap_hash(s))
    if name in WHOLE:
        return f"- N N {cps(whole_validate(name, s))} -"
    return dump(name, h.from_string(s))


def reparse_str(name, s) -> str:
    h = handler(name)
    if is_wrapper(h):
        return h._wrap_hash(reparse_str(h.wrapped.name, h._unwrap_hash(s)))
    if name in WHOLE:
        return whole_validate(name, s)
    return h.from_string(s).to_string()


def reparse(name, s) -> str:
    if name in _misc.ADAPTERS:
        return _misc.reparse(name, s)
    return cps(reparse_str(name, s))


def ctx_kwds(h) -> dict:
    ck = getattr(h, "context_kwds", ()) or ()
    kw = {}
    if "user" in ck:
        kw["user"] = "user"
    if "realm" in ck:
        kw["realm"] = "realm"
    return kw


def identify(name, s) -> str:
    if name in _misc.ADAPTERS:
        return _misc.identify(name, s)
    return "1" if handler(name).identify(s) else "0"


def extra_cases(name, rng):
    return _misc.ADAPTERS[name].extra_cases(rng) if name in _misc.ADAPTERS else []


def cheap(h):
    """the hasher at its cheapest admissible cost"""
    try:
        if "rounds" in (h.setting_kwds or ()):
            lo = h.min_rounds
            r = max(lo, 1) if h.rounds_cost != "log2" else max(lo, 1)
            if h.name in ("bsdi_crypt", "ldap_bsdi_crypt"):
                r |= 1
            return h.using(rounds=r)
    except Exception:  # noqa: BLE001
        pass
    return h


def gen_hashes(name, rng, n=6, vary_secret=False):
    """hash strings over the settings space of the format (cheap costs)"""
    h = handler(name)
    out = []
    ck = ctx_kwds(h)
    for _ in range(n):
        kw = {}
        secret = "pw"
        if name in STATIC and vary_secret:
            secret = "".join(rng.choice("abcXYZ019 é") for _ in range(rng.randrange(0, 12)))
        if name == "cisco_type7" and vary_secret and rng.random() < 0.7:
            kw["salt"] = rng.randrange(0, 53)
        if "rounds" in h.setting_kwds:
            lo = h.min_rounds
            kw["rounds"] = rng.choice([lo, lo + 1, 5000 if lo <= 5000 <= (h.max_rounds or 5000) and h.rounds_cost != "log2" else lo, lo + rng.randrange(0, 2000)]) if h.rounds_cost != "log2" else rng.choice([lo, lo + 1])
            if name in ("bsdi_crypt", "ldap_bsdi_crypt"):
                kw["rounds"] |= 1
            if name == "sun_md5_crypt":
                kw["rounds"] = rng.choice([0, 1, 2, 7, 40])      # the real cost is 4096 + rounds
        if "salt_size" in h.setting_kwds and h.max_salt_size != h.min_salt_size:
            mx = h.max_salt_size or 24
            kw["salt_size"] = rng.choice([h.min_salt_size, mx, rng.randrange(h.min_salt_size, mx + 1)])
        if getattr(h, "ident_values", None):
            kw["ident"] = rng.choice(h.wrapped.ident_values if is_wrapper(h) else h.ident_values)
        try:
            out.append(h.using(**kw).hash(secret, **ck))
        except Exception:  # noqa: BLE001
            try:
                out.append(h.hash("pw", **ck))
            except Exception:  # noqa: BLE001
                pass
    return out


def gen_model_hashes(name, rng, n=6):
    """well-formed strings for the format-model suite (adapters build them without hashing: costs may be huge)"""
    if name in _misc.ADAPTERS:
        return _misc.ADAPTERS[name].gen(rng, n)
    return gen_hashes(name, rng, n)


def variants(h, name, s, rng):
    """well-formed variants: config-only forms, implicit/explicit default rounds, bytes input handled by caller"""
    if name in _misc.ADAPTERS:
        return _misc.ADAPTERS[name].variants(s, rng)
    out = [s]
    if s.count("$") >= 3:
        out.append(s.rsplit("$", 1)[0])           # config string (no checksum)
        out.append(s.rsplit("$", 1)[0] + "$")
    if name in ("sha256_crypt", "sha512_crypt"):
        hd = handler(name)
        out.append(hd.using(rounds=5000).hash("pw"))
        x = hd.using(rounds=5000).hash("pw")
        out.append(x[:3] + "rounds=5000$" + x[3:])
    if name in STATIC:
        out += static_variants(name, s, rng)
    if name in DES_BCRYPT:
        out += des_bcrypt_variants(name, s, rng)
    if name == "dlitz_pbkdf2_sha1":
        # rounds 400 are elided by to_string; "190" is the explicit spelling; upper-case / prefixed hex digits
        x = handler(name).using(rounds=400).hash("pw")
        out += [x, x.replace("$p5k2$$", "$p5k2$190$", 1), x.replace("$p5k2$$", "$p5k2$+0x190$", 1)]
        # (parse/render only: the digest is not recomputed, so a large cost is spelled into a cheap hash)
        z = handler(name).using(rounds=0xABC).hash("pw")
        y = z.replace("$p5k2$abc$", "$p5k2$abcdef$", 1)
        out += [y, y.replace("abcdef", "ABCDEF", 1), y.replace("abcdef", "aB_cD_ef", 1), z]
    if name == "cta_pbkdf2_sha1":
        y = handler(name).using(rounds=0xABC).hash("pw")
        out += [y, y.replace("$abc$", "$ABC$", 1), y.replace("$abc$", "$ 0XaBc $", 1), y.replace("-", "+").replace("_", "/")]
    if name == "grub_pbkdf2_sha512":
        out += [s.rsplit(".", 1)[0], s.rsplit(".", 1)[0] + ".", s.lower()]
    if name.startswith("pbkdf2_sha") or name.startswith("ldap_pbkdf2"):
        out.append(s.replace(".", "+"))          # ab64_decode also takes the standard alphabet
        if name.startswith("ldap_"):
            out += [s.rsplit("$", 1)[0], s.rsplit("$", 1)[0] + "$"]
    if name in PBKDF_FAMILY and (name not in _EDGE_DONE or rng.random() < 0.2):
        _EDGE_DONE.add(name)
        out += pbkdf_edge_cases(name, s, rng)
    return out


#: spellings of an integer field that exercise int(s, base): signs, blanks, underscores, prefixes, non-ASCII digits, limits
_INT_EDGE = ["0", "1", "4294967295", "4294967296", "-1", "+5", " 5", "5 ", "5_0", "5__0", "_5", "5_", "\u0665", "\uff15", "1e3", "0x10",
             "+0x10", " 0X_1f", "+0x_1_f", "-0x1", "00", "01", "", "ffffffff", "100000000", "FFFFFFFF", "fF", "\t1f\n", "1f\x00", "0b1",
             "0o7", "+", "-", " ", "0x", "+0x", "+0x_", "+0x__1", "1\xa0", "\x1c7", "1 2", "+ 1", "x1", "1g"]

#: spellings of a base64 field that exercise the lenient C decoder: misplaced / excess padding, foreign characters, bad lengths
_B64_EDGE = ["", "=", "==", "====", "A", "AA", "AAA", "AAAA", "AAAAA", "A=", "AA=", "AA==", "AAA=", "AA=A", "A=A=", "A=AA", "AA=AA",
             "AA==AA", "AAA=AAAA", "!!", "!!!!", "A!A", "A A", "AA\n", "+/", "./", "-_", "\xe9A", "A\x00A", "=AAA", "==AA", "A==A"]


_EDGE_DONE: set = set()


def pbkdf_edge_cases(name, s, rng):
    """structured corruptions of a valid hash of the PBKDF family: every field replaced by edge-case spellings"""
    import base64
    import os

    out = []
    h = handler(name)
    if name == "atlassian_pbkdf2_sha1":
        pre, body = s[:9], s[9:]
        out += [pre + body + x for x in ("=", "==", "A", "AAAA", "!", " ")] + [pre + body[:-k] for k in (1, 2, 3, 4)]
        out += [pre + x + body for x in ("=", "!", "A", "AAAA")] + [pre + body[:20] + x + body[20:] for x in ("=", "==", "!", "\n", "\xe9")]
        out += [pre + base64.b64encode(os.urandom(n)).decode() for n in (0, 15, 16, 47, 48, 49, 50, 51)] + [pre + x for x in _B64_EDGE]
        return out
    if name in ("django_salted_md5", "django_salted_sha1"):
        pre, rest = s.split("$", 1)
        salt, chk = rest.split("$")
        out += [f"{pre}${x}${chk}" for x in ("", "a", salt + "!", salt + ".", salt + "\xe9", salt * 50, "$")]
        out += [f"{pre}${salt}${x}" for x in ("", chk[:-1], chk + "0", chk.upper(), chk[:-1] + "g", chk[:-1] + "\xe9", "0" * len(chk))]
        out += [f"{pre}${salt}", f"{pre}$", pre, f"{pre}${salt}${chk}$", f"{pre.upper()}${salt}${chk}"]
        return out
    sep = "." if name == "grub_pbkdf2_sha512" else "$"
    ident = {"grub_pbkdf2_sha512": "grub.pbkdf2.sha512."}.get(name) or (h.prefix if is_wrapper(h) else h.ident)
    if not s.startswith(ident):
        return out
    parts = s[len(ident):].split(sep)
    if len(parts) != 3:
        return out
    rounds, salt, chk = parts
    mk = lambda r, sa, c: ident + sep.join([r, sa] + ([] if c is None else [c]))
    out += [mk(x, salt, chk) for x in _INT_EDGE] + [mk(x, salt, None) for x in _INT_EDGE[:8]]
    if name == "grub_pbkdf2_sha512":
        fields = ["", "0", "00", "0g", "ab", "AB", "aB", "abc", "0x", " 00", "00 ", "\xe9\xe9", "00" * 1024, "00" * 1025, "+1"]
    elif name in ("sha1_crypt", "dlitz_pbkdf2_sha1", "django_pbkdf2_sha1", "django_pbkdf2_sha256"):
        fields = ["", "a", "ab", "a" * 64, "a" * 65, "a" * 1024, "a" * 1025, "a!", "a.", "a/", "a=", "a+", "a b", "\xe9", "a\x00"]
    else:
        enc = (lambda b: base64.b64encode(b, b"-_").decode()) if name == "cta_pbkdf2_sha1" else (lambda b: base64.b64encode(b, b"./").decode().rstrip("="))
        fields = _B64_EDGE + [enc(os.urandom(n)) for n in (1, 2, 3, 19, 20, 21, 31, 32, 33, 63, 64, 65, 1023, 1024, 1025, 1026)]
        fields += [salt + "=", salt + "==", salt + "===", salt[:-1], salt + "A", salt[:3] + "=" + salt[3:], salt[:2] + "==" + salt[2:], salt[:5] + "!" + salt[5:]]
    out += [mk(rounds, x, chk) for x in fields] + [mk(rounds, x, None) for x in fields[:6]]
    cf = fields + [chk + "=", chk + "==", chk[:-1], chk[:-2], chk + "A", chk + "AA", chk[:3] + "=" + chk[3:], chk[:5] + "!" + chk[5:], chk.swapcase()]
    out += [mk(rounds, salt, x) for x in cf]
    out += [ident, ident + sep, ident + sep + sep, ident + rounds, mk(rounds, salt, chk) + sep, mk(rounds, salt, chk) + sep + "x",
            ident.upper() + s[len(ident):], ident[:-1] + s[len(ident):]]
    return out


def static_variants(name, s, rng):
    """well-formed forms of the Static family beyond what the hasher itself emits: the other letter case, a final
    newline (accepted by `$` of the regex based parsers), non-canonical base64 tails, unusual salts"""
    import base64

    out = [s.upper(), s.lower(), s.swapcase(), s + "\n"]
    if name.startswith("ldap_salted_"):
        ident, body = s[:s.index("}") + 1], s[s.index("}") + 1:]
        raw = base64.b64decode(body)
        h = handler(name)
        cs = h.checksum_size
        for n in (4, 5, 6, 15, 16, rng.randrange(4, 17)):
            salt = bytes(rng.randrange(256) for _ in range(n))
            out.append(ident + base64.b64encode(raw[:cs] + salt).decode())
        stripped = body.rstrip("=")
        out += [ident + stripped + "==", ident + stripped + "=", ident + stripped]
        # non-zero unused bits in the last character of a tail
        if len(stripped) % 4 in (2, 3):
            alpha = "ABCDEFGHIJKLMNOPQRSTUVWXYZabcdefghijklmnopqrstuvwxyz0123456789+/"
            k = alpha.index(stripped[-1])
            out.append(ident + stripped[:-1] + alpha[k | 1] + body[len(stripped):])
    if name == "cisco_type7":
        out += ["00", "52", "53", "07" + s[2:], " 7" + s[2:], "+7" + s[2:], "-1" + s[2:], "1_" + s[2:], "٣٣" + s[2:], "7" , "0" + s[2:].lower(), s[:2]]
    if name in ("ldap_md5", "ldap_sha1"):
        out += [s[:5], s[:5] + "=", s[:5] + "AAAA", s[:5] + s[5:] * 2]
    if name == "django_disabled":
        out += ["!", "!" + "é" * 3, "!!"]
    if name == "unix_disabled":
        out += ["", "*", "!", "!abc", "*$1$abc$def", "x", " !", "!\n", "é"]
    if name in ("plaintext", "ldap_plaintext", "roundup_plaintext"):
        pre = "{plaintext}" if name == "roundup_plaintext" else ""
        out += [pre + x for x in ("", "pw", "{x}", "{x}y", "{xy", "{}", "{}y", "{é٣_}z", "{x}y\n", "{x}y\nz", "{x}\n\n", "{x y}z", "{x}{y}", " {x}y", "{X1_}", "{x\n}", "\n", "{-}")]
    return out


def extra_mutants(name, s, rng, n=12):
    """mutants aimed at the case normalisation of the Static family: single letters flipped, code points whose
    str.upper()/str.lower() is ASCII (ﬀ→FF, ſ→S, K→k, ı→I, İ→i̇), final sigma"""
    if name not in STATIC:
        return []
    out = set()
    special = ["\ufb00", "\u017f", "\u212a", "\u0131", "\u0130", "\u03a3", "\u00df", "\ufb01", "a\u03a3", "\u1e9e"]
    for _ in range(n):
        if not s:
            break
        i = rng.randrange(len(s))
        k = rng.randrange(5)
        if k == 0:
            out.add(s[:i] + s[i].swapcase() + s[i + 1:])
        elif k == 1:
            out.add(s[:i] + rng.choice(special) + s[i + 1:])
        elif k == 2:
            out.add(s[:i] + rng.choice(special) + s[i + 2:])      # two characters replaced by one (ﬀ upper-cases to two)
        elif k == 3:
            out.add(s[:i] + rng.choice("gGzZ") + s[i + 1:])
        else:
            out.add(s[:i] + rng.choice(special) + s[i:])
    out |= {s.swapcase(), s + "\n\n", "\n" + s, s[:-1] + "\n" if s else "\n", s.title()}
    return sorted(out)


def des_bcrypt_variants(name, s, rng):
    """well-formed (or accepted) relatives of a DesBcrypt-family hash: padding bits set in the last salt / checksum
    character of bcrypt strings, v1 and v2 bcrypt_sha256, non-ASCII digits, the trailing newline `$` lets through,
    bare-salt sun_md5 strings, config forms"""
    out = []
    hd = handler(name)
    bc = "./ABCDEFGHIJKLMNOPQRSTUVWXYZabcdefghijklmnopqrstuvwxyz0123456789"
    if name in ("bcrypt", "django_bcrypt", "django_bcrypt_sha256", "bcrypt_sha256"):
        # salt = the 22 characters before the 31 character checksum (and its "$" for bcrypt_sha256)
        cut = len(s) - 31 - (1 if name == "bcrypt_sha256" else 0)
        for _ in range(3):
            out.append(s[:cut - 1] + rng.choice(bc) + s[cut:])         # any last salt character
            out.append(s[:-1] + rng.choice(bc))                         # any last checksum character
            out.append(s[:cut - 1] + rng.choice(bc) + s[cut:-1] + rng.choice(bc))
        out.append(s[:cut])                                              # config string
        out.append(s[:cut - 1] + rng.choice(bc))
        for ident in ("$2$", "$2a$", "$2x$", "$2y$", "$2b$"):
            if name != "bcrypt_sha256" and "$2b$" in s:
                out.append(s.replace("$2b$", ident, 1))
    if name == "bcrypt_sha256":
        for kw in ({"version": 1, "ident": "2a"}, {"version": 1, "ident": "2b"}, {"version": 2}):
            try:
                x = hd.using(rounds=rng.choice([4, 5]), **kw).hash("pw")
            except Exception:  # noqa: BLE001
                continue
            out += [x, x.rsplit("$", 1)[0], x + "\n", x.rsplit("$", 1)[0] + "\n"]
            x10 = x.replace("r=4", "r=10").replace("r=5", "r=10").replace(",4$", ",10$").replace(",5$", ",10$")   # two-digit cost, parse/render only
            out.append(x10)
            out.append(x.replace("r=", "r=0", 1).replace(",4$", ",04$").replace(",5$", ",05$"))
            for a, b in (("v=2", "v=02"), ("v=2", "v=\u0662"), ("v=2", "v=3"), ("v=2", "v=1"), ("v=2", "v=0"), ("t=2b", "t=2a"),
                         ("r=4", "r=\u0664"), ("r=10", "r=\u0661\u0660"), ("r=10", "r=1\u0660"), (",4$", ",\u0664$"), ("r=5", "r=31"), ("r=5", "r=32"),
                         ("r=5", "r=3"), ("r=5", "r=005"), (",10$", ",\u0967\u0966$")):
                for src in (x, x10):
                    if a in src:
                        out.append(src.replace(a, b, 1))
    if name == "sun_md5_crypt":
        if "$$" in s:
            out.append(s.replace("$$", "$", 1))                          # bare-salt form of the same fields
            out.append(s.replace("$$", "$", 1).rsplit("$", 1)[0])        # its config form
        out.append(s.rsplit("$", 2)[0])
        for r in ("0", "1", "01", "4294963199", "4294963200", "-1", "\u0663"):
            if s.startswith("$md5$"):
                out.append("$md5,rounds=" + r + s[4:])
    if name in ("des_crypt", "bsdi_crypt", "bigcrypt", "crypt16"):
        out.append(s + "\n")
        n = {"des_crypt": 2, "bsdi_crypt": 9, "bigcrypt": 2, "crypt16": 2}[name]
        out += [s[:n], s[:n] + "\n", s[:n + 11], s[:n + 22], s + s[n:n + 11]]
        for ch in ("\u0130", "\u0131", "\u017f", "\u212a", "\u00df"):
            i = rng.randrange(len(s))
            out.append(s[:i] + ch + s[i + 1:])
    if name == "bsdi_crypt":
        out += ["_...." + s[5:], "_/..." + s[5:], "_zzzz" + s[5:]]
    if name == "django_des_crypt":
        salt, chk = s[len("crypt$"):].split("$")
        out += ["crypt$$" + chk, "crypt$" + salt + "xyz$" + chk, "crypt$" + salt[:1] + "$" + chk, "crypt$$", "crypt$$" + chk[:2]]
    if name == "phpass":
        out += [s[:12], s[:13], s + "abc", s[:4] + s[5:], s[:3], s[:4]]
    return out


def parse_only(name, s):
    """accepted strings whose to_string() raises in the real code (so only from_string is compared)"""
    if name == "django_des_crypt":
        # config string: to_string() does `salt[:2] + None` -> TypeError
        return [s.rsplit("$", 1)[0]]
    return []


def mutants(s, rng, n=40):
    """one-edit neighbours + structural corruptions of a valid hash"""
    out = set()
    alphabet = "$./0aZ9=_,*!{} \x00é٣:+-"
    for _ in range(n):
        k = rng.randrange(6)
        i = rng.randrange(len(s) + 1)
        if k == 0 and s:
            i = min(i, len(s) - 1)
            out.add(s[:i] + rng.choice(alphabet) + s[i + 1:])
        elif k == 1 and s:
            i = min(i, len(s) - 1)
            out.add(s[:i] + s[i + 1:])
        elif k == 2:
            out.add(s[:i] + rng.choice(alphabet) + s[i:])
        elif k == 3:
            out.add(s[:i])
        elif k == 4:
            parts = s.split("$")
            if len(parts) > 2:
                j = rng.randrange(1, len(parts))
                parts.insert(j, parts[j]) if rng.random() < 0.5 else parts.pop(j)
                out.add("$".join(parts))
        else:
            # numbers: zero-padded / oversized / signed / spaced
            import re
            m = list(re.finditer(r"\d+", s))
            if m:
                mm = rng.choice(m)
                rep = rng.choice(["0" + mm.group(0), mm.group(0) + "0" * 12, "+" + mm.group(0), " " + mm.group(0), mm.group(0) + "_0", "", "-1", "٣"])
                out.add(s[:mm.start()] + rep + s[mm.end():])
    out |= {"", "$", s + "$", "$" + s, s + s, s.upper(), s.lower(), " " + s, s + "\n"}
    return sorted(out)
