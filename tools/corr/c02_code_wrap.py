"""C02, group `Wrap` — the compiled models of the hashers that are built from another hasher or add a pre-hash
(lean/PasslibVerif/Model/Code/Wrap.lean, driver suite `cwrap`) against the REAL code of the passlib source tree at $PASSLIB_REPO:
repeat_string, _BcryptCommon._norm_digest_args (every combination of the backend flags), _BuiltinBackend._calc_checksum (bcrypt on
the builtin backend), bcrypt_sha256._calc_checksum (v1, v2), django_bcrypt_sha256._calc_checksum, PrefixWrapper (_wrap_hash /
_unwrap_hash on the declared wrappers and on wrappers with an orig_prefix; hash = _wrap_hash of the inner hash on deterministic inner
hashers).

The private functions are called directly on instances made with object.__new__ (no constructor validation).
bcrypt digests are computed at cost 4 only (the model really runs Eks-Blowfish), at most ~40 per quick run.

    cd /tmp/wp/wrap/verif && PASSLIB_REPO=/tmp/repo_clean /venv/bin/python -m tools.corr.c02_code_wrap [--thorough] [--seed N] [--only a,b]
"""
from __future__ import annotations

import os
import sys
import warnings

if __name__ == "__main__":
    _here = os.path.dirname(os.path.abspath(__file__))
    sys.path.insert(0, os.path.dirname(_here))
sys.path.insert(0, os.environ.get("PASSLIB_REPO", "/repo"))
os.environ["PASSLIB_BUILTIN_BCRYPT"] = "enabled"

from .common import Suite, errname, hx  # noqa: E402

LEAN_TARGETS = ["PasslibVerif.Props.C02CodeWrap", "PasslibVerif.Props.C02CodeWrapLaws"]

BC64 = "./ABCDEFGHIJKLMNOPQRSTUVWXYZabcdefghijklmnopqrstuvwxyz0123456789"
LENGTHS = list(range(0, 41)) + [63, 64, 65, 71, 72, 73, 127, 128, 254, 255, 256]
GROUPS = ["repeat", "norm", "bcrypt", "bsha", "dbsha", "prefix"]


def cps(s) -> str:
    return ",".join(str(ord(c)) for c in s) if s else "-"


def sec_arg(secret) -> str:
    return ("t:" + cps(secret)) if isinstance(secret, str) else ("b:" + hx(secret))


def ans(thunk, conv=None) -> str:
    try:
        r = thunk()
        if conv is not None:
            return "ok " + conv(r)
        if isinstance(r, str):
            r = r.encode("ascii")
        return "ok " + hx(bytes(r))
    except Exception as e:  # noqa: BLE001
        if type(e).__name__ == "PasswordValueError" and "NULL" in str(e):  # what `uh.exc.NullPasswordError(self)` builds
            return "err NullPasswordError"
        return "err " + errname(e)


def gen_secrets(rng, thorough, nul=True):
    out = []
    for n in LENGTHS:
        for _ in range(3 if thorough else 1):
            out.append(bytes(rng.randrange(1, 256) for _ in range(n)))
        out.append(bytes(rng.choice(b"abcXYZ019 \t./") for _ in range(n)))
    out.append(bytes(range(1, 256)))
    for v in range(0 if nul else 1, 256):
        out.append(b"p" + bytes([v]) + b"w")
    if nul:
        out += [b"\x00", b"a\x00", b"\x00a", b"ab\x00cd", b"x" * 300 + b"\x00"]
    out += [b"a" * 4096, b"a" * 4097, b"\xff" * 5000]
    alph = "abcXYZ019 \t" + "é€ßİı" + "ࠀ￿" + "𝄞\U0010ffff"
    for n in LENGTHS:
        out.append("".join(rng.choice(alph) for _ in range(n)))
    out += ["", "password", "pässwörd", "ÿ", "Ā", "a\x00b", "é" * 2048, "é" * 2049, "a" * 4096, "€" * 1366, "a" * 4097]
    out += ["\ud800", "ab\udfffcd"]  # lone surrogates: UnicodeEncodeError
    return out


def new(cls, **attrs):
    o = object.__new__(cls)
    for k, v in attrs.items():
        setattr(o, k, v)
    return o


IDENTS = ["$2$", "$2a$", "$2b$", "$2y$", "$2x$", "$2c$", "", "2a", "$2a", "$"]


def flag_arg(fl) -> str:
    return "".join(str(int(b)) for b in fl[:4]) + ":" + cps(fl[4])


def with_flags(cls, fl, **extra):
    d = dict(_has_2a_wraparound_bug=fl[0], _lacks_20_support=fl[1], _lacks_2y_support=fl[2], _lacks_2b_support=fl[3],
             _fallback_ident=fl[4])
    d.update(extra)
    return type("flagged_" + cls.__name__, (cls,), d)


def loaded_flags(cls):
    return (cls._has_2a_wraparound_bug, cls._lacks_20_support, cls._lacks_2y_support, cls._lacks_2b_support, cls._fallback_ident)


def model_suite(ctx, s_m, only=None):
    warnings.simplefilter("ignore")
    rng = ctx.rng
    th = ctx.thorough
    from passlib import hash as H
    from passlib.utils import repeat_string

    want = set(only or GROUPS)
    for c in (H.bcrypt, H.bcrypt_sha256, H.django_bcrypt_sha256):
        c.set_backend("builtin")
        assert c.get_backend() == "builtin"
        assert not c._require_valid_utf8_bytes
    BUILTIN = loaded_flags(H.bcrypt)
    assert BUILTIN == (False, False, False, False, "$2b$"), BUILTIN          # = Model.Code.Wrap.builtinFlags
    assert loaded_flags(H.bcrypt_sha256) == BUILTIN and loaded_flags(H.django_bcrypt_sha256) == BUILTIN
    assert H.bcrypt.truncate_size == 72 and H.bcrypt_sha256.truncate_size is None

    def rsalt(n=22):
        return "".join(rng.choice(BC64) for _ in range(n - 1)) + rng.choice(".Oeu") if n else ""

    # ---- repeat_string ----------------------------------------------------------------------------------------------------
    if "repeat" in want:
        for n in list(range(1, 30)) + [35, 36, 37, 71, 72, 73, 100, 144, 145]:
            src = bytes(rng.randrange(256) for _ in range(n))
            for size in (1, 2, 8, 71, 72, 73):
                s_m.add_raw(f"cwrap repeat {hx(src)} {size}", ans(lambda: repeat_string(src, size)), "repeat")

    # ---- _norm_digest_args ------------------------------------------------------------------------------------------------
    if "norm" in want:
        allflags = [(a, b, c, d, fb) for a in (False, True) for b in (False, True) for c in (False, True) for d in (False, True)
                    for fb in ("$2a$", "$2b$")]
        for sec in gen_secrets(rng, th):
            for _ in range(4 if th else 2):
                fl = rng.choice(allflags) if rng.random() < 0.8 else BUILTIN
                clsname = rng.choice(["w", "b0", "b1"])
                base = H.bcrypt_sha256 if clsname == "w" else H.bcrypt
                cls = with_flags(base, fl, **({} if clsname == "w" else {"truncate_error": clsname == "b1"}))
                ident = rng.choice(IDENTS[:4]) if rng.random() < 0.8 else rng.choice(IDENTS)
                newf = rng.random() < 0.5
                s_m.add_raw(f"cwrap norm {flag_arg(fl)} {clsname} {sec_arg(sec)} {cps(ident)} {int(newf)}",
                            ans(lambda: cls._norm_digest_args(sec, ident, new=newf), lambda r: hx(r[0]) + ":" + hx(r[1].encode())), "norm")

    # ---- digests (cost 4) -------------------------------------------------------------------------------------------------
    short = [b"", b"a", b"p\xe4ss\xffw\xf6rd", "pässwörd", b"x" * 55, b"y" * 72, b"y" * 72 + b"tail", bytes(range(1, 256)), "€" * 30]

    def bcrypt_cases(kind, klass, mk, ok_budget):
        # error paths: cheap, many
        extra = [0]
        for sec in [b"a\x00b", "a\x00", b"a" * 4097, "é" * 2049, "\ud800", b"z" * 73, b"ok"]:
            for ident in IDENTS:
                for salt, rounds in [(rsalt(), 4), (rsalt(), 3), (rsalt(), 32), (rsalt(21), 4), (rsalt(20), 4), (rsalt(0), 4),
                                     ("!" + rsalt(21), 4), (rsalt(21) + "\xe9", 4), (rsalt(21) + "A", 4), (rsalt(21) + "$", 4)]:
                    if (ident in IDENTS[:4] and rounds == 4 and len(salt) >= 22 and len(salt) % 4 != 1 and all(c in BC64 for c in salt)
                            and (sec in (b"ok", b"z" * 73) or (kind != "bcrypt" and sec != "\ud800"))):
                        # would compute a digest: budgeted (the pre-hashing classes admit NUL and any size here)
                        extra[0] += 1
                        if sec in (b"ok", b"z" * 73) or extra[0] % 9 != 1 or extra[0] > 40:
                            continue
                    ud = rng.random() < 0.5
                    yield sec, ident, salt, rounds, ud
        n = 0
        for sec in short:
            for ident in (IDENTS[:4] if kind == "bcrypt" else ["$2a$", "$2b$"]):
                if n >= ok_budget:
                    return
                n += 1
                yield sec, ident, rsalt(rng.choice([22, 22, 22, 23, 24])), 4, rng.random() < 0.5

    if "bcrypt" in want:
        for te in (False, True):
            for fl in [BUILTIN] + ([(True, True, True, True, "$2a$"), (False, True, False, False, "$2b$")] if te else []):
                cls = with_flags(H.bcrypt, fl, truncate_error=te)
                for sec, ident, salt, rounds, ud in bcrypt_cases("bcrypt", cls, None, (16 if th else 7) if fl == BUILTIN else 4):
                    h = new(cls, ident=ident, salt=salt, rounds=rounds, use_defaults=ud)
                    s_m.add_raw(f"cwrap bcrypt {flag_arg(fl)} b{int(te)} {cps(ident)} {cps(salt)} {rounds} {int(ud)} {sec_arg(sec)}",
                                ans(lambda: h._calc_checksum(sec)), "bcrypt")
    if "bsha" in want:
        for version in (1, 2, 3):
            for sec, ident, salt, rounds, ud in bcrypt_cases("bsha", H.bcrypt_sha256, None, (12 if th else 5) if version < 3 else 1):
                h = new(H.bcrypt_sha256, version=version, ident=ident, salt=salt, rounds=rounds, use_defaults=ud)
                s_m.add_raw(f"cwrap bsha {flag_arg(BUILTIN)} {version} {cps(ident)} {cps(salt)} {rounds} {int(ud)} {sec_arg(sec)}",
                            ans(lambda: h._calc_checksum(sec)), f"bsha-v{version}")
        # salts whose last character has padding bits set: refused by v2 only
        for last in "A/9.Oeu":
            for version in (1, 2):
                salt = rsalt(21) + last
                h = new(H.bcrypt_sha256, version=version, ident="$2b$", salt=salt, rounds=3, use_defaults=False)
                s_m.add_raw(f"cwrap bsha {flag_arg(BUILTIN)} {version} {cps('$2b$')} {cps(salt)} 3 0 b:70", ans(lambda: h._calc_checksum(b"p")), "bsha-final")
    if "dbsha" in want:
        for sec, ident, salt, rounds, ud in bcrypt_cases("dbsha", H.django_bcrypt_sha256, None, 12 if th else 5):
            h = new(H.django_bcrypt_sha256, ident=ident, salt=salt, rounds=rounds, use_defaults=ud)
            s_m.add_raw(f"cwrap dbsha {flag_arg(BUILTIN)} {cps(ident)} {cps(salt)} {rounds} {int(ud)} {sec_arg(sec)}",
                        ans(lambda: h._calc_checksum(sec)), "dbsha")
    # ---- PrefixWrapper ----------------------------------------------------------------------------------------------------
    if "prefix" in want:
        from passlib.utils.handlers import PrefixWrapper

        def cpl(r):
            return cps(r)

        wrappers = [H.ldap_hex_md5, H.ldap_hex_sha1, H.ldap_md5_crypt, H.ldap_sha256_crypt, H.ldap_des_crypt, H.django_bcrypt,
                    H.roundup_plaintext,
                    PrefixWrapper("w1", "md5_crypt", prefix="{X}$9$", orig_prefix="$1$"),
                    PrefixWrapper("w2", "hex_md5", prefix="", orig_prefix=""),
                    PrefixWrapper("w3", "sha256_crypt", prefix="$5$", orig_prefix="$5$"),
                    PrefixWrapper("w4", "md5_crypt", prefix="é€", orig_prefix="$1")]
        bodies = ["", "5f4dcc3b5aa765d61d8327deb882cf99", "$1$salt$chk", "$1", "$", "$5$rounds=1000$x$y", "{MD5}abc", "{md5}abc", "{CRYPT}$1$a$b",
                  "{CRYPT}", "{CRYP", "bcrypt$$2a$04$" + "." * 53, "bcrypt", "{X}$9$s$c", "{X}$9", "é€$1$x", "é", "{plaintext}pw", "{plaintext}"]
        for w in wrappers:
            pre, orig = w.prefix, w.orig_prefix
            for body in bodies + [pre + b for b in bodies[:6]] + [orig + b for b in bodies[:6]] + [pre[:k] for k in range(len(pre) + 1)]:
                s_m.add_raw(f"cwrap wrap {cps(pre)} {cps(orig)} {cps(body)}", ans(lambda: w._wrap_hash(body), cpl), "wrap")
                s_m.add_raw(f"cwrap unwrap {cps(pre)} {cps(orig)} {cps(body)}", ans(lambda: w._unwrap_hash(body), cpl), "unwrap")
        # hash = _wrap_hash ∘ inner.hash on deterministic inner hashers: the wrapper's own output against the model's wrap of the inner's
        for w, inner in [(H.ldap_hex_md5, H.hex_md5), (H.ldap_hex_sha1, H.hex_sha1), (H.roundup_plaintext, H.plaintext)]:
            for sec in ["", "password", "pässwörd", b"p\xe4ss" if inner is not H.plaintext else b"pass", "a" * 40]:
                s_m.add_raw(f"cwrap wrap {cps(w.prefix)} {cps(w.orig_prefix)} {cps(inner.hash(sec))}", ans(lambda: w.hash(sec), cpl), "hash-law")
                x = w.hash(sec)
                assert w.verify(sec, x) is True and inner.verify(sec, w._unwrap_hash(x)) is True
                s_m.add_raw(f"cwrap unwrap {cps(w.prefix)} {cps(w.orig_prefix)} {cps(x)}", "ok " + cps(inner.hash(sec)), "verify-law")
    return s_m.result()


if __name__ == "__main__":
    import argparse
    import json
    import time

    sys.path.insert(0, os.path.dirname(os.path.dirname(os.path.abspath(__file__))))
    from runner import Ctx  # type: ignore

    ap = argparse.ArgumentParser()
    ap.add_argument("--thorough", action="store_true")
    ap.add_argument("--seed", type=int, default=1)
    ap.add_argument("--only", default="")
    a = ap.parse_args()
    import passlib

    assert os.path.realpath(passlib.__file__).startswith(os.path.realpath(os.environ.get("PASSLIB_REPO", "/repo"))), passlib.__file__
    cx = Ctx("C02codeWrap", "thorough" if a.thorough else "quick", a.seed)
    t0 = time.time()
    sm = Suite(cx, "c02-code-wrap-model")
    model_suite(cx, sm, [x for x in a.only.split(",") if x] or None)
    res = sm.result()
    print(json.dumps({"cases": res["cases"], "mismatches": len(res["mismatches"]), "unmodelled": res["unmodelled"],
                      "seconds": round(time.time() - t0, 1), "passlib": os.path.dirname(passlib.__file__)}))
    for m in res["mismatches"][:12]:
        print("MISMATCH", json.dumps(m)[:700])
    print(json.dumps(res["distribution"], indent=0)[:6000])
    sys.exit(1 if res["mismatches"] else 0)
