"""line-level schedule: thread A is preempted inside _init_constants right after BLOWFISH_P is published (BLOWFISH_S still None);
thread B then makes its first use of the pure-Python bcrypt core."""
import sys, threading
import passlib.crypto._blowfish.base as base
from passlib.crypto._blowfish import raw_bcrypt

a_paused, b_done = threading.Event(), threading.Event()
def tracer(frame, event, arg):
    if frame.f_code.co_name != "_init_constants":
        return None
    def local(frame, event, arg):
        if event == "line" and base.BLOWFISH_P is not None and base.BLOWFISH_S is None and not a_paused.is_set():
            a_paused.set(); b_done.wait(10)
        return local
    return local
out = {}
def call():
    # the first use of the lazily built tables is the engine's constructor (a whole bcrypt digest under a trace function would take
    # minutes: with tracing active in one thread CPython 3.12 instruments the code objects for every thread)
    from passlib.crypto._blowfish.unrolled import BlowfishEngine
    e = BlowfishEngine()
    return f"P={len(e.P)} S={len(e.S)}x{len(e.S[0])}"
def A():
    sys.settrace(tracer)
    try: out["A"] = call()
    except BaseException as e: out["A"] = "ERR " + repr(e)
    finally: sys.settrace(None)
def B():
    a_paused.wait(10)
    try: out["B"] = call()
    except BaseException as e: out["B"] = "ERR " + repr(e)
    b_done.set()
ta, tb = threading.Thread(target=A), threading.Thread(target=B)
ta.start(); tb.start(); ta.join(); tb.join()
digest = raw_bcrypt(b"pw", "2a", b"saltsaltsaltsaltsalt..", 4).decode()
print(out, digest)
sys.exit(0 if out["A"] == out["B"] == "P=18 S=4x256" and digest == "9n26dmZ9aZzL4xe9dXggkdn0XhIjpDe" else 1)
