"""C20 — libpass hashers and classic passlib hashers understand each other."""
from __future__ import annotations

import warnings

from .common import Oracle, Suite, errname, hx, merge
from .formats_common import cps

GEN_UNITS = ["ShaCrypt", "B64", "MiscTables", "PyUnicode", "LibpassAll"]
LEAN_TARGETS = ["PasslibVerif.Props.C20", "PasslibVerif.Props.C20Pbkdf", "PasslibVerif.Props.C20Bcrypt", "PasslibVerif.Props.C20PbkdfInterop", "PasslibVerif.Props.C20BcryptStr"]
ASSUMPTIONS = [
    "hashlib.pbkdf2_hmac and the bcrypt package are external code shared by both libraries; for them the model's digest is the RFC 8018 / bcrypt "
    "specification (Spec.Pbkdf, compared on every run) and interop is established at the string level plus differential runs",
    "salts are ASCII text (libpass draws them from [./0-9A-Za-z] / [A-Za-z0-9]); admissible passwords for the crypt formats contain no NUL (passlib refuses them)",
    "the libpass inspectors and the passlib parsers in the model are tied to the real ones under C07",
]
EXPLANATION = (
    "Theorems (Props.C20), sha256-crypt and sha512-crypt end to end: for every secret, every salt of 1..16 hash64 characters and every rounds value the libpass "
    "hasher verifies its own hashes, the passlib hasher verifies libpass-made hashes, and every libpass hasher verifies passlib-made hashes incl. the "
    "implicit-5000 form (each side's string parses under the other's parser — C07 round-trip theorems for both — and both checksum implementations equal the "
    "published algorithm — C02); update check False for own fresh hashes, True for another cost, True/False/False (needs_update/identify/verify) for "
    "unrecognised strings; a sha-crypt hasher recognises nothing outside its own two-character prefix. libpass context laws are proved under C04. "
    "pbkdf2-sha256 / pbkdf2-sha512 (Props.C20Pbkdf, C20PbkdfInterop): for every secret, every non-empty salt and every non-zero cost the libpass hasher verifies "
    "its own hash, another secret verifies iff it derives the same key, needs_update = (cost differs), records of the other digest are foreign; both libraries "
    "render THE SAME STRING (libpass hash model = passlib hash model of C01Pbkdf over RFC 8018 / FIPS 180-4), hence each verifies what the other made. "
    "bcrypt (Props.C20Bcrypt): BcryptHasher identifies / verifies exactly as the package's checkpw answers on strings of the package's layout, rejects the "
    "legacy $2$ / $2x$ identifiers and everything unrecognised, update check = (cost differs). "
    "Correspondence: the compiled libpass-hasher model vs the real SHA256Hasher/SHA512Hasher/PBKDF2 handlers (hash with given salt, verify, identify, "
    "needs_update on own, foreign, passlib-made and mutated strings); cross-verification matrix on the real code for all six shared formats."
)
ONLY_CORRESPONDENCE = ["bcrypt and bcrypt-sha256 digests (the bcrypt package computes both sides' digests: a parameter of the model; the hashers' decision logic is proved)"]

H64 = "./0123456789ABCDEFGHIJKLMNOPQRSTUVWXYZabcdefghijklmnopqrstuvwxyz"


def b(x: bool) -> str:
    return "ok " + ("True" if x else "False")


def rand_secret(rng):
    n = rng.choice([0, 1, 2, 7, 8, 15, 16, 17, 55, 56, 63, 64, 65, 72, 95, 96, 97, 128])
    kind = rng.random()
    if kind < 0.5:
        return bytes(rng.randrange(1, 128) for _ in range(n))
    if kind < 0.8:
        return "".join(rng.choice("aé€𝄞Z9 ") for _ in range(n)).encode()[: max(n, 0)] or b""
    return bytes(rng.randrange(1, 256) for _ in range(n))


def correspond(ctx):
    warnings.simplefilter("ignore")
    from libpass.hashers.pbkdf2 import PBKDF2SHA256Handler, PBKDF2SHA512Handler
    from libpass.hashers.sha_crypt import SHA256Hasher, SHA512Hasher
    from passlib.hash import pbkdf2_sha256, pbkdf2_sha512, sha256_crypt, sha512_crypt

    rng = ctx.rng
    s_lp = Suite(ctx, "libpass-hasher-model")
    s_cl = Suite(ctx, "passlib-hasher-model")
    o_x = Oracle(ctx, "cross-verification-real-code")
    n = 40 if not ctx.thorough else 600
    rounds_pool = [1000, 1001, 1041, 1042, 1043, 4999, 5000, 5001]
    for v, LP, CL in (("256", SHA256Hasher, sha256_crypt), ("512", SHA512Hasher, sha512_crypt)):
        for _ in range(n):
            R = rng.choice(rounds_pool)
            R2 = rng.choice(rounds_pool)
            secret = rand_secret(rng)
            salt = "".join(rng.choice(H64) for _ in range(rng.choice([1, 2, 8, 15, 16])))
            lp = LP(rounds=R)
            hs = lp.hash(secret, salt=salt)
            s_lp.add_raw(f"lp sha {v} {R} hash {hx(secret)} {cps(salt)}", "ok " + cps(hs), f"sha{v}:hash")
            # passlib-made string (implicit form when 5000)
            if b"\x00" not in secret:
                ph = CL.using(rounds=R2, salt=salt).hash(secret)
                s_cl.add_raw(f"lp passlib {v} hash {hx(secret)} {cps(salt)} {R2}", "ok " + cps(ph), f"sha{v}:passlib-hash")
            else:
                ph = None
            wrong = secret + b"x"
            cands = [hs] + ([ph] if ph else [])
            # foreign / mutated strings
            other = ("$6$" if v == "256" else "$5$") + hs[3:]
            cands += [other, hs[:-1], hs + "x", hs.replace("rounds=", "rounds=0", 1), hs.replace("$" + salt + "$", "$$", 1), hs + "\n", "", "$5$", hs.replace("rounds=", "Rounds=", 1),
                      pbkdf2_sha256.using(rounds=1, salt=b"ab").hash("x"), hs[:3] + hs[3:].replace("$", "$rounds=7$", 1)]
            for c in cands:
                for lpR in (R, R2):
                    h2 = LP(rounds=lpR)
                    for sec in (secret, wrong):
                        try:
                            ans = b(h2.verify(c, sec))
                        except Exception as e:  # noqa: BLE001
                            ans = "err " + errname(e)
                        s_lp.add_raw(f"lp sha {v} {lpR} verify {cps(c)} {hx(sec)}", ans, f"sha{v}:verify")
                    for op, fn in (("identify", h2.identify), ("needs", h2.needs_update)):
                        try:
                            ans = b(fn(c))
                        except Exception as e:  # noqa: BLE001
                            ans = "err " + errname(e)
                        s_lp.add_raw(f"lp sha {v} {lpR} {op} {cps(c)}", ans, f"sha{v}:{op}")
                # the classic hasher on the same strings
                if b"\x00" not in secret:
                    for sec in (secret, wrong):
                        try:
                            ans = b(CL.verify(sec, c))
                        except Exception as e:  # noqa: BLE001
                            ans = "err " + errname(e)
                        s_cl.add_raw(f"lp passlib {v} verify {cps(c)} {hx(sec)}", ans, f"sha{v}:passlib-verify")
    for v, LP, CL in (("256", PBKDF2SHA256Handler, pbkdf2_sha256), ("512", PBKDF2SHA512Handler, pbkdf2_sha512)):
        for _ in range(n // 2):
            R = rng.choice([1, 2, 3, 10, 29, 100])
            secret = rand_secret(rng)
            salt = bytes(rng.randrange(256) for _ in range(rng.choice([1, 2, 3, 8, 16, 22])))
            lp = LP(rounds=R)
            hs = lp.hash(secret, salt=salt)
            s_lp.add_raw(f"lp pbkdf {v} {R} hash {hx(secret)} {hx(salt)} {R}", "ok " + cps(hs), f"pbkdf{v}:hash")
            ph = CL.using(rounds=R, salt=salt).hash(secret)
            o_x.check(f"pbkdf{v}:same-string", ph == hs, {"op": "same-string", "format": "pbkdf2-sha" + v, "secret": secret.hex(), "salt": salt.hex(), "rounds": R}, ph, hs)
            for c in (hs, hs[:-1] + ("A" if hs[-1] != "A" else "B"), hs.replace("$" + str(R) + "$", "$0" + str(R) + "$", 1), hs + "=", "$pbkdf2-sha1$1$YWI$YWI", ""):
                for sec in (secret, secret + b"x"):
                    try:
                        ans = b(lp.verify(c, sec))
                    except Exception as e:  # noqa: BLE001
                        ans = "err " + errname(e)
                    s_lp.add_raw(f"lp pbkdf {v} {R} verify {cps(c)} {hx(sec)}", ans, f"pbkdf{v}:verify")
                for op, fn in (("identify", lp.identify), ("needs", lp.needs_update)):
                    try:
                        ans = b(fn(c))
                    except Exception as e:  # noqa: BLE001
                        ans = "err " + errname(e)
                    s_lp.add_raw(f"lp pbkdf {v} {R} {op} {cps(c)}", ans, f"pbkdf{v}:{op}")
    # bcrypt-sha256: the hasher's decisions over the PHC inspector (bcrypt itself is a parameter: the harness computes what checkpw answers
    # from an independent reading of the record and hands it to the model)
    import base64
    import hashlib
    import hmac as std_hmac
    import re

    import bcrypt as wheel
    from libpass.hashers.bcrypt import BcryptSHA256Hasher

    for _ in range(n // 3):
        R = rng.choice([4, 5])
        lp = BcryptSHA256Hasher(rounds=R)
        secret = rand_secret(rng)[:60].replace(b"\x00", b"\x01")
        hs = lp.hash(secret)
        variants = [hs, hs.replace("v=2,", "v=0,"), hs.replace("v=2,", "v=1,"), hs.replace("v=2,", "v=3,"), hs.replace("v=2,", "v=02,"), hs.replace("v=2,", "v=22,"), hs.replace("t=2b", "t=2a"),
                    hs.replace(f"r={R}$", f"r={R + 1}$"), hs.replace(f"r={R}$", f"r=0{R}$"), hs[:-1] + ("A" if hs[-1] != "A" else "B"), hs.replace("v=2,t=2b", "t=2b,v=2"), hs + "$", hs[:-2],
                    hs.replace("$bcrypt-sha256$", "$bcrypt-sha512$"), "", "$2b$04$" + "a" * 53, hs.replace("v=2,", "")]
        for c in variants:
            for op, fn in (("identify", lp.identify), ("needs", lp.needs_update)):
                for RR in (R, R + 1):
                    try:
                        ans = b(getattr(BcryptSHA256Hasher(rounds=RR), "identify" if op == "identify" else "needs_update")(c))
                    except Exception as e:  # noqa: BLE001
                        ans = "err " + errname(e)
                    s_lp.add_raw(f"lp bcsha {RR} {op} {cps(c)}", ans, f"bcsha:{op}")
            for sec in (secret, secret + b"x"):
                # independent reading of the record: "$bcrypt-sha256$<k=v,...>$<salt>$<digest>", parameters in any order (a dict on the real side too)
                ck = 0
                parts = c.split("$")
                if len(parts) == 5 and parts[0] == "" and parts[1] == "bcrypt-sha256":
                    try:
                        kv = dict(x.split("=") for x in parts[2].split(","))
                        pre = base64.b64encode(std_hmac.new(parts[3].encode(), sec, hashlib.sha256).digest())
                        ck = int(wheel.checkpw(pre, f"${kv['t']}${int(kv['r']):02d}${parts[3]}{parts[4]}".encode()))
                    except Exception:  # noqa: BLE001
                        ck = 0
                try:
                    ans = b(lp.verify(c, sec))
                except Exception as e:  # noqa: BLE001
                    ans = "err " + errname(e)
                s_lp.add_raw(f"lp bcsha {R} verify {cps(c)} {ck}", ans, "bcsha:verify")
    # bcrypt: BcryptHasher's decisions over inspect_bcrypt_hash; bcrypt.checkpw is a parameter of the model — the harness asks the package
    # directly (without the hasher in between) and hands the answer to the model
    from libpass.hashers.bcrypt import BcryptHasher
    from passlib.hash import bcrypt as pl_bcrypt

    for _ in range(n // 3):
        R = rng.choice([4, 5])
        lp = BcryptHasher(rounds=R, prefix=rng.choice(["2b", "2a"]))
        secret = rand_secret(rng)[:70].replace(b"\x00", b"\x01")
        hs = lp.hash(secret)
        cost = hs[4:6]
        variants = [hs, hs.replace("$2b$", "$2y$").replace("$2a$", "$2y$"), "$2x$" + hs[4:], "$2$" + hs[4:], "$2c$" + hs[4:], hs.replace(f"${cost}$", f"${int(cost)}$"),
                    hs.replace(f"${cost}$", f"$0{cost}$"), hs.replace(f"${cost}$", "$99$"), hs.replace(f"${cost}$", "$03$"), hs.replace(f"${cost}$", "$\u0660\u0664$"),
                    hs.replace(f"${cost}$", "$$"), hs[:-1], hs + "x", hs + "\n", hs[:-1] + "\n", hs[:-1] + "\xe9", hs[:-1] + ("A" if hs[-1] != "A" else "B"), "", "$", "$2b$",
                    hs[1:], " " + hs, BcryptSHA256Hasher(rounds=4).hash("x"), "$5$abc$" + "a" * 43]
        for ident in ("2", "2a", "2b", "2y"):
            try:
                variants.append(pl_bcrypt.using(rounds=4, ident=ident).hash(secret))
            except Exception:  # noqa: BLE001
                pass
        for c in variants:
            for RR in (R, R + 1):
                h2 = BcryptHasher(rounds=RR)
                for op, fn in (("identify", h2.identify), ("needs", h2.needs_update)):
                    try:
                        ans = b(fn(c))
                    except Exception as e:  # noqa: BLE001
                        ans = "err " + errname(e)
                    s_lp.add_raw(f"lp bc {RR} {op} {cps(c)}", ans, f"bc:{op}")
            for sec in (secret, secret + b"x"):
                try:
                    ck = str(int(wheel.checkpw(sec, c.encode())))
                except ValueError:
                    ck = "E"
                try:
                    ans = b(lp.verify(c, sec))
                except Exception as e:  # noqa: BLE001
                    ans = "err " + errname(e)
                s_lp.add_raw(f"lp bc {R} verify {cps(c)} {ck}", ans, "bc:verify")
    cross_matrix(ctx, o_x)
    # the string assembly of the two libpass bcrypt hashers (hash / verify / identify / needs_update over the recorded calls into the
    # bcrypt package): Model.LibpassBcryptStr (suite `lpbs`)
    from . import c20_bcrypt_str

    s_bs = Suite(ctx, "libpass-bcrypt-string-model")
    c20_bcrypt_str.model_suite(ctx, s_bs)
    return merge(s_lp, s_cl, s_bs, o_x)


def cross_matrix(ctx, o_x, first_only=False):
    """the property on the real code, all six shared formats"""
    import os

    os.environ.setdefault("PASSLIB_BUILTIN_BCRYPT", "enabled")
    import bcrypt as bcrypt_pkg
    from libpass.context import CryptContext as LpContext
    from libpass.hashers.bcrypt import BcryptHasher, BcryptSHA256Hasher
    from libpass.hashers.pbkdf2 import PBKDF2SHA256Handler, PBKDF2SHA512Handler
    from libpass.hashers.sha_crypt import SHA256Hasher, SHA512Hasher
    from passlib.hash import bcrypt, bcrypt_sha256, pbkdf2_sha256, pbkdf2_sha512, sha256_crypt, sha512_crypt

    rng = ctx.rng
    fails = []

    def chk(tag, ok, inp, observed=None, expected=None):
        o_x.check(tag, ok, inp, observed, expected)
        if not ok:
            fails.append({"input": inp, "observed": observed, "expected": expected})

    pairs = [
        ("sha256-crypt", lambda r: SHA256Hasher(rounds=r), sha256_crypt, [1000, 1043, 5000], lambda: "".join(rng.choice(H64) for _ in range(rng.choice([1, 8, 16])))),
        ("sha512-crypt", lambda r: SHA512Hasher(rounds=r), sha512_crypt, [1000, 1043, 5000], lambda: "".join(rng.choice(H64) for _ in range(rng.choice([1, 8, 16])))),
        ("pbkdf2-sha256", lambda r: PBKDF2SHA256Handler(rounds=r), pbkdf2_sha256, [1, 2, 50], lambda: bytes(rng.randrange(256) for _ in range(rng.choice([1, 8, 16])))),
        ("pbkdf2-sha512", lambda r: PBKDF2SHA512Handler(rounds=r), pbkdf2_sha512, [1, 2, 50], lambda: bytes(rng.randrange(256) for _ in range(rng.choice([1, 8, 16])))),
        ("bcrypt", lambda r: BcryptHasher(rounds=r), bcrypt, [4, 5], lambda: None),
        ("bcrypt-sha256", lambda r: BcryptSHA256Hasher(rounds=r), bcrypt_sha256, [4, 5], lambda: None),
    ]
    lp_all = {}
    for name, mk, cl, rs, _ in pairs:
        try:
            lp_all[name] = mk(rs[0])
        except Exception as e:  # noqa: BLE001
            chk(name + ":boundary-cost", False, {"op": "boundary-cost", "format": name, "rounds": rs[0]}, errname(e) + ": " + str(e)[:80], "a hasher for every cost passlib accepts")
            if first_only:
                return fails
            lp_all[name] = mk(rs[0] + 1)
    # ---- the corners of the shared domain: every cost passlib accepts at the boundary, every bcrypt ident passlib writes, salts libpass draws itself
    for name, mk, cl, rs, _mksalt in pairs:
        lo, hi = cl.min_rounds, cl.max_rounds
        for r in (lo, lo + 1, hi):
            inp = {"op": "boundary-cost", "format": name, "rounds": r}
            try:
                lp = mk(r)
                obs = "constructed"
                if r <= lo + 1 and not name.startswith("bcrypt"):
                    hs = lp.hash(b"pw")
                    obs = (cl.verify(b"pw", hs), lp.verify(hs, b"pw"), lp.needs_update(hs))
                    chk(name + ":boundary-cost", obs == (True, True, False), inp, obs, (True, True, False))
                    continue
            except Exception as e:  # noqa: BLE001
                obs = errname(e) + ": " + str(e)[:80]
            chk(name + ":boundary-cost", obs == "constructed", inp, obs, "a hasher for every cost passlib accepts")
        for _ in range(6 if not ctx.thorough else 60):
            # no explicit salt: libpass draws it; the result must be a string passlib reads
            r = rs[0]
            lp = mk(r)
            secret = rand_secret(rng).replace(b"\x00", b"\x01")[:60]
            inp = {"op": "own-salt", "format": name, "secret": secret.hex(), "rounds": r}
            try:
                hs = lp.hash(secret)
                obs = (cl.identify(hs), cl.verify(secret, hs), lp.verify(hs, secret))
            except Exception as e:  # noqa: BLE001
                obs = errname(e) + ": " + str(e)[:80]
            chk(name + ":libpass-drawn-salt", obs == (True, True, True), dict(inp, hash=locals().get("hs")), obs, (True, True, True))
    for ident in ("2a", "2b", "2y"):
        for cname, cl, lpn in (("bcrypt", bcrypt, "bcrypt"),):
            secret = rand_secret(rng).replace(b"\x00", b"\x01")[:50]
            ph = cl.using(rounds=4, ident=ident).hash(secret)
            lp = lp_all[lpn]
            inp = {"op": "passlib-ident", "format": cname, "ident": ident, "secret": secret.hex(), "hash": ph}
            try:
                obs = (lp.identify(ph), lp.verify(ph, secret), lp.verify(ph, secret + b"x"), LpContext([lp]).verify(secret, ph))
            except Exception as e:  # noqa: BLE001
                obs = errname(e) + ": " + str(e)[:80]
            chk(cname + ":every-passlib-ident", obs == (True, True, False, True), inp, obs, (True, True, False, True))
    # ---- text passwords (as given, in any Unicode spelling: neither library may rewrite the text before encoding it) and passwords at the
    #      digests' block boundaries: both libraries render the same string and each verifies the other's
    texts = ["password", "p\u00e4ss", "cafe\u0301", "A\u030angstr\u00f6m \u212b", "\u1100\u1161\u11a8", "\u2126hm", "\ufb01n", "\U0001f600", "x" * 63, "x" * 64, "x" * 65, "y" * 127, "y" * 128, "y" * 129,
             "\u00e9" * 32, "\u00e9" * 64]
    for name, mk, cl, rs, mksalt in pairs:
        r = rs[0]
        lp = mk(r)
        for text in texts:
            if name.startswith("bcrypt") and len(text.encode()) > 72:
                continue
            salt = mksalt()
            inp = {"op": "text-secret", "format": name, "secret": text, "rounds": r, "salt": (salt.hex() if isinstance(salt, bytes) else salt)}
            try:
                if name.startswith("bcrypt"):
                    hs = lp.hash(text, salt=bcrypt_pkg.gensalt(rounds=r))
                    ph = cl.using(rounds=r).hash(text)
                    same = True
                else:
                    hs = lp.hash(text, salt=salt)
                    ph = cl.using(rounds=r, salt=salt).hash(text)
                    same = hs == ph
                raw = text.encode("utf-8")
                obs = (same, cl.verify(text, hs), cl.verify(raw, hs), lp.verify(ph, text), lp.verify(ph, raw), lp.verify(hs, raw), lp.verify(hs, text + "x"))
            except Exception as e:  # noqa: BLE001
                obs = errname(e) + ": " + str(e)[:100]
            chk(name + ":text-secret", obs == (True, True, True, True, True, True, False), inp, obs, "same string; each verifies the other's, text and UTF-8 bytes alike")
        if fails and first_only:
            return fails
    # ---- a bcrypt salt carries a cost of its own: whatever cost the hasher was built with, the string it returns must describe the digest
    #      it holds (verifies under both libraries)
    for name, mk, cl, rs, _mksalt in pairs:
        if not name.startswith("bcrypt"):
            continue
        for a, bb in ((4, 5), (5, 4), (4, 6)):
            secret = rand_secret(rng).replace(b"\x00", b"\x01")[:40]
            inp = {"op": "salt-of-other-cost", "format": name, "hasher_rounds": a, "salt_rounds": bb, "secret": secret.hex()}
            try:
                hs = mk(a).hash(secret, salt=bcrypt_pkg.gensalt(rounds=bb))
                obs = (mk(a).verify(hs, secret), mk(bb).verify(hs, secret), cl.verify(secret, hs), mk(a).verify(hs, secret + b"x"))
            except Exception as e:  # noqa: BLE001
                obs = errname(e) + ": " + str(e)[:100]
            chk(name + ":salt-of-other-cost", obs == (True, True, True, False), dict(inp, hash=locals().get("hs")), obs, (True, True, True, False))
        # the bcrypt package takes a whole bcrypt string where a salt is expected (it reads the first 29 characters): whatever the hasher
        # accepts as `salt=` must give a string that verifies
        secret = rand_secret(rng).replace(b"\x00", b"\x01")[:40]
        full = bcrypt_pkg.hashpw(b"another password", bcrypt_pkg.gensalt(rounds=4))
        inp = {"op": "hash-as-salt", "format": name, "salt": full.decode(), "secret": secret.hex()}
        try:
            hs = mk(4).hash(secret, salt=full)
            obs = (mk(4).verify(hs, secret), cl.verify(secret, hs), mk(4).verify(hs, secret + b"x"))
        except ValueError as e:
            obs = "refused: " + str(e)[:60]           # refusing the argument is fine; a string that does not verify is not
        except Exception as e:  # noqa: BLE001
            obs = errname(e) + ": " + str(e)[:100]
        chk(name + ":hash-as-salt", obs == (True, True, False) or (isinstance(obs, str) and obs.startswith("refused")), dict(inp, hash=locals().get("hs")), obs, (True, True, False))
    # ---- strings next to a hash (a stored line that was not stripped, a cut or extended field): libpass may accept one only if passlib does
    for name, mk, cl, rs, mksalt in pairs:
        r = rs[0]
        lp = mk(r)
        secret = b"pw-" + bytes([65 + rng.randrange(26)])
        try:
            hs = lp.hash(secret) if name.startswith("bcrypt") else lp.hash(secret, salt=mksalt())
        except Exception:  # noqa: BLE001
            continue
        muts = [hs + "\n", hs + "\r\n", hs + "\r", hs + " ", " " + hs, "\n" + hs, hs + "\x00", hs + "\t", hs + "\x0b", hs + "\x0c", hs + "\x1c", hs + "\x85", hs + "\u2028", hs + "a", hs + ".",
                hs + "$", hs[:-1], hs + "\n\n", hs.replace("$", "$\n", 1)]
        for m in muts:
            inp = {"op": "near-hash", "format": name, "string": m, "secret": secret.hex()}
            try:
                lv = lp.verify(m, secret)
            except Exception as e:  # noqa: BLE001
                lv = errname(e)
            try:
                pv = cl.verify(secret, m)
            except Exception as e:  # noqa: BLE001
                pv = errname(e)
            try:
                ln = lp.needs_update(m)
            except Exception as e:  # noqa: BLE001
                ln = errname(e)
            # accepted by libpass => accepted by passlib (what either library answers for a string neither accepts is not constrained here)
            ok = not (lv is True and pv is not True)
            chk(name + ":near-hash", ok, inp, {"libpass_verify": lv, "libpass_needs_update": ln, "passlib_verify": pv}, "libpass accepts only what passlib accepts")
        if fails and first_only:
            return fails
    for name, mk, cl, rs, mksalt in pairs:
        for _ in range(4 if not ctx.thorough else 40):
            r = rng.choice(rs)
            secret = rand_secret(rng).replace(b"\x00", b"\x01")
            if name.startswith("bcrypt"):
                secret = secret[:72]
            lp = mk(r)
            salt = mksalt()
            inp = {"op": "cross", "format": name, "secret": secret.hex(), "rounds": r, "salt": (salt.hex() if isinstance(salt, bytes) else salt)}
            try:
                if name.startswith("bcrypt"):
                    bsalt = bcrypt_pkg.gensalt(rounds=r)
                    hs = lp.hash(secret, salt=bsalt)
                    ph = cl.using(rounds=r).hash(secret)
                else:
                    hs = lp.hash(secret, salt=salt)
                    ph = cl.using(rounds=r, salt=salt).hash(secret)
                wrong = secret + b"!"
                if name.startswith("bcrypt") and len(wrong) > 72:
                    wrong = b"!" + secret[1:]
                chk(name + ":libpass-own", lp.verify(hs, secret) is True and lp.verify(hs, wrong) is False, inp, hs, "libpass verifies its own hash, rejects another password")
                chk(name + ":passlib-verifies-libpass", cl.verify(secret, hs) is True and cl.verify(wrong, hs) is False, inp, hs, "passlib verifies the libpass-made hash")
                chk(name + ":libpass-verifies-passlib", lp.verify(ph, secret) is True and lp.verify(ph, wrong) is False, inp, ph, "libpass verifies the passlib-made hash")
                chk(name + ":needs-update", lp.needs_update(hs) is False and mk(r + 1).needs_update(hs) is True, inp, hs, "False for own fresh hash, True for another cost")
                # … "another cost" in both directions: a stored cost ABOVE the configured one is another cost too
                lo_cost = r - 1 if r - 1 >= cl.min_rounds else None
                if lo_cost is not None:
                    chk(name + ":needs-update-stored-cost-above", mk(lo_cost).needs_update(hs) is True and mk(lo_cost).needs_update(ph) is True, dict(inp, configured=lo_cost), hs, "True: the stored cost differs from the configured one")
                for other, lph in lp_all.items():
                    chk(name + ":identify-exactly-own", lph.identify(hs) is (other == name) and lph.identify(ph) is (other == name), inp, {"hasher": other, "libpass": hs, "passlib": ph},
                        "a libpass hasher identifies exactly its own format")
                    if other != name:
                        chk(name + ":foreign-needs-update", lph.needs_update(hs) is True and lph.verify(hs, secret) is False, inp, {"hasher": other}, "needs_update True, verify False for a foreign format")
                # libpass context: hash with the first scheme, verify with any, update iff not the first scheme's format
                others = [h for k, h in lp_all.items() if k != name]
                c = LpContext([lp] + rng.sample(others, 2))
                # ... on every call of a history, not only the first one (contexts are long-lived objects)
                c2 = LpContext(rng.sample(others, 2) + [lp])
                hist = []
                for _k in range(rng.randrange(3, 8)):
                    opk = rng.choice(["needs-own", "needs-foreign", "verify", "hash", "needs-own"])
                    if opk == "needs-own":
                        hist.append((opk, c.needs_update(hs), False))
                    elif opk == "needs-foreign":
                        hist.append((opk, c2.needs_update(hs), True))
                    elif opk == "verify":
                        hist.append((opk, (c.verify(secret, hs), c2.verify(secret, hs), c.verify(wrong, hs)), (True, True, False)))
                    else:
                        fh = c.hash(secret)
                        hist.append((opk, (lp.identify(fh), c.needs_update(fh), c.verify(secret, fh)), (True, False, True)))
                chk(name + ":context-history", all(g == w for _o, g, w in hist), dict(inp, history=[o for o, _g, _w in hist]), [(o, g) for o, g, w in hist if g != w][:2],
                    "every call of the history answers like the first")
                chk(name + ":context", c.verify(secret, hs) is True and c.needs_update(hs) is False and LpContext(rng.sample(others, 2) + [lp]).needs_update(hs) is True
                    and LpContext(rng.sample(others, 2) + [lp]).verify(secret, hs) is True, inp, hs, "context: verify with any scheme, update iff not the first scheme's format")
            except Exception as e:  # noqa: BLE001
                chk(name + ":no-exception", False, inp, errname(e) + ": " + str(e)[:120], "no exception")
            if fails and first_only:
                return fails
    return fails


def search(ctx, broken, seeds):
    warnings.simplefilter("ignore")
    o = Oracle(ctx, "search")
    fails = cross_matrix(ctx, o, first_only=True)
    return fails[0] if fails else None


def replay(ctx, inp):
    warnings.simplefilter("ignore")
    op = inp.get("op")
    if op == "libpass-identify":
        from libpass.hashers.bcrypt import BcryptSHA256Hasher

        try:
            r = BcryptSHA256Hasher().identify(inp["hash"])
            return {"fails": r is not False, "observed": r}
        except Exception as e:  # noqa: BLE001
            return {"fails": True, "observed": errname(e)}
    if op == "hash-as-salt":
        import bcrypt as bcrypt_pkg
        from libpass.hashers.bcrypt import BcryptHasher, BcryptSHA256Hasher

        hh = (BcryptSHA256Hasher if inp["format"] == "bcrypt-sha256" else BcryptHasher)(rounds=4)
        secret = bytes.fromhex(inp["secret"])
        try:
            hs = hh.hash(secret, salt=inp["salt"].encode())
        except ValueError as e:
            return {"fails": False, "observed": "refused: " + str(e)[:80]}
        v = hh.verify(hs, secret)
        return {"fails": v is not True, "observed": {"hash": hs, "verify": v}}
    if op == "lp-sha512-prefix":
        from libpass.hashers.sha_crypt import SHA512Hasher

        hs = SHA512Hasher(rounds=1000).hash("pw", salt="abc")
        return {"fails": not (hs.startswith("$6$") and SHA512Hasher(rounds=1000).verify(hs, "pw")), "observed": hs}
    if op == "libpass-identify-newline":
        from libpass.hashers.bcrypt import BcryptHasher

        h = BcryptHasher(rounds=4).hash("pw")
        return {"fails": BcryptHasher().identify(h + "\n") is not False, "observed": BcryptHasher().identify(h + "\n")}
    r = search(ctx, [], [])
    return {"fails": r is not None, "observed": r}
