"""C17 — every shipped context recognises the hashes of each of its own schemes."""
from __future__ import annotations

import collections
import itertools
import json
import os
import warnings

from . import formats_common as fc
from .common import Oracle, Suite, errname, merge

GEN_UNITS = ["Contexts", "B64", "Handlers", "PyUnicode", "PyCase", "StaticFmt", "Disabled", "Registry", "ContextPolicy", "RegistryTables"]
LEAN_TARGETS = ["PasslibVerif.Props.C17", "PasslibVerif.Props.C17Registry"]
ASSUMPTIONS = [
    "the format models behind the shapes are the real hashers' from_string / to_string / identify: checked by ./check C07 and, for identify of all 76 registered names, again here",
    "a hash string emitted by a hasher is the rendering of well-formed settings (the family's WF predicate): checked here on every generated hash through the output-shape membership",
    "argon2 / django_argon2 (no backend in this sandbox), fshp, scram, scrypt have an identify model only; their own hashes are covered by the real-code oracle (fshp, scram, scrypt) or not at all (argon2)",
    "password-echoing schemes (plaintext, ldap_plaintext) are attributed to themselves exactly when no earlier scheme identifies the password text (theorem plain_attributed_iff); recorded as open findings",
]
EXPLANATION = (
    "Lean: a decidable shape abstraction (prefix, admissible lengths, class of every character, RFC-2307 negation) with a sound disjointness "
    "test; per registered name an identify-shape (identify h -> shape) and an output-shape (WF x -> shape(render x)); the kernel decides over the "
    "reflected scheme lists of ALL exported contexts that no earlier identify-shape meets a later output-shape; hence no earlier scheme claims "
    "a later scheme's hash and Model.Context.identify attributes it to its maker; htpasswd_context for every subset of crypt() schemes a host "
    "may support, with the pre-79f0ca1 order rejected; overlaps (master_context: hex_md4/hex_md5, cta/dlitz pbkdf2) proved with witnesses. "
    "Correspondence: identify of every registered hasher vs the model, shape soundness (identify => id-shape, emitted hash => out-shape) on "
    "generated hashes, variants, mutants and foreign hashes; first-claimer attribution of the model vs ctx.identify over all exported contexts; "
    "real-code oracle: ctx.identify / verify / verify_and_update of every scheme's hashes in every exported context; registry exhaustively."
)
ONLY_CORRESPONDENCE = ["argon2 (identify only; no backend)", "django_argon2 (identify only; no backend)", "fshp, scram, scrypt: identify model; own hashes through the real-code oracle"]

APPS = ["custom_app_context", "django10_context", "django14_context", "django16_context", "django110_context", "django21_context",
        "django31_context", "django_context", "ldap_context", "ldap_nocrypt_context", "mysql3_context", "mysql4_context", "mysql_context",
        "phpass_context", "phpbb3_context", "postgres_context", "roundup10_context", "roundup15_context", "roundup_context", "master_context"]
HOSTS = ["linux_context", "linux2_context", "freebsd_context", "openbsd_context", "netbsd_context", "host_context"]
PRESETS = ["passlib-default", "django-default", "django-1.0", "django-1.4", "django-1.6", "django-latest"]

#: (context label, claiming scheme, scheme that made the hash): overlaps proved in Props/C17 and recorded as open findings
KNOWN_OVERLAPS = {("passlib.apps.master_context", "hex_md4", "hex_md5"), ("passlib.apps.master_context", "cta_pbkdf2_sha1", "dlitz_pbkdf2_sha1")}
#: schemes that store the password itself
PLAIN = {"plaintext", "ldap_plaintext"}
PW = "pässword-17"


def contexts():
    """label -> loaded CryptContext, for every exported ready-made context"""
    warnings.simplefilter("ignore")
    from passlib import apache, apps, hosts
    from passlib.context import CryptContext
    from passlib.ext.django import utils as dj

    out = collections.OrderedDict()
    for a in APPS:
        out["passlib.apps." + a] = getattr(apps, a)
    for a in HOSTS:
        if hasattr(hosts, a):
            out["passlib.hosts." + a] = getattr(hosts, a)
    out["passlib.apache.htpasswd_context"] = apache.htpasswd_context
    for p in PRESETS:
        try:
            out["passlib.ext.django preset " + p] = CryptContext.from_string(dj.get_preset_config(p))
        except ValueError:
            pass
    return out


def can_hash(name):
    h = fc.handler(name)
    try:
        fc.cheap(h).hash("x", **fc.ctx_kwds(h))
        return True
    except Exception:  # noqa: BLE001  (MissingBackendError: argon2)
        return False


_HASH_CACHE: dict = {}


def hashes_of(name, rng, n):
    """(hash, password, context kwds) made by the REGISTRY hasher over idents / salt sizes / costs (cheap costs)"""
    key = (name, n)
    if key not in _HASH_CACHE:
        h = fc.handler(name)
        kw = fc.ctx_kwds(h)
        out = []
        if can_hash(name):
            for hs in fc.gen_hashes(name, rng, n):
                out.append((hs, "pw", kw))
            try:
                out.append((fc.cheap(h).hash(PW, **kw), PW, kw))
            except Exception:  # noqa: BLE001
                pass
        _HASH_CACHE[key] = out
    return _HASH_CACHE[key]


def ctx_hashes(ctx, label, name, rng, n):
    """hashes of scheme `name` as the CONTEXT's own handler emits them (configured ident etc.), cheapest cost"""
    h = ctx.handler(name)
    kw = fc.ctx_kwds(h)
    out = []
    for _ in range(n):
        try:
            hh = h
            if "rounds" in (h.setting_kwds or ()):
                r = max(h.min_rounds, 1)
                if name in ("bsdi_crypt", "ldap_bsdi_crypt"):
                    r |= 1
                if name == "sun_md5_crypt":
                    r = 0
                with warnings.catch_warnings():
                    warnings.simplefilter("ignore")
                    hh = h.using(rounds=r, min_rounds=r, max_rounds=None) if hasattr(h, "using") else h
            out.append((hh.hash(PW, **kw), PW, kw))
        except Exception:  # noqa: BLE001
            break
    return out


class Soundness:
    """implication checks against the compiled model: `impl => model` per line (an unsound shape is a mismatch);
    lines where the shape accepts a string the hasher rejects are counted as slack, not failures"""

    def __init__(self, ctx, name):
        self.ctx = ctx
        self.name = name
        self.lines: list[str] = []
        self.impl: list[bool] = []
        self.cases = 0
        self.slack = 0
        self.mismatches: list[dict] = []
        self.dist = collections.Counter()
        self.samples: list[dict] = []

    def add(self, line, impl: bool, tag):
        self.lines.append(line)
        self.impl.append(bool(impl))
        self.dist[tag + (":claimed" if impl else ":rejected")] += 1

    def flush(self):
        if not self.lines:
            return
        outs = self.ctx.model(self.lines)
        for ln, i, m in zip(self.lines, self.impl, outs):
            self.cases += 1
            if m not in ("ok 0", "ok 1"):
                self.mismatches.append({"input": ln, "impl": i, "model": m})
            elif i and m == "ok 0":
                if len(self.mismatches) < 25:
                    self.mismatches.append({"input": ln, "impl": "identify/emit = True", "model": "shape rejects"})
            elif (not i) and m == "ok 1":
                self.slack += 1
        k = len(self.lines) // 2
        self.samples.append({"line": self.lines[k][:200], "impl": str(self.impl[k]), "model": outs[k]})
        self.lines, self.impl = [], []

    def result(self):
        self.flush()
        d = dict(sorted(self.dist.items()))
        d["shape accepts, hasher rejects (slack)"] = self.slack
        return {"cases": self.cases, "mismatches": self.mismatches, "unmodelled": 0, "distribution": d}


def short_label(label):
    return label.rsplit(" ", 1)[-1] if " preset " in label else label.split(".")[-1]


def real_identify(ctx, h):
    from passlib import exc

    try:
        return ctx.identify(h) or "none"
    except exc.UnknownHashError:
        return "none"


def check_context_scheme(o, label, ctx, name, items, with_update):
    """real code alone: the hashes in `items` made by scheme `name` behave as the context's own"""
    from passlib import exc

    h = ctx.handler(name)
    disabled = bool(getattr(h, "is_disabled", False))
    cats = sorted({k.split("__")[0] for k in ctx.to_dict() if k.count("__") == 2 and k.split("__")[0] not in ("all",)}) + ["verif_no_such_category"]
    cats = [c for c in cats if c not in ctx.schemes()]
    for hs, pw, kw in items:
        inp = {"op": "ctx-identify", "context": label, "scheme": name, "hash": hs}
        try:
            got = ctx.identify(hs)
        except Exception as e:  # noqa: BLE001
            got = errname(e)
        if got != name and (label, got, name) in KNOWN_OVERLAPS:
            o.dist["known-overlap:" + got + "<" + name] += 1
            continue
        if name in PLAIN:
            # the stored string is the password: attributed to its maker exactly when no earlier scheme identifies it
            schemes = list(ctx.schemes())
            claimers = [t for t in schemes[:schemes.index(name)] if ctx.handler(t).identify(hs)]
            want = claimers[0] if claimers else name
            o.check(short_label(label) + ":identify-plain", got == want, inp, got, want)
            if got != name:
                o.dist["plain-echo claimed by " + got] += 1
                continue
        o.check(short_label(label) + ":identify", got == name, inp, got, name)
        if got != name:
            continue
        try:
            ok = ctx.verify(pw, hs, **kw)
            bad = ctx.verify("x" + pw, hs, **kw)
        except Exception as e:  # noqa: BLE001
            o.check(short_label(label) + ":verify", False, dict(inp, op="ctx-verify"), errname(e) + ": " + str(e)[:80], "True / False")
            continue
        if disabled:
            o.check(short_label(label) + ":verify-disabled", ok is False and bad is False, dict(inp, op="ctx-verify"), (ok, bad), "(False, False)")
        else:
            o.check(short_label(label) + ":verify", ok is True and bad is False, dict(inp, op="ctx-verify"), (ok, bad), "(True, False)")
        # the same for every user category the preset configures (and one it does not): a category changes costs and defaults, never
        # which of the context's schemes a hash belongs to
        for cat in cats:
            try:
                gc = ctx.identify(hs, category=cat)
                vc_ = ctx.verify(pw, hs, category=cat, **kw)
            except Exception as e:  # noqa: BLE001
                gc, vc_ = errname(e), None
            o.check(short_label(label) + ":identify-verify-in-category", gc == name and vc_ is (not disabled), dict(inp, op="ctx-category", category=cat), (gc, vc_), (name, not disabled))
    if with_update and items and not disabled:
        hs, pw, kw = items[-1]
        inp = {"op": "ctx-vau", "context": label, "scheme": name, "hash": hs}
        try:
            if ctx.identify(hs) != name:
                return
            ok, new = ctx.verify_and_update(pw, hs, **kw)
            good = ok is True and (new is None or isinstance(new, str))
            if good and new is not None:
                good = ctx.identify(new) == ctx.default_scheme() and ctx.verify(pw, new, **kw) is True
            o.check(short_label(label) + ":verify_and_update", good, inp, (ok, None if new is None else new[:40]), "(True, None | hash of the default scheme that verifies)")
            ok2, new2 = ctx.verify_and_update("x" + pw, hs, **kw)
            o.check(short_label(label) + ":verify_and_update-wrong", ok2 is False and new2 is None, inp, (ok2, new2), "(False, None)")
        except exc.MissingBackendError:
            pass                                      # the context's default scheme cannot hash here (django_argon2)
        except Exception as e:  # noqa: BLE001
            o.check(short_label(label) + ":verify_and_update", False, inp, errname(e) + ": " + str(e)[:80], "no error")


def preset_extra_cases():
    """(tag, input, ok, observed, expected): the exported contexts are the same whatever order the preset modules are imported in (fresh process per
    order); entries of the store-the-password schemes are recognised as text and as bytes in a legacy encoding, also when the password starts with a
    disabled-account marker"""
    import itertools
    import subprocess
    import sys

    here = os.path.dirname(os.path.abspath(__file__))
    results = {}
    for order in itertools.permutations(["hosts", "apache", "apps"]):
        p = subprocess.run([sys.executable, "-W", "ignore", os.path.join(here, "c17_import_order.py"), os.environ.get("PASSLIB_REPO", "/repo"), *order], capture_output=True, text=True, timeout=120)
        try:
            results[order] = json.loads(p.stdout)
        except Exception:  # noqa: BLE001
            results[order] = {"crash": p.stderr[-300:]}
    base_order = ("apache", "apps", "hosts")
    base = results[base_order]
    for order, r in results.items():
        diff = {k: (r.get(k), base.get(k)) for k in set(r) | set(base) if r.get(k) != base.get(k)}
        yield ("import-order", {"op": "import-order", "order": list(order)}, not diff, diff, f"the scheme lists of import order {list(base_order)}")
    from passlib.apache import htpasswd_context
    from passlib.apps import ldap_context, ldap_nocrypt_context

    for label, c, scheme in (("apps.ldap_context", ldap_context, "ldap_plaintext"), ("apps.ldap_nocrypt_context", ldap_nocrypt_context, "ldap_plaintext"),
                             ("apache.htpasswd_context", htpasswd_context, "plaintext")):
        for pw in ("pässwörd", "s3cret", "*secret*", "!bang", "*", "ÿ", "naïve café"):
            if scheme == "ldap_plaintext" and pw.startswith(("*", "!")) is False and pw == "":
                continue
            for enc in (None, "utf-8", "latin-1", "cp1252"):
                inp = {"op": "stored-password", "context": label, "password": pw, "as": enc or "text"}
                try:
                    stored = c.hash(pw, scheme=scheme, **({"encoding": enc} if enc else {}))
                    entry = stored if enc is None else stored.encode(enc)
                    kw = {"encoding": enc} if enc not in (None, "utf-8") else {}
                    obs = (c.identify(entry), c.verify(pw, entry, **kw), c.verify(pw + "x", entry, **kw))
                except Exception as e:  # noqa: BLE001
                    obs = errname(e) + ": " + str(e)[:80]
                yield ("stored-password-entry", inp, obs == (scheme, True, False), obs, (scheme, True, False))


def boundary_password_cases():
    """(tag, input, ok, observed, expected): the empty password, a blank and a non-ASCII one through every scheme of every exported context —
    the shortest strings a scheme can produce (a bare prefix for the wrappers of the store-the-password schemes) are still its own"""
    for label, c in contexts().items():
        for s in c.schemes():
            if not can_hash(s) or s in fc.EXPENSIVE or s in ("unix_disabled", "django_disabled"):
                continue
            h = c.handler(s)
            kw = fc.ctx_kwds(h)
            pws = ["", " ", "\u00e9"]
            if getattr(h, "prefix", None) and isinstance(h.prefix, str):
                # a wrapper whose body is free text (roundup_plaintext): a password that itself begins with the wrapper's tag
                pws += [h.prefix + "hunter2", h.prefix + h.prefix]
            for pw in pws:
                try:
                    hh = h.using(rounds=max(h.min_rounds, 1)) if "rounds" in (h.setting_kwds or ()) and s not in ("sun_md5_crypt", "bsdi_crypt", "ldap_bsdi_crypt") else h
                    hs = hh.hash(pw, **kw)
                except Exception:  # noqa: BLE001
                    continue        # not an admissible password for the scheme
                if s == "ldap_plaintext" and pw == "":
                    continue        # the empty password is not admissible for ldap_plaintext (its hash "" is a string the scheme itself rejects: C01's business)
                inp = {"op": "boundary-password", "context": label, "scheme": s, "password": pw, "hash": hs}
                try:
                    who = c.identify(hs)
                    if who != s and (label, who, s) in KNOWN_OVERLAPS:
                        continue        # recorded finding (an earlier scheme of the context claims the string)
                    obs = (who, c.verify(pw, hs, **kw), c.verify("x" + pw, hs, **kw))          # another password: differs in the FIRST byte (truncating formats)
                except Exception as e:  # noqa: BLE001
                    obs = errname(e) + ": " + str(e)[:80]
                yield ("boundary-password", inp, obs == (s, True, False), obs, (s, True, False))


def registry_oracle(o):
    warnings.simplefilter("ignore")
    import passlib.hash
    from passlib import registry

    names = registry.list_crypt_handlers()
    o.check("registry:list", names == sorted(set(names)) and len(names) > 0, {"op": "registry-list"}, len(names), "sorted, distinct")
    for n in names:
        inp = {"op": "registry", "name": n}
        try:
            h = registry.get_crypt_handler(n)
            o.check("registry:name", h.name == n, inp, h.name, n)
            o.check("registry:hash-attr", getattr(passlib.hash, n) is h, inp, "passlib.hash.%s is handler" % n, True)
            o.check("registry:idempotent", registry.get_crypt_handler(n) is h and registry.get_crypt_handler(n, None) is h, inp, None, "same object")
            o.check("registry:case", registry.get_crypt_handler(n.upper().replace("_", "-")) is h, inp, None, "name normalisation finds the same object")
            o.check("registry:listed-loaded", n in registry.list_crypt_handlers(loaded_only=True), inp, None, "listed as loaded")
        except Exception as e:  # noqa: BLE001
            o.check("registry:load", False, inp, errname(e) + ": " + str(e)[:80], "loads")
    # the look-ups above (other spellings included) must leave the registry as it was: same names, each still carrying its own name
    after = registry.list_crypt_handlers()
    o.check("registry:list-stable", after == names, {"op": "registry-list-after-lookups"}, sorted(set(after) ^ set(names))[:6], "the same names as before the look-ups")
    for n in after:
        try:
            h = registry.get_crypt_handler(n)
            o.check("registry:name-after-lookups", h.name == n and getattr(passlib.hash, n) is h, {"op": "registry", "name": n, "after": "alias look-ups"}, h.name, n)
        except Exception as e:  # noqa: BLE001
            o.check("registry:name-after-lookups", False, {"op": "registry", "name": n, "after": "alias look-ups"}, errname(e), n)
    try:
        from passlib.context import CryptContext

        c = CryptContext(schemes=[n for n in names if n in ("des_crypt", "md5_crypt", "sha256_crypt", "ldap_md5", "hex_md5", "plaintext")])
        o.check("registry:context-after-lookups", bool(c.schemes()), {"op": "registry-context-after-lookups"}, c.schemes(), "a context over registry names still builds")
    except Exception as e:  # noqa: BLE001
        o.check("registry:context-after-lookups", False, {"op": "registry-context-after-lookups"}, errname(e) + ": " + str(e)[:100], "a context over registry names still builds")
    for bad in ("nosuch_crypt", "md5_crypt2", "", "hash", "PLAINTEXT_"):
        inp = {"op": "registry-unknown", "name": bad}
        try:
            registry.get_crypt_handler(bad)
            o.check("registry:unknown", False, inp, "returned", "KeyError")
        except KeyError:
            o.check("registry:unknown", True, inp, "KeyError", "KeyError")
        except Exception as e:  # noqa: BLE001
            o.check("registry:unknown", False, inp, errname(e), "KeyError")
        o.check("registry:unknown-default", registry.get_crypt_handler(bad, None) is None, inp, None, "default returned")
    try:
        getattr(passlib.hash, "nosuch_crypt")
        o.check("registry:hash-attr-unknown", False, {"op": "registry-unknown-attr"}, "returned", "AttributeError")
    except AttributeError:
        o.check("registry:hash-attr-unknown", True, {"op": "registry-unknown-attr"}, "AttributeError", "AttributeError")


def correspond(ctx):
    warnings.simplefilter("ignore")
    from passlib import registry

    rng = ctx.rng
    thorough = ctx.thorough
    names = list(registry.list_crypt_handlers())
    s_id = Suite(ctx, "identify-models")
    s_sh = Soundness(ctx, "shape-soundness")
    s_out = Suite(ctx, "emitted-hash-in-output-shape")
    s_at = Suite(ctx, "first-claimer-attribution")
    o_ctx = Oracle(ctx, "contexts")
    o_reg = Oracle(ctx, "registry")

    n_gen = 6 if thorough else 2
    pool = {n: hashes_of(n, rng, 1 if (n in fc.EXPENSIVE and not thorough) else n_gen) for n in names}
    foreign = [hs for n in names for hs, _, _ in pool[n][:2]]
    extra = ["", "x", "$", "{", "!", "*", "_", "ab", "$1$abc", "{SSHA}abc", "{SSHA}a\nb", "{x}y", "{CRYPT}ab", "{plaintext}pw", "!disabled",
             "*", "abcdefghijklm", "abcdefghijklm\n", "_12345678", "0x0100", "md5$", "S:", "ſ:" + "0" * 60, "*" + "ﬀ" * 20,
             "ﬀ" * 8, "argon2$argon2i$x", "$argon2i$", "$argon2$", "$argon2id$v=19$m=8,t=1,p=1$c2FsdHNhbHQ$aGFzaA", "$7$", "{FSHP1|8|1}", "$scram$"]
    for n in names:
        own = [hs for hs, _, _ in pool[n]]
        strings = []
        h = fc.handler(n)
        for hs in own[: (4 if thorough else 2)]:
            vs = fc.variants(h, n, hs, rng) if n in fc.MODELLED else [hs]
            strings += vs
            strings += fc.mutants(hs, rng, 30 if thorough else 8)
            if n in fc.MODELLED:
                strings += fc.extra_mutants(n, hs, rng, 12 if thorough else 4)
        strings += foreign + extra
        seen = set()
        for m in strings:
            if m in seen or "\x00" in m:
                continue
            seen.add(m)
            try:
                real = bool(h.identify(m))
            except Exception:  # noqa: BLE001
                continue
            s_id.add_raw(f"shape identify {n} {fc.cps(m)}", "ok 1" if real else "ok 0", n)
            s_sh.add(f"shape id {n} {fc.cps(m)}", real, n)
        for hs in own:
            s_out.add_raw(f"shape out {n} - {fc.cps(hs)}", "ok 1", n)

    # every exported context
    for label, c in contexts().items():
        schemes = list(c.schemes())
        short = short_label(label)
        big = len(schemes) > 20
        strings = list(extra)
        for s in schemes:
            items = list(pool[s]) if not big or thorough else list(pool[s][:2])
            own_ctx = ctx_hashes(c, label, s, rng, 1) if can_hash(s) and not (s in fc.EXPENSIVE and big) else []
            check_context_scheme(o_ctx, label, c, s, items + own_ctx, with_update=not big or thorough)
            for hs, _, _ in own_ctx:
                ident = getattr(c.handler(s), "default_ident", None)
                reg_ident = getattr(fc.handler(s), "default_ident", None)
                s_out.add_raw(f"shape out {s} {fc.cps(ident) if isinstance(ident, str) and ident != reg_ident else '-'} {fc.cps(hs)}", "ok 1", short + ":" + s)
            strings += [hs for hs, _, _ in items + own_ctx]
            for hs, _, _ in items[:1]:
                strings += fc.mutants(hs, rng, 6 if not thorough else 25)
        if not big or thorough:
            strings += foreign
        seen = set()
        for m in strings:
            if m in seen or "\x00" in m or not m:
                continue
            seen.add(m)
            s_at.add_raw(f"shape ctx {','.join(schemes)} {fc.cps(m)}", "ok " + real_identify(c, m), short)
        # password-echoing schemes keep ordinary passwords
        for s in schemes:
            if s in PLAIN:
                hs = c.hash("ordinary pw", scheme=s)
                o_ctx.check(short + ":plain-ordinary", c.identify(hs) == s and c.verify("ordinary pw", hs) is True, {"op": "ctx-identify", "context": label, "scheme": s, "hash": hs}, c.identify(hs), s)
    registry_oracle(o_reg)
    for tag, inp, ok, obs, exp in itertools.chain(preset_extra_cases(), boundary_password_cases()):
        o_ctx.check(tag, ok, inp, obs, exp)
    # the registry itself as a state machine (register / lazy load / proxy) against the real passlib.registry: Model.Registry (suite `preg`)
    from . import c17_registry

    s_reg = Suite(ctx, "registry-model")
    c17_registry.model_suite(ctx, s_reg)
    return merge(s_id, s_sh, s_out, s_at, o_ctx, o_reg, s_reg)


def search(ctx, broken, seeds):
    """real code alone: a hash of a scheme of an exported context that the context does not attribute to it / verify"""
    warnings.simplefilter("ignore")
    from passlib import registry

    o_ctx = Oracle(ctx, "contexts")
    o_reg = Oracle(ctx, "registry")
    rng = ctx.rng
    for label, c in contexts().items():
        schemes = list(c.schemes())
        for s in schemes:
            items = hashes_of(s, rng, 1 if s in fc.EXPENSIVE else 2)
            own = ctx_hashes(c, label, s, rng, 1) if can_hash(s) and not (s in fc.EXPENSIVE and len(schemes) > 20) else []
            check_context_scheme(o_ctx, label, c, s, items + own, with_update=len(schemes) <= 20)
    registry_oracle(o_reg)
    for tag, inp, ok, obs, exp in itertools.chain(preset_extra_cases(), boundary_password_cases()):
        o_ctx.check(tag, ok, inp, obs, exp)
    for o in (o_ctx, o_reg):
        if o.mismatches:
            m = o.mismatches[0]
            return {"input": m["input"], "observed": m["impl"], "expected": m["model"]}
    return None


def replay(ctx, inp):
    warnings.simplefilter("ignore")
    op = inp.get("op")
    if op == "htpasswd-order":
        # fixed by 79f0ca1: plaintext must not sit in front of any real scheme, and an md5_crypt hash is md5_crypt's
        from passlib import apache
        from passlib.hash import md5_crypt

        c = apache.htpasswd_context
        schemes = list(c.schemes())
        hs = md5_crypt.hash("pw")
        bad = schemes[-1] != "plaintext" or c.identify(hs) != "md5_crypt" or c.verify("pw", hs) is not True or c.verify(hs, hs) is not False
        return {"fails": bad, "observed": {"schemes": schemes, "identify": c.identify(hs)}}
    if op in ("ctx-identify", "ctx-verify", "ctx-vau"):
        c = contexts().get(inp["context"])
        if c is None:
            return {"fails": False, "observed": "context not exported any more"}
        got = real_identify(c, inp["hash"])
        return {"fails": got != inp["scheme"], "observed": got}
    if op == "plain-echo":
        c = contexts().get(inp["context"])
        hs = c.hash(inp["password"], scheme=inp["scheme"])
        got = real_identify(c, hs)
        return {"fails": got != inp["scheme"], "observed": {"hash": hs, "identify": got}}
    if op and op.startswith("registry"):
        o = Oracle(ctx, "registry")
        registry_oracle(o)
        return {"fails": bool(o.mismatches), "observed": o.mismatches[:1]}
    r = search(ctx, [], [])
    return {"fails": r is not None, "observed": r}
