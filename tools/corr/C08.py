"""C08 — malformed or altered hash strings are rejected cleanly and never verify."""
from __future__ import annotations

import warnings

from . import formats_common as fc
from . import verify_common as vc
from .common import Oracle, Suite, errname, hx, merge
from .formats_common import cps

GEN_UNITS = ["Verify", "Handlers", "ShaCrypt", "B64", "PyUnicode", "FormatParsers", "LibpassAll", "ContextPolicy"]
LEAN_TARGETS = ["PasslibVerif.Props.C08", "PasslibVerif.Props.C08Crypt",
                # the C08 theorem set instantiated for the Pbkdf / DesBcrypt / Static families of hasher models (generated: tools/dev/gen_c08_families.py)
                "PasslibVerif.Props.C08Families", "PasslibVerif.Props.C08FamiliesPbkdf", "PasslibVerif.Props.C08FamiliesPbkdfExamples",
                "PasslibVerif.Props.C08FamiliesDesBcrypt", "PasslibVerif.Props.C08FamiliesDesBcryptExamples",
                "PasslibVerif.Props.C08FamiliesStatic", "PasslibVerif.Props.C08FamiliesStaticExamples",
                "PasslibVerif.Props.C08FamiliesWrap", "PasslibVerif.Props.C08FamiliesWrapExamples", "PasslibVerif.Props.C08FamiliesMisc",
                "PasslibVerif.Props.C08FamiliesMiscExamples", "PasslibVerif.Props.C08FamiliesBcryptSha256"]
ASSUMPTIONS = [
    "that a string whose settings (salt, cost, ident) were altered yields a different checksum is a property of the digest primitives, explored on the real code",
    "which strings parse to the same value (hex case, padding bits, …) is proved per format under C07 / C12; this check uses the real parsers to classify mutants",
]
EXPLANATION = (
    "Theorems (Props.C08) for ANY hasher in the generic hash/verify model: verify sees a stored string only through from_string (strings that parse alike are "
    "indistinguishable); altering the checksum field of a stored hash makes every secret that verified stop verifying; a configuration string (no checksum) and an "
    "unparsable string are refused with the parser's / a value error; the only errors verify raises are its own size / value / NUL checks, the parser's and the digest's. "
    "Correspondence: the compiled verify model of the four crypt hashers on mutation streams; for EVERY registered hasher, the libpass hashers and CryptContexts: "
    "single-character substitution / deletion / insertion at every position (quick: sampled), truncation at every position, field reordering, duplicated and missing "
    "separators, zero-padded / oversized numbers, non-ASCII and NUL characters, the empty string and foreign strings, as str and as bytes — identify answers without "
    "raising, verify and needs_update answer or raise ValueError/TypeError only, a mutant verifies the original password only if it parses to the same settings and digest."
)
ONLY_CORRESPONDENCE = ["error classes of the real parsers on arbitrary strings (mutation streams; the parsers' models are C07)"]


def separator_shifts(hs: str):
    """a field separator moved by 1..3 characters to either side (the same characters, split elsewhere: both neighbouring fields altered)"""
    out = set()
    n = len(hs)
    for sep in "$,":
        for i, c in enumerate(hs):
            if c != sep or i == 0:
                continue
            for k in (1, 2, 3):
                if i - k > 0 and sep not in hs[i - k:i]:
                    out.add(hs[:i - k] + sep + hs[i - k:i] + hs[i + 1:])
                if i + k < n and sep not in hs[i + 1:i + 1 + k]:
                    out.add(hs[:i] + hs[i + 1:i + 1 + k] + sep + hs[i + 1 + k:])
    out.discard(hs)
    return out


def structural_mutants(hs: str, rng, dense: bool):
    out = set(fc.mutants(hs, rng, 30 if not dense else 200))
    n = len(hs)
    positions = range(n) if dense or n <= 40 else sorted(rng.sample(range(n), 40))
    for i in positions:
        out.add(hs[:i] + hs[i + 1:])                                  # deletion
        out.add(hs[:i])                                               # truncation
        c = hs[i]
        rep = chr(ord(c) ^ 1) if c.isalnum() else "A"
        out.add(hs[:i] + rep + hs[i + 1:])                            # substitution by a neighbour
        out.add(hs[:i] + rng.choice("$./=,*!{}\x00é٣ \n") + hs[i + 1:])
        out.add(hs[:i] + rng.choice("$a0=\x00é") + hs[i:])            # insertion
    parts = hs.split("$")
    if len(parts) > 2:
        p2 = parts[:]
        rng.shuffle(p2)
        out.add("$".join(p2))
        out.add("$".join(parts[:-2] + [parts[-1], parts[-2]]))       # reordered fields
    out |= separator_shifts(hs)
    out |= {hs.swapcase(), hs.upper(), hs.lower(), hs + hs, "", " ", "\x00", "x", "$", "$$$", hs.replace("$", ""), hs.replace("$", "$$")}
    out |= field_mutants(hs, rng, dense)
    out.discard(hs)
    return sorted(out)


def field_mutants(hs: str, rng, dense: bool):
    """alterations of whole fields: every order of a comma-separated settings list, and other values of the numeric fields (every value of a
    one- or two-digit field that starts a field; neighbours, doubles and boundary-looking values of longer ones)"""
    import itertools
    import re

    out = set()
    for m in re.finditer(r"[^$]*,[^$]*", hs):
        items = m.group(0).split(",")
        perms = list(itertools.permutations(items))
        if len(perms) > 24:
            perms = rng.sample(perms, 24)
        for pm in perms:
            out.add(hs[:m.start()] + ",".join(pm) + hs[m.end():])
        out.add(hs[:m.start()] + ",".join(items + items[:1]) + hs[m.end():])      # a setting given twice
    runs = list(re.finditer(r"\d+", hs))
    for k, m in enumerate(runs):
        at_field_start = m.start() == 0 or hs[m.start() - 1] in "$,=:}_"
        txt = m.group(0)
        w, n = len(txt), int(txt)
        if at_field_start and w <= 2:
            # every small value and the boundary-looking ones; not the values in between: where the field is a log2 cost (bcrypt: up to 31)
            # those are valid and take hours to verify
            vals = set(range(0, min(10 ** w, n + 4))) | ({50, 51, 52, 53, 54, 55, 63, 64, 65, 98, 99} if w == 2 else set())
        elif at_field_start or k < 4:
            vals = {n + 1, max(n - 1, 0), n * 2, n + 53, n + 64, n + 256, n ^ 1, 0}
        else:
            continue
        for v in vals:
            out.add(hs[:m.start()] + str(v).zfill(w) + hs[m.end():])
            if dense or w <= 2:
                out.add(hs[:m.start()] + str(v) + hs[m.end():])
    # a fixed-width numeric prefix glued to what follows (cisco_type7: two salt digits + hex): the first two digits of a field as a field
    for m in re.finditer(r"(?:^|(?<=[$,=:}_]))\d\d(?=[0-9A-Za-z])", hs):
        n = int(m.group(0))
        for v in set(range(0, min(100, n + 4))) | {50, 51, 52, 53, 54, 55, 63, 64, 65, 98, 99}:
            out.add(hs[:m.start()] + str(v).zfill(2) + hs[m.end():])
    return out


def same_parse(h, a, b):
    """do two strings parse to the same settings and digest under the real parser?"""
    target = h if hasattr(h, "from_string") else getattr(h, "wrapped", None)
    if target is None or not hasattr(target, "from_string"):
        return None
    try:
        ua = h._unwrap_hash(a) if hasattr(h, "_unwrap_hash") else a
        ub = h._unwrap_hash(b) if hasattr(h, "_unwrap_hash") else b
        x, y = target.from_string(ua), target.from_string(ub)
    except Exception:  # noqa: BLE001
        return False
    nm = getattr(h, "name", "")
    if nm == "django_des_crypt":
        # Django stores a salt of any length, des_crypt uses its first two characters: the rest does not feed the digest
        return x.checksum == y.checksum and (x.salt or "")[:2] == (y.salt or "")[:2]
    if nm == "scram":
        # a scram string may carry any subset of the digests (sha-1 is mandatory); dropping some leaves settings and the remaining digests unchanged
        return (x.salt == y.salt and x.rounds == y.rounds and isinstance(x.checksum, dict) and isinstance(y.checksum, dict)
                and all(x.checksum.get(k) == v for k, v in y.checksum.items()))
    if nm == "mssql2000":
        # verify() compares the upper-case half of the digest only (recorded finding mssql2000-verify-ignores-first-half)
        return x.salt == y.salt and (x.checksum or b"")[20:] == (y.checksum or b"")[20:]
    keys = ("checksum", "salt", "rounds", "ident", "version", "variant", "block_size", "parallelism", "algs", "type", "memory_cost", "bare_salt", "implicit_rounds")
    return all(getattr(x, k, None) == getattr(y, k, None) for k in keys if k != "implicit_rounds")


def lp_same(hh, a, b):
    """libpass: do two strings denote the same settings and digest under the hasher's own inspector (e.g. `rounds=01000`, `v=+2`)?"""
    from libpass.inspect.bcrypt import inspect_bcrypt_hash
    from libpass.inspect.pbkdf2 import inspect_pbkdf2_hash
    from libpass.inspect.phc import inspect_phc
    from libpass.inspect.phc.defs import BcryptSHA256PHCV2
    from libpass.inspect.sha_crypt import inspect_sha_crypt

    n = type(hh).__name__
    try:
        if n.startswith("SHA"):
            f = lambda s: inspect_sha_crypt(s, hh._info_cls)
        elif n.startswith("PBKDF2"):
            f = lambda s: inspect_pbkdf2_hash(s, hh.HASH_INFO_CLS)
        elif n == "BcryptHasher":
            f = inspect_bcrypt_hash
        else:
            f = lambda s: inspect_phc(s, BcryptSHA256PHCV2)
        x, y = f(a), f(b)
        return x is not None and x == y
    except Exception:  # noqa: BLE001
        return False


def oracle(ctx, o, first_only=False):
    import logging

    logging.disable(logging.WARNING)
    warnings.simplefilter("ignore")
    from passlib.context import CryptContext

    rng = ctx.rng
    fails = []

    class _NoWatch:
        def __enter__(self):
            return None

        def __exit__(self, *exc):
            return False

    def call(fn, inp):
        # a stored string must never buy unbounded work: a call that does not come back is reported by the runner's watchdog with `inp`
        with (ctx.watch(inp, 90) if hasattr(ctx, "watch") else _NoWatch()):
            return vc.safe_call(fn)

    def chk(tag, ok, inp, observed=None, expected=None):
        o.check(tag, ok, inp, observed, expected)
        if not ok:
            fails.append({"input": inp, "observed": observed, "expected": expected})

    verified = []       # (hasher, handler, original, mutant, input record): mutants that verified the original password
    names = vc.all_names()
    ctx_all = CryptContext([n for n in names if n not in ("plaintext", "ldap_plaintext", "roundup_plaintext", "unix_disabled", "django_disabled", "htdigest", "cisco_type7")
                            and not vc.ctx_kwds(vc.handler(n))] + ["unix_disabled"])
    # boundary settings besides a random cheap one: the smallest and largest value of a small numeric field (cisco_type7's salt)
    todo = [(n, None) for n in names] + [("cisco_type7", {"salt": 0}), ("cisco_type7", {"salt": 52})]
    # ... and every ident / variant a hasher can write (the layouts differ: scrypt's $7$ and $scrypt$ forms, bcrypt's $2$..$2y$, fshp's variants)
    for n in names:
        hn = vc.handler(n)
        sk = hn.setting_kwds or ()
        base = vc.cheap_settings(hn, rng)
        if "ident" in sk and "ident" in base:
            for iv in getattr(getattr(hn, "wrapped", hn), "ident_values", None) or ():
                if "2x" not in iv and iv != base.get("ident"):
                    todo.append((n, dict(base, ident=iv)))
        if n == "fshp":
            todo += [(n, dict(base, variant=v)) for v in (0, 1, 2, 3) if v != base.get("variant")]
        if n == "sun_md5_crypt":
            # both layouts of the settings field — with and without an explicit cost — in every run
            todo += [(n, dict(base, rounds=r_)) for r_ in (0, 7) if r_ != base.get("rounds")]
    # formats whose string grows with the password or is made of several independently computed parts: a password long enough to fill more
    # than one part (so that a string cut at a part boundary is among the mutants)
    LONG = b"password and a long tail 0123456789"
    todo = [t + (None,) for t in todo] + [(n, None, LONG) for n in ("bigcrypt", "crypt16", "lmhash", "des_crypt", "bsdi_crypt", "mssql2000", "oracle10") if n in names]
    for name, forced, long_secret in todo:
        h = vc.handler(name)
        hh = vc.using(h, forced if forced is not None else vc.cheap_settings(h, rng))
        ck = vc.ctx_kwds(h)
        secret = long_secret or b"password"
        if name in ("cisco_pix", "cisco_asa"):
            secret = secret[:16]
        try:
            hs = hh.hash(secret, **ck)
        except Exception:  # noqa: BLE001
            continue
        slow = name in fc.EXPENSIVE or name in ("sun_md5_crypt", "scrypt")
        muts = structural_mutants(hs, rng, ctx.thorough)
        always = [hs + "x", hs + hs, hs + "$", hs + "\n", hs + " ", " " + hs, hs[:-1], hs[:-1] + ("A" if hs[-1:] != "A" else "B"), hs.swapcase()]
        # a doubled separator collapsed, every single separator doubled (formats where the number of "$" is itself a setting: sun_md5_crypt)
        always += [hs.replace("$$", "$", 1)] + [hs[:i] + "$" + hs[i:] for i, c in enumerate(hs) if c == "$"]
        # cut at every multiple of 11 / 16 / 32 characters counted from the end and from the start (block-structured checksums), and halves
        always += [hs[:-k] for k in (11, 16, 22, 32, 33, 40) if k < len(hs)] + [hs[:k] for k in (13, 16, 24, 32, 35) if k < len(hs)] + [hs[: len(hs) // 2]]
        # a longer salt / settings field: extra characters inserted before each separator and before the checksum
        seps = [i for i, c in enumerate(hs) if c in "$,"]
        for i in seps[-3:]:
            for extra in ("X", "XYZ", "a1b2c3d4", hs[max(0, i - 1):i]):
                always.append(hs[:i] + extra + hs[i:])
        if slow:
            muts = rng.sample(muts, min(len(muts), 60 if not ctx.thorough else 400))
        elif ctx.thorough and len(muts) > 500:
            muts = rng.sample(muts, 500)
        fm = sorted(field_mutants(hs, rng, ctx.thorough) - {hs})
        if slow and len(fm) > 80:
            # keep every reordering of a settings list (same characters as the original, another order); sample the numeric alterations
            perms = [m for m in fm if sorted(m) == sorted(hs)]
            rest = [m for m in fm if sorted(m) != sorted(hs)]
            fm = perms + rng.sample(rest, min(len(rest), 70))
        muts = sorted(set(muts) | {m for m in always if m != hs} | set(fm))
        for m in muts:
            for form in ((m, m.encode("utf-8", "surrogatepass")) if rng.random() < 0.2 else (m,)):
                inp = {"op": "mutant", "hasher": name, "original": hs, "mutant": form if isinstance(form, str) else form.hex(), "bytes": isinstance(form, bytes)}
                st, r = call(lambda: hh.identify(form), inp)
                chk(name + ":identify-never-raises", st == "ok" and r in (True, False), inp, errname(r) if st == "err" else r, "True or False")
                # scram stores one digest per algorithm and by default checks only the strongest; `full=True` is its documented consistency check
                vkw = dict(ck, full=True) if name == "scram" else ck
                st, r = call(lambda: hh.verify(secret, form, **vkw), inp)
                if st == "err":
                    chk(name + ":verify-clean-error", vc.is_clean_error(r), inp, type(r).__name__ + ": " + str(r)[:80], "ValueError / TypeError")
                elif r is True and name not in ("plaintext", "ldap_plaintext", "roundup_plaintext"):
                    verified.append((name, h, hs, form if isinstance(form, str) else form.decode("utf-8", "replace"), inp))
                if hasattr(hh, "needs_update"):
                    st, r = call(lambda: hh.needs_update(form), inp)
                    if st == "err":
                        chk(name + ":needs-update-clean-error", vc.is_clean_error(r), inp, type(r).__name__ + ": " + str(r)[:80], "ValueError / TypeError")
            if fails and first_only:
                return fails
        # through a context
        raw = [hs.encode() + b"\xff", b"\xff" + hs.encode(), hs.encode()[: len(hs) // 2] + b"\xe9" + hs.encode()[len(hs) // 2:], b"\xff", b"\xc3", hs.encode("utf-16")]
        for m in rng.sample(muts, min(len(muts), 25 if not ctx.thorough else 200)) + [hs] + raw:
            inp = {"op": "context-mutant", "hasher": name, "mutant": m if isinstance(m, str) else m.hex(), "bytes": isinstance(m, bytes)}
            if ck:
                continue
            st, r = call(lambda: ctx_all.identify(m), inp)
            chk("context:identify-never-raises", st == "ok", inp, errname(r) if st == "err" else r, "a scheme name or None")
            for fn, tag in ((lambda: ctx_all.verify(secret, m), "verify"), (lambda: ctx_all.needs_update(m), "needs_update"), (lambda: ctx_all.verify_and_update(secret, m), "verify_and_update")):
                if slow and tag != "verify":
                    continue
                st, r = call(fn, inp)
                if st == "err":
                    chk("context:" + tag + "-clean-error", vc.is_clean_error(r), inp, type(r).__name__ + ": " + str(r)[:80], "ValueError / TypeError")
    # ---- a mutant that verified must denote the same settings and digest.  Judged by the C07 parse MODEL where the format has one (so a
    #      parser that starts ignoring part of the string cannot vouch for itself), by the real parser otherwise.
    lines = []
    for name, h, hs, m, inp in verified:
        lines += [f"fmt parse {name} {cps(hs)}", f"fmt parse {name} {cps(m)}"]
    try:
        outs = ctx.model(lines) if lines else []
    except Exception:  # noqa: BLE001
        outs = ["bad-op"] * len(lines)
    for i, (name, h, hs, m, inp) in enumerate(verified):
        a, b = outs[2 * i], outs[2 * i + 1]
        if a.startswith("ok ") and not a.startswith("ok None"):
            same = (a == b)
            if not same and name in ("django_des_crypt", "mssql2000", "scram"):
                same = bool(same_parse(h, hs, m))          # documented non-feeding parts (see same_parse)
        else:
            same = bool(same_parse(h, hs, m)) or (same_parse(h, hs, m) is None and name == "htdigest")
        chk(name + ":altered-never-verifies", same, inp, "verified", "only a re-encoding of the same settings and digest verifies")
        if fails and first_only:
            return fails
    # ---- a cost the platform's KDF cannot take (hashlib reads it as a C int): a stored hash carrying one is an invalid hash, i.e. a value
    #      error — never the KDF's OverflowError.  Only values above 2^31-1 are tried (they are refused at once; smaller ones would really run).
    import re as _re

    huge = ("2147483648", "3000000000", "4294967295", "4294967296", "2000000000000", "99999999999999999999")
    for name in names:
        h = vc.handler(name)
        base_name = vc.BASE.get(name, name) if hasattr(vc, "BASE") else name
        if "pbkdf2" not in base_name and base_name not in ("scram",):
            continue
        ck = vc.ctx_kwds(h)
        try:
            hs = vc.using(h, vc.cheap_settings(h, rng)).hash(b"password", **ck)
        except Exception:  # noqa: BLE001
            continue
        m0 = _re.search(r"(?<![0-9A-Za-z])\d{1,6}(?=[$.])", hs)
        if not m0:
            continue
        for v in huge:
            for vv in ((v, format(int(v), "x")) if base_name in ("cta_pbkdf2_sha1", "dlitz_pbkdf2_sha1") else (v,)):
                m = hs[:m0.start()] + vv + hs[m0.end():]
                inp = {"op": "huge-cost", "hasher": name, "mutant": m}
                for fn, tag in ((lambda: h.verify(b"password", m, **ck), "verify"), (lambda: h.needs_update(m), "needs_update"), (lambda: h.identify(m), "identify")):
                    with_deadline = call(fn, inp)
                    st, r = with_deadline
                    ok = (st == "ok" and r in (True, False) and not (tag == "verify" and r is True)) or (st == "err" and tag != "identify" and vc.is_clean_error(r))
                    chk(name + ":huge-cost-" + tag, ok, inp, (type(r).__name__ + ": " + str(r)[:80]) if st == "err" else r, "False / ValueError")
        if fails and first_only:
            return fails
    # libpass hashers
    from libpass.hashers.bcrypt import BcryptHasher, BcryptSHA256Hasher
    from libpass.hashers.pbkdf2 import PBKDF2SHA256Handler, PBKDF2SHA512Handler
    from libpass.hashers.sha_crypt import SHA256Hasher, SHA512Hasher

    for hh in (SHA256Hasher(rounds=1000), SHA512Hasher(rounds=1000), PBKDF2SHA256Handler(rounds=2), PBKDF2SHA512Handler(rounds=2), BcryptHasher(rounds=4), BcryptSHA256Hasher(rounds=4)):
        hs = hh.hash("password")
        lp_muts = structural_mutants(hs, rng, ctx.thorough)[: (80 if not ctx.thorough else None)]
        lp_muts = sorted(set(lp_muts) | separator_shifts(hs))
        # a mutant whose cost field is a VALID but enormous cost (sha-crypt admits 999 999 999 rounds) would really be computed: that is hours of
        # legitimate work, not an unbounded call — leave those out (the watchdog reported one as a violation in the thorough tier: a false alarm)
        import re as _re2

        lp_muts = [m for m in lp_muts if not _re2.search(r"rounds=0*[1-9][0-9]{5,}\$", m)]
        if "PBKDF2" in type(hh).__name__:
            lp_muts = list(lp_muts) + [hs.replace("$2$", "$" + v + "$", 1) for v in huge]
        for m in lp_muts:
            inp = {"op": "libpass-mutant", "hasher": type(hh).__name__, "original": hs, "mutant": m}
            for fn, tag in ((lambda: hh.identify(m), "identify"), (lambda: hh.needs_update(m), "needs_update")):
                st, r = call(fn, inp)
                chk("libpass:" + tag + "-never-raises", st == "ok" and r in (True, False), inp, errname(r) if st == "err" else r, "True or False")
            st, r = call(lambda: hh.verify(m, "password"), inp)
            if st == "err":
                chk("libpass:verify-clean-error", vc.is_clean_error(r), inp, type(r).__name__ + ": " + str(r)[:80], "ValueError / TypeError or False")
            else:
                chk("libpass:altered-never-verifies", r is False or lp_same(hh, hs, m), inp, r, "False unless the string denotes the same settings and digest")
    return fails


def correspond(ctx):
    warnings.simplefilter("ignore")
    rng = ctx.rng
    s_m = Suite(ctx, "crypt-verify-model-mutants", model_canon=lambda x: "err ValueError" if x == "err NullPasswordError" else x)
    for name in ("md5_crypt", "apr_md5_crypt", "sha256_crypt", "sha512_crypt"):
        h = vc.handler(name)
        for _ in range(3 if not ctx.thorough else 30):
            kw = {"salt": "".join(rng.choice("abcXYZ./09") for _ in range(rng.choice([1, 8])))}
            if "sha" in name:
                kw["rounds"] = rng.choice([1000, 1043, 5000])
            secret = rng.choice([b"password", b"", "pässword".encode(), b"\xff\xfe"])
            hs = h.using(**kw).hash(secret)
            for m in structural_mutants(hs, rng, ctx.thorough) + [hs]:
                for sec in (secret, secret + b"x"):
                    try:
                        ans = "ok " + ("True" if h.verify(sec, m) else "False")
                    except Exception as e:  # noqa: BLE001
                        ans = "err " + errname(e)
                    s_m.add_raw(f"vfy {name} verify b:{hx(sec)} {cps(m)}", ans, name + ":verify-mutant")
    o = Oracle(ctx, "all-hashers-mutants")
    oracle(ctx, o)
    return merge(s_m, o)


def search(ctx, broken, seeds):
    o = Oracle(ctx, "search")
    fails = oracle(ctx, o, first_only=True)
    return fails[0] if fails else None


def replay(ctx, inp):
    warnings.simplefilter("ignore")
    op = inp.get("op")
    if op == "parse-error-kind":
        h = vc.handler(inp["hasher"])
        try:
            h.from_string(inp["hash"])
            return {"fails": False, "observed": "parsed"}
        except Exception as e:  # noqa: BLE001
            return {"fails": not isinstance(e, ValueError), "observed": type(e).__name__ + ": " + str(e)[:100]}
    if op == "huge-cost":
        h = vc.handler(inp["hasher"])
        try:
            r = h.verify(b"password", inp["mutant"], **vc.ctx_kwds(h))
            return {"fails": r is True, "observed": r}
        except Exception as e:  # noqa: BLE001
            return {"fails": not vc.is_clean_error(e), "observed": type(e).__name__ + ": " + str(e)[:100]}
    if op == "lenient-reencodings":
        from passlib.hash import bsdi_crypt, pbkdf2_sha256, sha1_crypt

        h1 = bsdi_crypt.using(rounds=5).hash("pw")
        h2 = sha1_crypt.using(rounds=5).hash("pw")
        h3 = pbkdf2_sha256.using(rounds=5).hash("pw")
        obs = {"bsdi_crypt + newline": bsdi_crypt.verify("pw", h1 + "\n"), "sha1_crypt rounds ' +5 '": sha1_crypt.verify("pw", h2.replace("$5$", "$ +5 $", 1)),
               "pbkdf2_sha256 junk in salt": pbkdf2_sha256.verify("pw", h3.replace("$5$", "$5$!!!!", 1))}
        return {"fails": any(v is True for v in obs.values()), "observed": obs}
    if op == "mssql2000-first-half":
        from passlib.hash import mssql2000

        hs = mssql2000.hash("Password")
        alt = hs[:14] + ("0" if hs[14] != "0" else "1") + hs[15:]
        return {"fails": mssql2000.verify("Password", alt) is True, "observed": {"original": hs, "altered": alt, "verify": mssql2000.verify("Password", alt)}}
    if op == "libpass-version":
        from libpass.hashers.bcrypt import BcryptSHA256Hasher

        hh = BcryptSHA256Hasher(rounds=4)
        hs = hh.hash("password")
        alt = hs.replace("v=2,", f"v={inp.get('version', 0)},", 1)
        obs = {"identify": hh.identify(alt), "verify": hh.verify(alt, "password"), "needs_update": hh.needs_update(alt)}
        return {"fails": obs["verify"] is True or obs["identify"] is True, "observed": dict(obs, altered=alt)}
    if op == "mutant":
        h = vc.handler(inp["hasher"])
        m = inp["mutant"]
        if inp.get("bytes"):
            m = bytes.fromhex(m)
        ck = vc.ctx_kwds(h)
        out = {}
        bad = False
        for tag, fn in (("identify", lambda: h.identify(m)), ("verify", lambda: h.verify(b"password", m, **ck)), ("needs_update", lambda: h.needs_update(m))):
            st, r = vc.safe_call(fn)
            out[tag] = errname(r) if st == "err" else r
            if st == "err" and (tag == "identify" or not vc.is_clean_error(r)):
                bad = True
        return {"fails": bad, "observed": out}
    r = search(ctx, [], [])
    return {"fails": r is not None, "observed": r}
