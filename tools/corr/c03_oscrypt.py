"""C03 — the compiled model of the os_crypt back ends of the crypt-family hashers (lean/PasslibVerif/Model/OsCryptBackend.lean,
driver suite `ocp`) against the REAL classes of the source tree at $PASSLIB_REPO: des_crypt, bsdi_crypt, md5_crypt, sha1_crypt,
sha256_crypt, sha512_crypt — `cls._load_backend_os_crypt()` and `self._calc_checksum_os_crypt(secret)`.

`passlib.utils._crypt` (= `legacycrypt.crypt`, the name `safe_crypt` calls) is replaced by a recorder: around the real crypt() (its answer
is carried on the protocol line) and around fake answers (None, "", "*0", another prefix, another length, the right shape, bytes,
OSError, another exception).  The builtin routine's answer for the same object and secret (`self._calc_checksum_builtin(secret)`) is
recorded and carried on the line as well.  The arguments the recorder saw are part of the compared answer.

    cd <verif> && PASSLIB_REPO=/tmp/repo_clean /venv/bin/python -m tools.corr.c03_oscrypt [--thorough] [--seed N] [--only probe,calc]
"""
from __future__ import annotations

import os
import random
import sys
import warnings

if __name__ == "__main__":
    _here = os.path.dirname(os.path.abspath(__file__))
    sys.path.insert(0, os.path.dirname(_here))
sys.path.insert(0, os.environ.get("PASSLIB_REPO", "/repo"))

from .common import Suite, hx  # noqa: E402

LEAN_TARGETS = ["PasslibVerif.Props.C03OsCrypt"]
GROUPS = ["probe", "calc"]
CLASSES = ["des_crypt", "bsdi_crypt", "md5_crypt", "sha1_crypt", "sha256_crypt", "sha512_crypt"]


def cps(s) -> str:
    return ",".join(str(ord(c)) for c in s) if s else "-"


def arg(v) -> str:
    return ("t:" + cps(v)) if isinstance(v, str) else ("b:" + hx(bytes(v)))


def ename(e: BaseException) -> str:
    from passlib.exc import InternalBackendError

    for cls in (InternalBackendError, IndexError, UnicodeDecodeError, UnicodeEncodeError, ZeroDivisionError, AssertionError, TypeError, ValueError):
        if isinstance(e, cls):
            return cls.__name__
    return "Other0"


def ename_b(e: BaseException) -> str:
    """what the builtin routine raised, in the kinds the protocol can carry"""
    for cls in (UnicodeDecodeError, UnicodeEncodeError, ZeroDivisionError, AssertionError, TypeError, ValueError):
        if isinstance(e, cls):
            return cls.__name__
    return "Other0"


def model_suite(ctx, s_m, only=None):
    warnings.simplefilter("ignore")
    import legacycrypt
    import passlib.utils as U
    from passlib import hash as H

    want = set(only or GROUPS)
    th = ctx.tier == "thorough"
    rng = random.Random(ctx.seed)
    assert U.has_crypt and U._crypt is legacycrypt.crypt, "passlib.utils._crypt is not legacycrypt.crypt"
    real = U._crypt
    calls, seen = [], []

    class Boom(Exception):
        pass

    def recorder(answer):
        """answer: ('real',) | ('ret', value) | ('raise', exception)"""
        def f(secret, hash):
            calls.append((secret, hash))
            if answer[0] == "ret":
                return answer[1]
            if answer[0] == "raise":
                raise answer[1]
            try:
                r = real(secret, hash)
            except Exception as e:  # noqa: BLE001
                seen.append(("raise", e))
                raise
            seen.append(("ret", r))
            return r
        return f

    def cret(a) -> str:
        if a[0] == "raise":
            return "O" if isinstance(a[1], OSError) else "E:" + ename_b(a[1])
        v = a[1]
        return "N" if v is None else arg(v)

    def show_calls():
        return "calls=" + (";".join(cps(s) + "/" + cps(h) for s, h in calls) if calls else "-")

    def with_crypt(answer, thunk, conv):
        calls.clear()
        seen.clear()
        U._crypt = recorder(answer)
        try:
            try:
                out = "ok " + conv(thunk())
            except Exception as e:  # noqa: BLE001
                out = "err " + ename(e)
        finally:
            U._crypt = real
        assert len(calls) <= 1 and all(isinstance(s, str) and isinstance(h, str) for s, h in calls), calls
        eff = answer if answer[0] != "real" else (seen[0] if seen else ("ret", None))   # never called: any answer will do
        return show_calls() + " " + out, eff

    # ---- the model's probe vectors are the source's ------------------------------------------------------------------------
    # (independent of the translator: read from the live objects by running the loader with a recorder)
    # ---- probes -------------------------------------------------------------------------------------------------------------
    if "probe" in want:
        for name in CLASSES:
            cls = getattr(H, name)
            known = {"des_crypt": "abgOeLfPimXQo"}.get(name)
            # what the loader asks crypt(): seen by the recorder
            _, _ = with_crypt(("ret", None), cls._load_backend_os_crypt, str)
            asked = list(calls)
            assert len(asked) == 1, (name, asked)
            s_m.add_raw(f"ocp vector {name}", f"t:{cps(asked[0][0])} t:{cps(asked[0][1])}", "vector")
            vec_hash = asked[0][1]
            assert known is None or known == vec_hash
            last = vec_hash[-1]
            answers = [("real",), ("ret", None), ("ret", ""), ("ret", "*0"), ("ret", "*1"), ("ret", ":"), ("ret", "!"), ("ret", vec_hash),
                       ("ret", vec_hash[:-1]), ("ret", vec_hash + "."), ("ret", vec_hash[:-1] + ("." if last != "." else "/")),
                       ("ret", vec_hash.encode()), ("ret", vec_hash.upper()), ("ret", b"*0"), ("ret", b"\xff"), ("ret", "x" + vec_hash[1:]),
                       ("raise", OSError(22, "Invalid argument")), ("raise", Boom("x")), ("raise", ValueError("x")),
                       ("ret", "abgOeLfPimXQo"), ("ret", "$1$test$pi/xDtU5WFVRqYS6BMU8X/")]
            for dry in (False, True):
                for a in answers:
                    had = "_calc_checksum_backend" in cls.__dict__
                    old = cls.__dict__.get("_calc_checksum_backend")
                    oldp = (cls.__dict__.get("_pending_backend", "ABSENT"), cls.__dict__.get("_pending_dry_run", "ABSENT"))
                    if had:
                        delattr(cls, "_calc_checksum_backend")
                    cls._pending_backend, cls._pending_dry_run = "os_crypt", dry           # as BackendMixin.set_backend does
                    try:
                        def conv(r):
                            now = cls.__dict__.get("_calc_checksum_backend")
                            sel = "stub" if now is None else "os_crypt" if now is cls._calc_checksum_os_crypt else "other"
                            return ("True" if r is True else "False" if r is False else repr(r)) + " calc=" + sel
                        out, eff = with_crypt(a, cls._load_backend_os_crypt, conv)
                    finally:
                        if "_calc_checksum_backend" in cls.__dict__:
                            delattr(cls, "_calc_checksum_backend")
                        if had:
                            cls._calc_checksum_backend = old
                        for k, v in zip(("_pending_backend", "_pending_dry_run"), oldp):
                            if v == "ABSENT":
                                delattr(cls, k)
                            else:
                                setattr(cls, k, v)
                    s_m.add_raw(f"ocp probe {name} {1 if dry else 0} {cret(eff)}", out, "probe:" + ("real" if a[0] == "real" else "fake"))

    # ---- checksum calls -----------------------------------------------------------------------------------------------------
    if "calc" in want:
        secrets = ["", "test", "password", "pässwörd", "𝄞€éa", b"", b"password", "pässwörd".encode(), b"p\xe4ss", b"\xff", b"\xc3", b"\xed\xa0\x80",
                   "\x00", "ab\x00cd", b"ab\x00cd", b"\xff\x00", "é\x00".encode(), "a\ud800b", "x" * 80, b"y" * 80]
        if th:
            chars = ["a", "Z", "é", "€", "𝄞", "\x00", " "]
            for _ in range(30):
                secrets.append("".join(rng.choice(chars) for _ in range(rng.randint(1, 12))))
            for _ in range(30):
                secrets.append(bytes(rng.choice([0x61, 0x80, 0xC3, 0xA9, 0xFF, 0x00, 0x20]) for _ in range(rng.randint(1, 10))))
        for name in CLASSES:
            cls = getattr(H, name)
            h64 = "./0123456789ABCDEFGHIJKLMNOPQRSTUVWXYZabcdefghijklmnopqrstuvwxyz"
            insts = []
            if name == "des_crypt":
                insts = [cls(salt="ab"), cls(salt="./"), cls(salt="zZ"), cls.from_string("abgOeLfPimXQo"), cls.from_string("ab")]
            elif name == "bsdi_crypt":
                insts = [cls(salt="salt", rounds=5), cls(salt="....", rounds=1), cls(salt="zzzz", rounds=4097), cls.from_string("_/...lLDAxARksGCHin."),
                         cls.from_string("_7C/.ABw0")]
            elif name == "md5_crypt":
                insts = [cls(salt="test"), cls(salt=""), cls(salt="abcdefgh"), cls.from_string("$1$test$pi/xDtU5WFVRqYS6BMU8X/"), cls.from_string("$1$a$")]
            elif name == "sha1_crypt":
                insts = [cls(salt="Wq3GL2Vp", rounds=1), cls(salt="", rounds=4800), cls(salt="a" * 64, rounds=12345),
                         cls.from_string("$sha1$1$Wq3GL2Vp$C8U25GvfHS8qGHimExLaiSFlGkAe"), cls.from_string("$sha1$1970$iVdJqfSE$")]
            else:
                n = name[3:6]
                idt = "$5$" if n == "256" else "$6$"
                cs = 43 if n == "256" else 86
                insts = [cls(salt="test", rounds=1000), cls(salt="saltsalt", rounds=5000), cls(salt="saltsalt", rounds=5000, implicit_rounds=True),
                         cls(salt="", rounds=1234), cls(salt="a" * 16, rounds=5001, implicit_rounds=True),
                         cls.from_string(idt + "rounds=1000$test$" + "Q" * cs), cls.from_string(idt + "saltsalt$" + "x" * cs), cls.from_string(idt + "rounds=5000$s$")]
            if th:
                for _ in range(6):
                    sl = cls.max_salt_size or 8
                    salt = "".join(rng.choice(h64) for _ in range(rng.randint(max(cls.min_salt_size, 0), sl)))
                    kw = {"salt": salt}
                    if hasattr(cls, "min_rounds"):
                        kw["rounds"] = rng.randint(cls.min_rounds, min(cls.max_rounds, 6000))
                    insts.append(cls(**kw))
            for inst in insts:
                salt, rounds = inst.salt, getattr(inst, "rounds", 0) or 0
                impl = 1 if getattr(inst, "implicit_rounds", False) else 0
                chk = inst.checksum
                if name in ("sha256_crypt", "sha512_crypt"):
                    cfg_probe = inst.to_string()
                    ident, cs = inst.ident, inst.checksum_size
                else:
                    ident, cs = "", 0
                for sec in secrets:
                    # the builtin routine's answer for this object and secret
                    try:
                        b = inst._calc_checksum_builtin(sec)
                        assert isinstance(b, str) and b.isascii(), b
                        bret = "t:" + cps(b)
                        good_chk = b
                    except Exception as e:  # noqa: BLE001
                        bret = "E:" + ename_b(e)
                        good_chk = None
                    # what a correct crypt() would return: the hash string made by the builtin code
                    goods = []
                    if good_chk is not None:
                        if name == "des_crypt":
                            goods = [salt + good_chk]
                        elif name == "bsdi_crypt":
                            goods = [inst.to_string()[:9] + good_chk]
                        elif name == "md5_crypt":
                            goods = ["$1$" + salt + "$" + good_chk]
                        elif name == "sha1_crypt":
                            goods = [inst.to_string(config=True) + "$" + good_chk]
                        else:
                            goods = [ident + (f"rounds={rounds}$" if not (rounds == 5000 and impl) else "") + salt + "$" + good_chk,
                                     ident + f"rounds={rounds}$" + salt + "$" + good_chk]
                    answers = [("real",), ("ret", None), ("ret", ""), ("ret", "*0"), ("ret", "*1"), ("ret", ":"), ("ret", "!x"), ("ret", b"*0"),
                               ("raise", OSError(22, "Invalid argument")), ("raise", Boom("x")),
                               ("ret", "x"), ("ret", "abgOeLfPimXQo"), ("ret", "_/...lLDAxARksGCHin."), ("ret", "$1$test$pi/xDtU5WFVRqYS6BMU8X/"),
                               ("ret", "$sha1$1$Wq3GL2Vp$C8U25GvfHS8qGHimExLaiSFlGkAe"),
                               ("ret", "$5$rounds=1000$test$QmQADEXMG8POI5WDsaeho0P36yK3Tcrgboabng6bkb/"),
                               ("ret", "$6$rounds=1000$test$2M/Lx6MtobqjLjobw0Wmo4Q5OFx5nVLJvmgseatA6oMnyWeBdRDx4DU.1H3eGmse6pgsOgDisWBGI5c7TZauS0"),
                               ("ret", "$5$"), ("ret", "$6$"), ("ret", "$5$" + "a" * 42), ("ret", "$5$" + "a" * 43), ("ret", "$5$$" + "a" * 43), ("ret", "$5$" + "$" * 44),
                               ("ret", "$6$" + "a" * 85), ("ret", "$6$$" + "a" * 86), ("ret", "$6$a$b$" + "c" * 86), ("ret", "$5" + "$" + "é" * 43)]
                    for g in goods:
                        answers += [("ret", g), ("ret", g.encode()), ("ret", g[:-1]), ("ret", g + "."), ("ret", "x" + g[1:]), ("ret", g[:1] + "x" + g[2:]),
                                    ("ret", g[:-12] + "x" + g[-11:]), ("ret", g[:3] + "x" + g[4:]), ("ret", g.upper()), ("ret", g[:-1] + "é")]
                    if not th and sec not in ("test", "password", b"password", b"p\xe4ss", "ab\x00cd", b"\xff\x00", "pässwörd"):
                        answers = answers[:4] + answers[10:12] + [a for g in goods[:1] for a in (("ret", g), ("ret", g[:-1]))]
                    for a in answers:
                        out, eff = with_crypt(a, lambda: inst._calc_checksum_os_crypt(sec), cps)
                        s_m.add_raw(f"ocp calc {name} {cps(salt)} {rounds} {impl} {'N' if chk is None else cps(chk)} {arg(sec)} {cret(eff)} {bret}", out,
                                    f"calc:{name}:" + ("real" if a[0] == "real" else "fake"))
    return s_m.result()


if __name__ == "__main__":
    import argparse
    import json
    import time

    sys.path.insert(0, os.path.dirname(os.path.dirname(os.path.abspath(__file__))))
    from runner import Ctx  # type: ignore

    ap = argparse.ArgumentParser()
    ap.add_argument("--thorough", action="store_true")
    ap.add_argument("--seed", type=int, default=1)
    ap.add_argument("--only", default="")
    a = ap.parse_args()
    import passlib

    assert os.path.realpath(passlib.__file__).startswith(os.path.realpath(os.environ.get("PASSLIB_REPO", "/repo"))), passlib.__file__
    cx = Ctx("C03oscrypt", "thorough" if a.thorough else "quick", a.seed)
    t0 = time.time()
    sm = Suite(cx, "c03-oscrypt-model")
    model_suite(cx, sm, [x for x in a.only.split(",") if x] or None)
    res = sm.result()
    print(json.dumps({"cases": res["cases"], "mismatches": len(res["mismatches"]), "unmodelled": res["unmodelled"],
                      "seconds": round(time.time() - t0, 1), "passlib": os.path.dirname(passlib.__file__)}))
    for m in res["mismatches"][:12]:
        print("MISMATCH", json.dumps(m)[:900])
    print(json.dumps(res["distribution"], indent=0)[:6000])
    sys.exit(1 if res["mismatches"] else 0)
