"""C01 for the DES / bcrypt family: the compiled hash / verify / identify model (`vfyD` suite: C07 parser + Spec checksum) vs the
real hashers.

  des_crypt bsdi_crypt bigcrypt crypt16 django_des_crypt phpass sun_md5_crypt bcrypt django_bcrypt bcrypt_sha256 django_bcrypt_sha256

Run alone:  cd <verif> && /venv/bin/python -m tools.corr.c01_desbcrypt [--thorough] [--seed N] [--only name,name]
"""
from __future__ import annotations

import warnings

from .common import Suite, hx
from .common import errname as _errname
from .formats_common import cps

H64 = "./0123456789ABCDEFGHIJKLMNOPQRSTUVWXYZabcdefghijklmnopqrstuvwxyz"
BC64 = "./ABCDEFGHIJKLMNOPQRSTUVWXYZabcdefghijklmnopqrstuvwxyz0123456789"

NAMES = ["des_crypt", "bsdi_crypt", "phpass", "bcrypt", "bcrypt_sha256", "bigcrypt", "crypt16", "django_des_crypt", "django_bcrypt",
         "django_bcrypt_sha256", "sun_md5_crypt"]
#: `truncate_size` of the class (None: no truncation)
TRUNC = {"des_crypt": 8, "django_des_crypt": 8, "crypt16": 16, "bcrypt": 72, "django_bcrypt": 72}
#: a hash of some other format, for the "foreign string" probes
FOREIGN = ["$1$abcdefgh$G6Ysq3pDt6bGGRVKVkkuD/", "abJnggxhB/yWI", "_3...rasmMfmL4/oLtBs", "$P$5ohUJ.1sdQLBnRqVUTn0IW1crck0jX0",
           "$2a$04$CCCCCCCCCCCCCCCCCCCCC.K7Qr0se1MxuggH4aP4YgB.U2Em1pGSK", "$md5$abc$$EN61hQNImogOmjGbxVW6k.",
           "$bcrypt-sha256$v=2,t=2b,r=4$CCCCCCCCCCCCCCCCCCCCC.$fbH4syBGy3GSVQvhtjJF65iMFKuVsOa", "crypt$abcde$abiQ6Ep3EYTHc",
           "bcrypt$$2y$04$CCCCCCCCCCCCCCCCCCCCC.HrBIdffznV69GxsYPA9PLSACo3k11D6",
           "bcrypt_sha256$$2a$04$CCCCCCCCCCCCCCCCCCCCC.as6qOb8MfMQp2eEHs3jCxQkOjs1vU7q", "aaX/UmCcBrceQ0kQGGWKTbuE"]


def errname(e):
    return _errname(e)


def handler(name):
    warnings.simplefilter("ignore")
    from passlib import registry

    return registry.get_crypt_handler(name)


def sec_arg(secret):
    return ("t:" + cps(secret)) if isinstance(secret, str) else ("b:" + hx(secret))


def rnd(rng, alphabet, n):
    return "".join(rng.choice(alphabet) for _ in range(n))


def gen_secret(rng, name):
    """bytes; lengths around the truncation limit of the class, the empty secret, multi-byte text, 8-bit bytes"""
    lim = TRUNC.get(name)
    lens = [0, 1, 2, 5, 7, 8, 9, 15, 16, 17, 23, 24, 25, 40, 55, 56, 71, 72, 73, 100, 255, 256]
    if lim:
        lens += [lim - 1, lim, lim + 1] * 3
    n = rng.choice(lens)
    kind = rng.choice(["ascii", "ascii", "text", "bytes", "high"])
    if kind == "ascii":
        return bytes(rng.choice(b"abcdefgXYZ0189 !~_") for _ in range(n))
    if kind == "text":
        s = ""
        while len(s.encode()) < n:
            s += rng.choice("aZ9é€\U0001d11eß ")
        return s.encode()[:n].decode("utf-8", "ignore").encode() if n else b""
    if kind == "high":
        return bytes(rng.choice([0x80, 0x81, 0xFF, 0x41, 0xC1, 0x7F]) for _ in range(n))
    return bytes(rng.randrange(1, 256) for _ in range(n))


def gen_settings(rng, name):
    """(keywords for `using()`, setting arguments of the model line)"""
    te = rng.random() < 0.3
    if name in ("des_crypt", "crypt16"):
        salt = rnd(rng, H64, 2)
        return dict(salt=salt, truncate_error=te), f"{cps(salt)} {int(te)}"
    if name == "django_des_crypt":
        salt = rnd(rng, H64, rng.choice([2, 2, 3, 5, 12]))
        return dict(salt=salt, truncate_error=te), f"{cps(salt)} {int(te)}"
    if name == "bigcrypt":
        salt = rnd(rng, H64, 2)
        return dict(salt=salt), cps(salt)
    if name == "bsdi_crypt":
        salt = rnd(rng, H64, 4)
        rounds = rng.choice([1, 1, 3, 5, 7, 21, 63, 64, 725])
        # hash() makes the rounds odd (`_generate_rounds`: `rounds | 1`): the record it builds for rounds=64 holds 65
        return dict(salt=salt, rounds=rounds), f"{cps(salt)} {rounds | 1}"
    if name == "phpass":
        salt = rnd(rng, H64, 8)
        rounds = rng.choice([7, 7, 8, 9, 10])
        ident = rng.choice(["$P$", "$H$"])
        return dict(salt=salt, rounds=rounds, ident=ident), f"{cps(ident)} {cps(salt)} {rounds}"
    if name == "sun_md5_crypt":
        salt = rnd(rng, H64, rng.choice([0, 1, 8, 8, 16]))
        rounds = rng.choice([0, 0, 1, 7])
        return dict(salt=salt, rounds=rounds), f"{cps(salt)} {rounds} 0"
    # bcrypt family: the last salt character is arbitrary (its padding bits are repaired by `_norm_salt`)
    salt = rnd(rng, BC64, 22)
    rounds = rng.choice([4, 4, 4, 5])
    if name in ("bcrypt", "django_bcrypt"):
        ident = rng.choice(["2", "2a", "2b", "2y"])
        return dict(salt=salt, rounds=rounds, ident=ident, truncate_error=te), f"{cps('$' + ident + '$')} {cps(salt)} {rounds} {int(te)}"
    if name == "bcrypt_sha256":
        version = rng.choice([1, 2, 2])
        ident = rng.choice(["2a", "2b"]) if version == 1 else "2b"
        return dict(salt=salt, rounds=rounds, ident=ident, version=version), f"{version} {cps('$' + ident + '$')} {cps(salt)} {rounds}"
    if name == "django_bcrypt_sha256":
        ident = rng.choice(["2", "2a", "2b", "2y"])
        return dict(salt=salt, rounds=rounds, ident=ident), f"{cps('$' + ident + '$')} {cps(salt)} {rounds}"
    raise KeyError(name)


def equivalents(rng, name, secret: bytes):
    """secrets the format documents as equivalent to `secret`, and near misses"""
    out = [secret + b"x", secret[:-1] if secret else b"y"]
    lim = TRUNC.get(name)
    if lim and len(secret) >= lim:
        out += [secret[:lim], secret[:lim] + b"tail", secret[: lim - 1] + bytes([secret[lim - 1] ^ 1])]
    if name in ("des_crypt", "django_des_crypt", "bsdi_crypt", "bigcrypt", "crypt16") and secret:
        i = rng.randrange(len(secret))
        out.append(secret[:i] + bytes([secret[i] ^ 0x80]) + secret[i + 1:])          # the 8th bit is not part of a DES key
    if name == "bigcrypt":
        out.append(secret + b"\x80")
    return out


def mutations(rng, name, hs):
    last = hs[-1]
    alt = "." if last != "." else "/"
    # bsdi_crypt: the 24-bit rounds field is left alone by the random edits (a random value there costs up to 2**24 DES rounds in
    # the model); a controlled change of the rounds is made instead
    lo = 5 if name == "bsdi_crypt" else 0
    i = rng.randrange(lo, len(hs))
    out = [hs, hs[:-1] + alt, hs[:-1], hs + "\n", hs[: len(hs) // 2], "", hs[:i] + rng.choice("$.aZ9,_ı") + hs[i + 1:], hs + "$", " " + hs,
           hs[:lo] + hs[lo:].upper(), rng.choice(FOREIGN)]
    if name == "bsdi_crypt":
        r = sum(H64.index(c) << (6 * k) for k, c in enumerate(hs[1:5])) + 2
        out.insert(4, "_" + "".join(H64[(r >> (6 * k)) & 63] for k in range(4)) + hs[5:])
    return out


def real(thunk, show):
    try:
        return "ok " + show(thunk())
    except Exception as e:  # noqa: BLE001
        return "err " + errname(e)


def tf(b):
    return "True" if b else "False"


def one_case(ctx, s_m, name, h, secret, kw, margs, light=False):
    rng = ctx.rng
    form = secret
    if rng.random() < 0.45:
        try:
            form = secret.decode("utf-8")
        except UnicodeDecodeError:
            pass
    hh = h.using(**kw)
    try:
        hs = hh.hash(form)
        ans = "ok " + cps(hs)
    except Exception as e:  # noqa: BLE001
        hs = None
        ans = "err " + errname(e)
    s_m.add_raw(f"vfyD {name} hash {sec_arg(form)} {margs}", ans, name + ":hash")
    if hs is None:
        kw2 = {k: v for k, v in kw.items() if k != "truncate_error"}
        hs = h.using(**kw2).hash("pw")
    cands = mutations(rng, name, hs)
    if light:
        cands = cands[:2] + [cands[-1]]
    secs = [form, form + ("x" if isinstance(form, str) else b"x")] + ([secret] if form is not secret else [])
    for k, c in enumerate(cands):
        use = secs if k < 4 else secs[:1]
        for sec in use:
            s_m.add_raw(f"vfyD {name} verify {sec_arg(sec)} {cps(c)}", real(lambda: hh.verify(sec, c), tf), name + ":verify")
        s_m.add_raw(f"vfyD {name} identify {cps(c)}", real(lambda: hh.identify(c), tf), name + ":identify")
    if not light:
        for other in equivalents(rng, name, secret):
            s_m.add_raw(f"vfyD {name} verify {sec_arg(other)} {cps(hs)}", real(lambda: hh.verify(other, hs), tf), name + ":verify-equiv")


def model_suite(ctx, s_m, only=None):
    warnings.simplefilter("ignore")
    rng = ctx.rng
    T = ctx.thorough
    for name in NAMES:
        if only and name not in only:
            continue
        h = handler(name)
        n = {"sun_md5_crypt": 6, "bsdi_crypt": 30}.get(name, 40)
        if T:
            n *= 10
        for _ in range(n):
            secret = gen_secret(rng, name)
            if rng.random() < 0.15:
                i = rng.randrange(len(secret) + 1)
                secret = secret[:i] + b"\x00" + secret[i:]
            kw, margs = gen_settings(rng, name)
            one_case(ctx, s_m, name, h, secret, kw, margs)
        # ---- the library-wide size limit: characters for text, bytes for bytes; bcrypt re-validates the encoded secret
        big = [b"a" * 4095, b"a" * 4096, b"a" * 4097, ("é" * 2048).encode(), ("é" * 2049).encode(), ("€" * 4096), ("€" * 4097),
               "é" * 4096 + "\x00", "\ud800", "a\udfffb", "a" * 4096 + "\x00"]
        if name == "sun_md5_crypt" and not T:
            big = [b"a" * 4097, ("€" * 4097), "\ud800"]
        if name in ("bsdi_crypt", "bigcrypt") and not T:
            # one DES call per 8 bytes (pure Python on the real side for bigcrypt): the exact limit is left to the thorough tier
            big = [b"a" * 300, b"a" * 4097, ("€" * 4097), "\ud800", ("é" * 300)]
        for sec in big:
            kw, margs = gen_settings(rng, name)
            if name == "bsdi_crypt":
                kw["rounds"] = 1
                margs = margs.rsplit(" ", 1)[0] + " 1"
            if isinstance(sec, str):
                hh = h.using(**kw)
                s_m.add_raw(f"vfyD {name} hash {sec_arg(sec)} {margs}", real(lambda: hh.hash(sec), cps), name + ":hash-big")
                hs0 = h.using(**{k: v for k, v in kw.items() if k != "truncate_error"}).hash("pw")
                for c in (hs0, hs0[:-1], ""):
                    s_m.add_raw(f"vfyD {name} verify {sec_arg(sec)} {cps(c)}", real(lambda: hh.verify(sec, c), tf), name + ":verify-big")
            else:
                one_case(ctx, s_m, name, h, sec, kw, margs, light=True)
        # ---- sun_md5_crypt: "bare salt" strings cannot be made by hash(); genhash's way of building them
        if name == "sun_md5_crypt":
            for _ in range(4 if not T else 40):
                salt = rnd(rng, H64, rng.choice([0, 1, 8]))
                rounds = rng.choice([0, 5])
                sec = gen_secret(rng, name)

                def mk():
                    o = h(salt=salt, rounds=rounds, bare_salt=True)
                    o.checksum = o._calc_checksum(sec)
                    return o.to_string()

                hs = mk()
                s_m.add_raw(f"vfyD {name} hash {sec_arg(sec)} {cps(salt)} {rounds} 1", "ok " + cps(hs), name + ":hash-bare")
                for c in (hs, hs + "\n", hs.replace("$", "$$"), hs[:-1]):
                    s_m.add_raw(f"vfyD {name} verify {sec_arg(sec)} {cps(c)}", real(lambda: h.verify(sec, c), tf), name + ":verify-bare")
                    s_m.add_raw(f"vfyD {name} identify {cps(c)}", real(lambda: h.identify(c), tf), name + ":identify")


def canon(o):
    # NullPasswordError is a ValueError; the os_crypt back end refuses NUL with a plain ValueError of its own
    return "err ValueError" if o == "err NullPasswordError" else o


def correspond(ctx, only=None):
    s_m = Suite(ctx, "desbcrypt-hash-verify-model", model_canon=canon)
    model_suite(ctx, s_m, only)
    return s_m.result()


if __name__ == "__main__":
    import argparse
    import json
    import os
    import sys
    import time

    here = os.path.dirname(os.path.dirname(os.path.abspath(__file__)))
    sys.path.insert(0, here)
    sys.path.insert(0, os.environ.get("PASSLIB_REPO", "/repo"))
    from runner import Ctx

    ap = argparse.ArgumentParser()
    ap.add_argument("--thorough", action="store_true")
    ap.add_argument("--seed", type=int, default=1)
    ap.add_argument("--only", default="")
    a = ap.parse_args()
    ctx = Ctx("C01", "thorough" if a.thorough else "quick", a.seed)
    t0 = time.time()
    res = correspond(ctx, set(a.only.split(",")) if a.only else None)
    print(json.dumps({"cases": res["cases"], "mismatches": len(res["mismatches"]), "unmodelled": res["unmodelled"], "seconds": round(time.time() - t0, 1)}))
    for k, v in res["distribution"].items():
        print(f"  {k}: {v}")
    for m in res["mismatches"][:25]:
        print("MISMATCH", json.dumps(m)[:600])
    sys.exit(1 if res["mismatches"] else 0)
