"""a lazily resolved PrefixWrapper used from two threads: thread A makes the first call and is parked inside the (slow) import of the
wrapped handler's module; thread B then calls the same wrapper.  Both must get the single-thread answers."""
import os, sys, tempfile, threading, time, types

tmp = tempfile.mkdtemp(prefix="c19w_")
sys.path.insert(0, tmp)
gate = types.ModuleType("verif_c19_gate")
gate.importing, gate.release = threading.Event(), threading.Event()
sys.modules["verif_c19_gate"] = gate
with open(os.path.join(tmp, "verif_c19_slowmod.py"), "w") as fh:
    fh.write('''
import verif_c19_gate as g
g.importing.set()
g.release.wait(10)
import passlib.utils.handlers as uh
class verif_slow_handler(uh.StaticHandler):
    name = "verif_slow_handler"
    checksum_chars = uh.LOWER_HEX_CHARS
    checksum_size = 4
    def _calc_checksum(self, secret):
        import hashlib
        if isinstance(secret, str):
            secret = secret.encode()
        return hashlib.md5(secret).hexdigest()[:4]
''')
import passlib.utils.handlers as uh
from passlib.registry import register_crypt_handler_path

register_crypt_handler_path("verif_slow_handler", "verif_c19_slowmod")
w = uh.PrefixWrapper("verif_lazy_wrapper", "verif_slow_handler", prefix="{X}", lazy=True)
out = {}
def A():
    try: out["A"] = w.hash("pw")
    except BaseException as e: out["A"] = "ERR " + repr(e)
def B():
    gate.importing.wait(10)
    try: out["B"] = (w.verify("pw", "{X}" + __import__("hashlib").md5(b"pw").hexdigest()[:4]), w.identify("{X}abcd"), w.identify("abcd"))
    except BaseException as e: out["B"] = "ERR " + repr(e)
def R():
    gate.importing.wait(10); time.sleep(0.4); gate.release.set()
ts = [threading.Thread(target=f) for f in (A, B, R)]
for t in ts: t.start()
for t in ts: t.join(20)
print(out)
import shutil; shutil.rmtree(tmp, ignore_errors=True)
want_a = "{X}" + __import__("hashlib").md5(b"pw").hexdigest()[:4]
sys.exit(0 if out.get("A") == want_a and out.get("B") == (True, True, False) else 1)
