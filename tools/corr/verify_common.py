"""shared by C01 / C05 / C08: every shipped hasher at a cheap cost, admissible secrets, documented equivalences, near misses."""
from __future__ import annotations

import os
import warnings

os.environ.setdefault("PASSLIB_BUILTIN_BCRYPT", "enabled")

from .common import errname

#: hashers the real-code oracles skip on this host (no backend installed)
NO_BACKEND = {"argon2", "django_argon2"}
DISABLED = {"unix_disabled", "django_disabled"}
#: wrapper -> the hasher whose password semantics it has
BASE = {
    "ldap_des_crypt": "des_crypt", "django_des_crypt": "des_crypt", "ldap_bsdi_crypt": "bsdi_crypt", "ldap_bcrypt": "bcrypt", "django_bcrypt": "bcrypt",
    "ldap_md5_crypt": "md5_crypt", "ldap_sha1_crypt": "sha1_crypt", "ldap_sha256_crypt": "sha256_crypt", "ldap_sha512_crypt": "sha512_crypt",
}
DES_FAMILY = {"des_crypt", "bsdi_crypt", "bigcrypt", "crypt16"}
#: crypt()-compatible formats: NUL bytes are refused
NUL_REFUSING = {"des_crypt", "bsdi_crypt", "bigcrypt", "md5_crypt", "apr_md5_crypt", "sha1_crypt", "sha256_crypt", "sha512_crypt", "bcrypt",
                "django_bcrypt", "django_des_crypt", "ldap_des_crypt", "ldap_bsdi_crypt", "ldap_bcrypt", "ldap_md5_crypt",
                "ldap_sha1_crypt", "ldap_sha256_crypt", "ldap_sha512_crypt"}
#: crypt()-style formats that hash NUL bytes as data instead of refusing them (recorded finding C05 nul-accepted-by-sun-md5-and-crypt16);
#: bcrypt_sha256 pre-hashes the secret, so NUL is ordinary input there by design
NUL_AS_DATA = {"sun_md5_crypt", "crypt16", "bcrypt_sha256"}
#: formats whose algorithm works on text (a bytes secret is decoded as UTF-8 first)
TEXT_ONLY = {"nthash", "bsd_nthash", "msdcc", "msdcc2", "mssql2000", "mssql2005", "lmhash", "oracle10", "oracle11", "scram", "cisco_pix", "cisco_asa"}


def handler(name):
    warnings.simplefilter("ignore")
    from passlib import registry

    return registry.get_crypt_handler(name)


def all_names():
    warnings.simplefilter("ignore")
    from passlib import registry

    return [n for n in sorted(registry.list_crypt_handlers()) if n not in NO_BACKEND]


def ctx_kwds(h, rng=None):
    ck = getattr(h, "context_kwds", ()) or ()
    kw = {}
    if "user" in ck:
        kw["user"] = "user" if rng is None else rng.choice(["user", "Admin", "a", "u" * 30])
    if "realm" in ck:
        kw["realm"] = "realm"
    return kw


def cheap_settings(h, rng):
    """admissible settings at a cheap cost, over salt sizes / idents / variants"""
    kw = {}
    sk = h.setting_kwds or ()
    name = h.name
    if "rounds" in sk:
        lo = h.min_rounds
        if getattr(h, "rounds_cost", "linear") == "log2":
            kw["rounds"] = rng.choice([lo, lo + 1])
        else:
            kw["rounds"] = rng.choice([max(lo, 1), max(lo, 1) + 1, max(lo, 1) + rng.randrange(0, 50)])
        if name in ("bsdi_crypt", "ldap_bsdi_crypt"):
            kw["rounds"] |= 1
        if name == "sun_md5_crypt":
            kw["rounds"] = rng.choice([0, 1, 7])
    if "salt_size" in sk and h.max_salt_size != h.min_salt_size:
        mx = h.max_salt_size or 24
        kw["salt_size"] = rng.choice([h.min_salt_size, mx, rng.randrange(h.min_salt_size, mx + 1)])
    iv = getattr(h, "ident_values", None)
    if iv and "ident" in sk:
        kw["ident"] = rng.choice([i for i in getattr(getattr(h, "wrapped", h), "ident_values", iv) if "2x" not in i])   # $2x$ is recognised but cannot be hashed
    if name == "fshp":
        kw["variant"] = rng.choice([0, 1, 2, 3])
    if name == "scrypt":
        kw.update(block_size=rng.choice([1, 2]), parallelism=1, rounds=rng.choice([1, 2]), salt_size=rng.choice([1, 8, 16, 32]))   # the $7$ variant caps the salt well below max_salt_size
    if name == "bcrypt_sha256":
        kw.pop("ident", None)
    return kw


def using(h, kw):
    try:
        return h.using(**kw)
    except Exception:  # noqa: BLE001
        return h


# ---------------------------------------------------------------------------------- equivalences
def _b(x):
    return x.encode("utf-8") if isinstance(x, str) else x


def eff(name: str, secret, kw=None):
    """the part of the secret the format documents as significant (None = secret not admissible for the format)"""
    base = BASE.get(name, name)
    b = _b(secret)
    if base == "ldap_plaintext" and not b:
        return None          # an empty string is not a valid ldap_plaintext hash: the scheme cannot represent an empty password
    if base in ("des_crypt",):
        return bytes(c & 0x7F for c in b[:8])
    if base == "crypt16":
        return bytes(c & 0x7F for c in b[:16])
    if base in ("bsdi_crypt", "bigcrypt"):
        return bytes(c & 0x7F for c in b)
    if base == "bcrypt":
        return b[:72]
    if base == "lmhash":
        try:
            s = b.decode("utf-8") if isinstance(secret, bytes) else secret
            return s.upper().encode("cp437")[:14]
        except (UnicodeDecodeError, UnicodeEncodeError):
            return None
    if base == "oracle10":
        try:
            s = b.decode("utf-8") if isinstance(secret, bytes) else secret
            return s.upper()
        except UnicodeDecodeError:
            return None
    if base == "mysql323":
        return bytes(c for c in b if c not in (0x20, 0x09))
    if base in TEXT_ONLY:
        try:
            return b.decode("utf-8")
        except UnicodeDecodeError:
            return None
    return b


def near_misses(name, secret: bytes, rng, k=4):
    """secrets that differ from `secret`; the caller decides through eff() whether the difference is significant"""
    out = []
    b = secret
    if b:
        for _ in range(k):
            i = rng.randrange(len(b))
            c = b[i] ^ 1
            if c == 0:
                c = 2
            out.append(b[:i] + bytes([c]) + b[i + 1:])
        out.append(b[:-1])
        i = rng.randrange(len(b))
        out.append(b[:i] + b[i + 1:])
    out.append(b + b"x")
    out.append(b"x" + b)
    out.append(b + b" ")
    # blanks and control bytes inserted anywhere: significant everywhere except where a format documents otherwise (eff())
    for c in rng.sample([9, 10, 11, 12, 13, 32, 0x1F, 0x7F], 3):
        i = rng.randrange(len(b) + 1)
        out.append(b[:i] + bytes([c]) + b[i:])
    out.append(b + bytes([rng.choice([10, 13, 11, 12])]))
    if len(b) >= 2:
        out.append(b[1:] + b[:1])
    out = [x for x in out if x != b]
    if BASE.get(name, name) in DES_FAMILY:
        # a byte 0x80 is the 7-bit value 0 = DES key padding: "x\x80" and "x" are the same key; keep clear of that corner
        out = [x for x in out if 0x80 not in x]
    return out


SECRET_LENS = [0, 1, 2, 7, 8, 9, 13, 14, 15, 16, 17, 31, 32, 33, 55, 56, 63, 64, 65, 71, 72, 73, 127, 128, 129, 255, 256]


def gen_secret(rng, n=None, kind=None):
    n = rng.choice(SECRET_LENS) if n is None else n
    kind = kind or rng.choice(["ascii", "ascii", "text", "bytes"])
    if kind == "ascii":
        return bytes(rng.choice(b"abcdefgXYZ0189 !~_") for _ in range(n))
    if kind == "text":
        s = ""
        while len(s.encode()) < n:
            s += rng.choice("aZ9é€𝄞ß ")
        return s.encode()[:n].decode("utf-8", "ignore").encode() if n else b""
    return bytes(rng.randrange(1, 256) for _ in range(n))


def safe_call(fn):
    try:
        return ("ok", fn())
    except Exception as e:  # noqa: BLE001
        return ("err", e)


def is_clean_error(e) -> bool:
    """the documented error classes: ValueError (incl. passlib's subclasses) and TypeError"""
    return isinstance(e, (ValueError, TypeError))
