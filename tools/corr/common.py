"""shared helpers of the correspondence / search harnesses."""
from __future__ import annotations

import collections


def errname(e: BaseException) -> str:
    """canonical error kind (the ErrKind enum of the Lean models)."""
    try:
        from passlib import exc
    except Exception:  # noqa: BLE001
        exc = None
    if exc is not None:
        for nm in ("PasswordTruncateError", "PasswordSizeError", "MissingBackendError", "UnknownHashError",
                   "MalformedTokenError", "UsedTokenError", "InvalidTokenError"):
            cls = getattr(exc, nm, None)
            if cls is not None and isinstance(e, cls):
                return nm
    for cls in (KeyError, IndexError, AssertionError, AttributeError, NotImplementedError, TypeError,
                ValueError, RuntimeError):
        if isinstance(e, cls):
            return cls.__name__
    return type(e).__name__


class Slow(BaseException):
    """raised by `deadline` when a real-code call exceeds its budget (never swallowed by `except Exception`)"""


class deadline:
    """with deadline(seconds): …  — SIGALRM based watchdog for calls into the real code"""

    def __init__(self, seconds):
        self.seconds = seconds

    def __enter__(self):
        import signal

        def fire(*_a):
            raise Slow()

        self.old = signal.signal(signal.SIGALRM, fire)
        signal.alarm(self.seconds)

    def __exit__(self, *exc):
        import signal

        signal.alarm(0)
        signal.signal(signal.SIGALRM, self.old)
        return False


def hx(b: bytes) -> str:
    return b.hex() if b else "-"


def safe(thunk) -> str:
    try:
        return "ok " + thunk()
    except Exception as e:  # noqa: BLE001
        return "err " + errname(e)


class Suite:
    """collect (protocol line, implementation answer) pairs; compare with the model in batches."""

    def __init__(self, ctx, name, batch=400_000, model_canon=None):
        self.model_canon = model_canon
        self.ctx = ctx
        self.name = name
        self.batch = batch
        self.lines: list[str] = []
        self.impl: list[str] = []
        self.cases = 0
        self.unmodelled = 0
        self.mismatches: list[dict] = []
        self.dist = collections.Counter()
        self.samples: list[dict] = []

    def add(self, line: str, thunk, tag: str = ""):
        self.lines.append(line)
        r = safe(thunk)
        self.impl.append(r)
        self.dist[(tag or line.split(" ", 2)[1]) + ":" + (("None" if r == "ok None" else "ok") if r.startswith("ok") else r[4:])] += 1
        if len(self.lines) >= self.batch:
            self.flush()

    def add_raw(self, line: str, answer: str, tag: str = ""):
        """like add(), for an implementation answer that is already a canonical string"""
        self.lines.append(line)
        self.impl.append(answer)
        self.dist[(tag or line.split(" ", 2)[1]) + ":" + ("err" if " err " in (" " + answer) else "ok")] += 1
        if len(self.lines) >= self.batch:
            self.flush()

    def flush(self):
        if not self.lines:
            return
        outs = self.ctx.model(self.lines)
        if self.model_canon:
            outs = [self.model_canon(o) for o in outs]
        for ln, i, m in zip(self.lines, self.impl, outs):
            self.cases += 1
            if m == "unmodelled":
                self.unmodelled += 1
            elif i != m:
                if len(self.mismatches) < 25:
                    rec = {"input": ln, "impl": i, "model": m}
                    if " | " in i or " | " in m:
                        a, b = i.split(" | "), m.split(" | ")
                        toks = ln.split(" ")
                        for k, (x, y) in enumerate(zip(a, b)):
                            if x != y:
                                rec["first_diff"] = {"index": k, "query": toks[len(toks) - max(len(a), len(b)) + k] if len(toks) >= max(len(a), len(b)) else None, "impl": x, "model": y}
                                break
                    self.mismatches.append(rec)
        if len(self.samples) < 4:
            k = len(self.lines) // 2
            self.samples.append({"line": self.lines[k][:200], "impl": self.impl[k][:200], "model": outs[k][:200]})
        self.lines, self.impl = [], []

    def result(self) -> dict:
        self.flush()
        return {"cases": self.cases, "mismatches": self.mismatches, "unmodelled": self.unmodelled,
                "distribution": dict(sorted(self.dist.items()))}


class Oracle:
    """property checks evaluated on the real code alone (independent expectation, no Lean model in the loop)"""

    def __init__(self, ctx, name):
        self.ctx = ctx
        self.name = "oracle-" + name
        self.cases = 0
        self.mismatches: list[dict] = []
        self.dist = collections.Counter()
        self.samples: list[dict] = []

    def check(self, tag: str, ok: bool, inp, observed=None, expected=None):
        self.cases += 1
        self.dist[tag + (":ok" if ok else ":FAIL")] += 1
        if not ok and len(self.mismatches) < 25:
            self.mismatches.append({"input": inp, "impl": observed, "model": expected, "oracle": tag})
        if ok and len(self.samples) < 3:
            self.samples.append({"line": str(inp)[:200], "impl": str(observed)[:120], "model": "(oracle) " + str(expected)[:120]})

    def flush(self):
        pass

    def result(self) -> dict:
        return {"cases": self.cases, "mismatches": self.mismatches, "unmodelled": 0, "distribution": dict(sorted(self.dist.items())),
                "kind": "real-code property oracle"}


def merge(*suites, exhaustive=False) -> dict:
    res = {"suites": {}, "samples": [], "exhaustive": exhaustive}
    for s in suites:
        res["suites"][s.name] = s.result()
        res["samples"] += [dict(x, suite=s.name) for x in s.samples[:3]]
    return res
