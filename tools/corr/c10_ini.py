"""C10 / the text form of a configuration: `CryptContext._render_ini_value`, `_write_to_parser` / `to_string`, `_parse_ini_stream`,
`from_string`, `passlib.utils.splitcomma`, `_coerce_vary_rounds`, `_CryptConfig._norm_scheme_option`, `_norm_context_option`,
`_init_scheme_list`, `_init_options` of the real code against the compiled Lean model `Model.CtxIni` (suite `cini` of modeldrv), and the
four behaviours the model ASSUMES of the interpreter's `configparser` (A1 set, A2 write/read of a value, A3 option names, A4 interpolation)
against the real module.

Families
  render       _render_ini_value for every value kind (int: 0, negative, huge; bool; float under vary_rounds and elsewhere; text with
               '%', blanks, commas; lists incl. [] and ['auto']; None) × every key kind × category prefixes
  splitcomma   passlib.utils.splitcomma on generated comma texts (blanks of every `str.isspace` kind, trailing / doubled commas)
  cfgp-*       configparser: set() accepting escaped text, write→read of `key = value`, option names, BasicInterpolation on get
  normscheme / normctx / initopt / schemelist   the per-option coercions on typed and on textual values
  renderall    what `_write_to_parser` hands to the parser for real contexts (typed configurations generated here) + oracle: the
               layout of `to_string()` is `[passlib]\\n` + `key = value\\n`… + `\\n`
  parseback    INI lines (exported and hand-written) → `_parse_ini_stream` + `_init_scheme_list` + `_init_options` + `iter_config`
               (staged) and, for loadable configurations, `CryptContext.from_string(text).to_dict()`
  roundtrip    typed configuration of a real context → model render + parse back  vs  `from_string(ctx.to_string()).to_dict()`

Run alone:  PASSLIB_REPO=/tmp/repo_clean /venv/bin/python tools/corr/c10_ini.py [--tier quick|thorough] [--seed N]
"""
from __future__ import annotations

import os
import sys
import time as _time

if __name__ == "__main__":
    _T = os.path.dirname(os.path.dirname(os.path.abspath(__file__)))
    sys.path.insert(0, _T)
    sys.path.insert(0, os.environ.get("PASSLIB_REPO", "/repo"))
    __package__ = "corr"

from .common import Oracle, Suite, errname, merge  # noqa: E402

LEAN_TARGETS = ["PasslibVerif.Props.C10Ini"]
ASSUMPTIONS = [
    "configparser A1: ConfigParser.set accepts a value with no '%' left after value.replace('%%','') (checked: cfgp-set)",
    "configparser A2: write() then read_file() of `key = value` (no newline in value) gives value.strip() (checked: cfgp-read)",
    "configparser A3: an option name of letters/digits/'_'/'.'/'-' is read back lower-cased (checked: cfgp-key)",
    "configparser A4: items() maps '%%' to '%', a lone '%' is InterpolationSyntaxError; '%(' references are not modelled (checked: cfgp-interp)",
    "floats are opaque atoms (their two-decimal and repr texts are taken from the interpreter); whether float(text) raises is an input of the model",
    "the registry is a parameter: names resolve to themselves (registered names + the harness hashers)",
    "CPython's int/str conversion limit (more than 4300 digits) is not modelled",
    "the model stops at the configuration dictionary (_init_scheme_list + _init_options + iter_config item by item, order not modelled); what the "
    "hashers' using() makes of a value is outside it",
]

HARNESS = ["verif_ini_any", "v9_x_2"]
WS = [9, 10, 11, 12, 13, 28, 29, 30, 31, 32, 133, 160, 5760, 8192, 8232, 8233, 8239, 8287, 12288]


# ---------------------------------------------------------------------------------------------------------------------------
# wire format
# ---------------------------------------------------------------------------------------------------------------------------
def cps(s) -> str:
    return ",".join(str(ord(c)) for c in s) if s else "-"


def uncps(w: str) -> str:
    return "" if w == "-" else "".join(chr(int(x)) for x in w.split(","))


def opt(v) -> str:
    return "N" if v is None else cps(v)


def wlist(l) -> str:
    return "l:" + ";".join(cps(x) for x in l)


def wl(l) -> str:
    """a list argument of the protocol (not a value): '@' = empty"""
    return ";".join(cps(x) for x in l) or "@"


class Unwireable(Exception):
    pass


def wval(v) -> str:
    if v is None:
        return "n"
    if isinstance(v, bool):
        return "b:1" if v else "b:0"
    if isinstance(v, int):
        return f"i:{v}"
    if isinstance(v, float):
        return f"f:{0 if v else 1}:{cps(f'{v:.2f}')}:{cps(str(v))}"
    if isinstance(v, str):
        return "s:" + cps(v)
    if isinstance(v, (list, tuple)) and all(isinstance(x, str) for x in v):
        return wlist(v)
    raise Unwireable(repr(v))


def wval_out(v) -> str:
    """a value as the real code produced it (floats by their repr: the model's `F:` atoms are canonicalised to the same)"""
    if isinstance(v, float):
        return "fl:" + repr(v)
    return wval(v)


def canon_val(tok: str) -> str:
    if tok.startswith("F:"):
        _, p, t = tok.split(":")
        x = float(uncps(t))
        return "fl:" + repr(x * 0.01 if p == "1" else x)
    if tok.startswith("f:"):
        return "fl:" + uncps(tok.split(":")[3])
    return tok


def canon_items(ans: str) -> str:
    """model / impl answer of parseback / roundtrip: items sorted, float atoms by value"""
    if not ans.startswith("ok "):
        return ans
    body = ans[3:]
    if body == "-":
        return "ok -"
    items = []
    for it in body.split(" | "):
        c, s, o, v = it.split(" ")
        items.append(f"{c} {s} {o} {canon_val(v)}")
    return "ok " + " | ".join(sorted(items))


def canon_any(ans: str) -> str:
    if ans.startswith("ok ") and (" | " in ans or ans.count(" ") == 4):
        try:
            return canon_items(ans)
        except Exception:  # noqa: BLE001
            return ans
    if ans.startswith("ok F:") or ans.startswith("ok f:"):
        return "ok " + canon_val(ans[3:])
    return ans


def ename(e) -> str:
    import configparser

    if isinstance(e, configparser.InterpolationSyntaxError):
        return "ValueError"          # the model's stand-in for InterpolationSyntaxError
    return errname(e)


def ans(thunk) -> str:
    try:
        return "ok " + thunk()
    except Exception as e:  # noqa: BLE001
        return "err " + ename(e)


def float_ok(t: str) -> bool:
    try:
        float(t)
        return True
    except ValueError:
        return False


def vary_bit(values) -> str | None:
    """the `floatOk` input of the model for a request: what float() says about the texts the code would hand to it"""
    bits = set()
    for t in values:
        if not isinstance(t, str):
            continue
        if t.endswith("%"):
            bits.add(float_ok(t.rstrip("%")))
        else:
            try:
                int(t)
            except ValueError:
                bits.add(float_ok(t))
    if len(bits) > 1:
        return None
    return "1" if (bits.pop() if bits else True) else "0"


# ---------------------------------------------------------------------------------------------------------------------------
# harness hashers: accept any setting (so that every option kind can travel through a real context)
# ---------------------------------------------------------------------------------------------------------------------------
def install_harness():
    import passlib.utils.handlers as uh
    from passlib import registry

    out = []
    for nm in HARNESS:
        if registry.get_crypt_handler(nm, None) is not None:
            out.append(registry.get_crypt_handler(nm))
            continue

        def using(cls, relaxed=False, **kwds):
            sub = type(cls.__name__, (cls,), {"_verif_settings": dict(kwds)})
            return sub

        def _calc_checksum(self, secret):
            import hashlib

            if isinstance(secret, str):
                secret = secret.encode("utf-8")
            return hashlib.md5(secret).hexdigest()[:8]

        cls = type(nm, (uh.StaticHandler,), {
            "name": nm, "_hash_prefix": "$" + nm + "$", "checksum_chars": uh.LOWER_HEX_CHARS, "checksum_size": 8,
            "using": classmethod(using), "_calc_checksum": _calc_checksum, "__module__": __name__})
        registry.register_crypt_handler(cls, force=True)
        out.append(cls)
    return out


class Recorder:
    """stands where the ConfigParser stands in `_write_to_parser`: records what passlib hands over"""

    def __init__(self):
        self.lines = []

    def add_section(self, section):
        self.section = section

    def set(self, section, k, v):
        self.lines.append((k, v))


def wlines(lines) -> str:
    return " ".join(f"{cps(k)}={cps(v)}" for k, v in lines)


def stored_key(k: str):
    """the key an option line ends up under (two lines with the same stored key overwrite each other in the real dict; the model is item by item)"""
    from passlib.context import CryptContext

    try:
        cat, scheme, key = CryptContext._parse_config_key(k.lower())
    except Exception:  # noqa: BLE001
        return k
    if not cat and not scheme and key in ("vary_rounds", "truncate_error"):
        scheme = "all"
    return (cat, scheme, key)


def new_config(schemes=()):
    from passlib.context import _CryptConfig

    cfg = object.__new__(_CryptConfig)
    cfg.schemes = tuple(schemes)
    return cfg


def stored_item(cfg):
    """the single item `_init_options` stored, as (cat, scheme, key), value"""
    for scheme, cm in cfg._scheme_options.items():
        for cat, om in cm.items():
            for key, value in om.items():
                return (cat, scheme, key), value
    for key, cm in cfg._context_options.items():
        for cat, value in cm.items():
            return (cat, None, key), value
    raise AssertionError("nothing stored")


def witem(k, v) -> str:
    return f"{opt(k[0])} {opt(k[1])} {cps(k[2])} {wval_out(v)}"


def staged_load(text):
    """`load(text)` up to the exported configuration: _parse_ini_stream, key parsing, _init_scheme_list, _init_options, iter_config"""
    from io import StringIO

    from passlib.context import CryptContext

    kwds = CryptContext._parse_ini_stream(StringIO(text), "passlib", "<verif>")
    source = dict((CryptContext._parse_config_key(k), v) for k, v in kwds.items())
    cfg = new_config()
    cfg._init_scheme_list(source.get((None, None, "schemes")))
    cfg._init_options(source)
    return " | ".join(witem(k, v) for k, v in cfg.iter_config()) or "-"


def text_of_lines(lines):
    """INI text with the given option lines, produced by the real ConfigParser (what `to_string` does after `_write_to_parser`)"""
    from configparser import ConfigParser
    from io import StringIO

    p = ConfigParser()
    p.add_section("passlib")
    for k, v in lines:
        p.set("passlib", k, v)
    buf = StringIO()
    p.write(buf)
    return buf.getvalue()


# ---------------------------------------------------------------------------------------------------------------------------
# generators
# ---------------------------------------------------------------------------------------------------------------------------
INTS = [0, 1, -1, 7, 10, -10, 99, 100, 1000, 5000, 29000, 2**31 - 1, 2**31, -2**31, 2**63, -2**64, 10**18, 10**40, -(10**40), 10**400,
        -(10**1000) + 1, 10**4000]
FLOATS = [0.0, -0.0, 0.1, 0.12, 0.125, 0.5, 1.0, 0.999, 0.004, 0.005, 0.015, 1e-9, 2.5, 10.0, 100.0, 1e22, -0.25, float("inf"), float("nan")]
TEXTS = ["", "x", "2a", "2b", "auto", "a%b", "%", "%%", "100%", "a%%b%", "%(x)s", "%(schemes)s", " lead", "trail ", " both ", "\tq\t", "a b",
         "a, b", "a,b", ",", ", ", "x # y", "; z", "# c", "= 1", ": 1", "k = v", "[passlib]", "True", "False", "none", "0", "00012", "-5", " 1_000 ",
         "1__0", "+7", "٣٤", "１２", "1e3", "0.1", "10%", "12.5%", "%5", "5%%", "ａ", "é", " x", "x ", "\x1cx\x1f", "a\nb", "a\n b", "a\r\nb", "a\rb", "tab\there",
         "sha256_crypt", "sha256_crypt, md5_crypt", "sha256_crypt,md5_crypt,", " sha256_crypt ,  md5_crypt ", "a,,b", "Σ", "İ"]
NAMES = ["sha256_crypt", "sha512_crypt", "md5_crypt", "des_crypt", "bcrypt", "pbkdf2_sha256", "ldap_md5", "ldap_salted_sha1", "phpass",
         "bsdi_crypt", "ldap_pbkdf2_sha1", "cta_pbkdf2_sha1", "scrypt", "plaintext"] + HARNESS
CATS = [None, "admin", "staff", "a_b9"]
INT_OPTS = ["min_rounds", "max_rounds", "default_rounds", "salt_size"]
OTHER_OPTS = ["vary_rounds", "rounds", "truncate_error", "ident", "foo", "salt", "relaxed", "x9_y"]
CTX_OPTS = ["schemes", "default", "deprecated", "min_verify_time", "harden_verify", "foo"]


def all_values(rng, extra_lists=()):
    vals = list(INTS) + [True, False, None] + list(FLOATS) + list(TEXTS)
    vals += [[], ["auto"], ["sha256_crypt"], ["sha256_crypt", "md5_crypt"], ["md5_crypt", "auto"], ["a b", "c"], ["x%y", "z"], ["v9_x_2", "ldap_pbkdf2_sha1"],
             ("des_crypt", "bcrypt"), [""], ["", ""], ["a,b"], [" a"], ["a "], ["a", ""]]
    vals += list(extra_lists)
    return vals


def gen_keys():
    keys = []
    for cat in CATS:
        for scheme in [None, "sha256_crypt", "all", "verif_ini_any"]:
            for o in INT_OPTS + OTHER_OPTS + CTX_OPTS:
                keys.append((cat, scheme, o))
    return keys


def rand_text(rng, n=None):
    alpha = "ab9_%, \t,%%\n-  " + "".join(chr(c) for c in (28, 31, 133, 12288)) + "x(s)="
    return "".join(rng.choice(alpha) for _ in range(rng.randrange(0, 9) if n is None else n))


def function_level(ctx, s_m):
    import passlib.utils as pu
    from passlib.context import CryptContext

    rng = ctx.rng
    keys = gen_keys()
    vals = all_values(rng)
    # ---- render: every value kind × key kinds (the key only matters through key[2] == 'vary_rounds')
    rkeys = [(None, None, "schemes"), (None, None, "deprecated"), ("admin", None, "default"), (None, "sha256_crypt", "min_rounds"),
             ("admin", "sha256_crypt", "vary_rounds"), (None, "all", "vary_rounds"), (None, "verif_ini_any", "foo"), ("a_b9", "bcrypt", "truncate_error")]
    extra = [rand_text(rng) for _ in range(300 if not ctx.thorough else 5000)] + [rng.randrange(-10**30, 10**30) for _ in range(100)]
    extra += [rng.random() for _ in range(100)] + [rng.choice([-1, 1]) * rng.random() * 10 ** rng.randrange(-6, 25) for _ in range(100)]
    extra += [[rand_text(rng) for _ in range(rng.randrange(0, 4))] for _ in range(200)]
    for k in rkeys:
        for v in vals + extra:
            kind = type(v).__name__
            s_m.add(f"cini render {opt(k[0])} {opt(k[1])} {cps(k[2])} {wval(v)}", lambda k=k, v=v: cps(CryptContext._render_ini_value(k, v)),
                    "render:" + kind + (":vary" if k[2] == "vary_rounds" else ""))
    # ---- splitcomma
    sc = list(TEXTS) + [rand_text(rng) for _ in range(600 if not ctx.thorough else 20000)]
    sc += [chr(w) + "a" + chr(w) + "," + chr(w) + "b" + chr(w) for w in WS] + [", ".join(l) for l in (["a"], ["a", "b"], [], ["x", "y", "z"])]
    for t in sc:
        s_m.add(f"cini splitcomma {cps(t)}", lambda t=t: wlist(pu.splitcomma(t)), "splitcomma")
    # ---- _norm_scheme_option
    cfg = new_config()
    for key in INT_OPTS + OTHER_OPTS:
        for v in vals + extra[:150]:
            bit = vary_bit([v])
            s_m.add(f"cini normscheme {bit} {cps(key)} {wval(v)}", lambda key=key, v=v: wval_out(cfg._norm_scheme_option(key, v)[1]),
                    "normscheme:" + ("int-coerced" if key in INT_OPTS else key if key in ("vary_rounds", "salt") else "other") + ":" + type(v).__name__)
    # ---- _norm_context_option
    for schemes in ([], ["sha256_crypt", "md5_crypt"], ["auto"], ["v9_x_2"]):
        c2 = new_config(schemes)
        for key in CTX_OPTS + ["min_rounds"]:
            for v in vals + [["nosuch"], "nosuch", "md5_crypt", ["md5_crypt"], "md5_crypt, sha256_crypt", "auto, md5_crypt", " auto ", "auto,"]:
                s_m.add(f"cini normctx {wl(schemes)} {cps(key)} {wval(v)}",
                        lambda c2=c2, key=key, v=v: wval_out(c2._norm_context_option(None, key, v)[1]), "normctx:" + key + ":" + type(v).__name__)
    # ---- _init_options, one item
    some_vals = [0, -5, 10**40, True, False, None, 0.5, "", "12", " 1_000 ", "abc", "10%", "a%b", "auto", "md5_crypt", "nosuch", "md5_crypt, sha256_crypt",
                 [], ["auto"], ["md5_crypt"], ["nosuch"], ["auto", "md5_crypt"]]
    for schemes in ([], ["sha256_crypt", "md5_crypt"]):
        for k in keys + [("", None, "default"), (None, "", "min_rounds"), ("", "", "vary_rounds"), ("admin", "", "schemes")]:
            for v in some_vals:
                def run(schemes=schemes, k=k, v=v):
                    c3 = new_config(schemes)
                    c3._init_options({k: v})
                    return witem(*stored_item(c3))
                bit = vary_bit([v])
                s_m.add(f"cini initopt {bit} {wl(schemes)} {opt(k[0])} {opt(k[1])} {cps(k[2])} {wval(v)}", run,
                        "initopt:" + ("ctx" if not k[1] else "scheme") + (":cat" if k[0] else "") + ":" + type(v).__name__)
    # ---- _init_scheme_list
    for v in [None, "", "sha256_crypt", "sha256_crypt, md5_crypt", "sha256_crypt,md5_crypt,", " v9_x_2 , verif_ini_any ", "nosuch_scheme_x", "md5_crypt, md5_crypt",
              [], ["sha256_crypt"], ["md5_crypt", "sha256_crypt", "md5_crypt"], ["nosuch_scheme_x"], ["_private"], [""], "a,,b", ",", 0, 5, True, False, 0.0, 1.5,
              ["ldap_pbkdf2_sha1", "v9_x_2"], ("des_crypt", "bcrypt")]:
        def run(v=v):
            c4 = new_config()
            c4._init_scheme_list(v)
            return wlist(c4.schemes)
        s_m.add(f"cini schemelist {wl(HARNESS)} {'N' if v is None else wval(v)}", run, "schemelist:" + type(v).__name__)
    # ---- as_bool of the rendered booleans (the consumer of truncate_error)
    import passlib.utils.handlers as uh

    class T(uh.TruncateMixin, uh.StaticHandler):
        name = "verif_trunc"
        truncate_size = 8

    for parent in (False, True):
        for v in ["True", "False", "true", " FALSE ", "0", "1", "yes", "no", "none", "", "maybe", True, False, None, "İ", "ON"]:
            P = type("P", (T,), {"truncate_error": parent})
            s_m.add(f"cini asbool {int(parent)} {wval(v)}", lambda P=P, v=v: str(int(P.using(truncate_error=v).truncate_error)), "asbool:" + type(v).__name__)


def configparser_assumptions(ctx, s_m):
    """A1–A4 against the interpreter's configparser"""
    from configparser import ConfigParser
    from io import StringIO

    rng = ctx.rng
    texts = list(TEXTS) + [rand_text(rng) for _ in range(800 if not ctx.thorough else 20000)]
    texts += [t.replace("%", "%%") for t in texts if "%" in t]
    texts += [chr(w) + "v" + chr(w) for w in WS] + [chr(w) for w in WS]

    def a1(t):
        p = ConfigParser()
        p.add_section("passlib")
        p.set("passlib", "k", t)
        return "accepted"

    def a2(t):
        p = ConfigParser(interpolation=None)
        p.add_section("passlib")
        p.set("passlib", "some__key", t)
        buf = StringIO()
        p.write(buf)
        q = ConfigParser()
        q.read_file(StringIO(buf.getvalue()), "<verif>")
        assert q.options("passlib") == ["some__key"], q.options("passlib")
        return cps(q.get("passlib", "some__key", raw=True))

    def a3(k):
        p = ConfigParser(interpolation=None)
        p.add_section("passlib")
        p.set("passlib", k, "v")
        buf = StringIO()
        p.write(buf)
        q = ConfigParser()
        q.read_file(StringIO(buf.getvalue()), "<verif>")
        (o,) = q.options("passlib")
        assert q.get("passlib", o) == "v"
        return cps(o)

    def a4(t):
        p = ConfigParser()
        return cps(p._interpolation.before_get(p, "passlib", "k", t, {}))

    def a4b(t):
        """the same through the public path: read the raw text, items()"""
        q = ConfigParser()
        q.read_dict({"passlib": {}})
        q._sections["passlib"]["k"] = t
        return cps(dict(q.items("passlib"))["k"])

    def chan(k, v):
        text = text_of_lines([(k, v)])
        q = ConfigParser()
        q.read_file(StringIO(text), "<verif>")
        ((k2, v2),) = q.items("passlib")
        return f"{cps(k2)}={cps(v2)}"

    def ce(f):
        """configparser's own error classes under the names the model uses"""
        import configparser

        def run(*a):
            try:
                return f(*a)
            except configparser.InterpolationSyntaxError as e:
                raise ValueError(str(e)) from None
        return run

    a4, a4b, chan = ce(a4), ce(a4b), ce(chan)
    for t in texts:
        s_m.add(f"cini cfgp-set {cps(t)}", lambda t=t: a1(t), "cfgp-set(A1)")
        s_m.add(f"cini cfgp-read {cps(t)}", lambda t=t: a2(t), "cfgp-read(A2)")
        s_m.add(f"cini cfgp-interp {cps(t)}", lambda t=t: a4(t), "cfgp-interp(A4)")
        s_m.add(f"cini cfgp-interp {cps(t)}", lambda t=t: a4b(t), "cfgp-interp-items(A4)")
    keys = ["schemes", "sha256_crypt__min_rounds", "admin__context__default", "Admin__sha256_crypt__min_rounds", "A.b.C", "x-y", "ldap_pbkdf2_sha1__salt_size",
            "ÀB", "k k", "k=v", "k:v", "#k", ";k", "[k]", " k", "k ", "", "K9_", "ǅ", "İx"]
    keys += ["".join(rng.choice("abcXYZ019_.-") for _ in range(rng.randrange(1, 12))) for _ in range(300)]
    for k in keys:
        s_m.add(f"cini cfgp-key {cps(k)}", lambda k=k: a3(k), "cfgp-key(A3)")
    for k in keys[:8] + keys[-40:]:
        for t in texts[:: max(1, len(texts) // 60)]:
            s_m.add(f"cini cfgp-channel {cps(k)} {cps(t)}", lambda k=k, t=t: chan(k, t), "cfgp-channel(A1-A4)")


def gen_context_kwds(rng, ctx):
    """typed constructor keywords: every option kind × category prefixes × boundary values"""
    names = rng.sample(NAMES, rng.randrange(0, 5))
    if rng.random() < 0.6 and "verif_ini_any" not in names:
        names.append("verif_ini_any")
    kw = {}
    if names or rng.random() < 0.5:
        kw["schemes"] = list(names) if rng.random() < 0.8 else ", ".join(names)
    cats = rng.sample(CATS, rng.randrange(1, 4))
    for cat in cats:
        pre = (cat + "__context__") if cat else ""
        if names and rng.random() < 0.5:
            kw[pre + "default"] = rng.choice(names)
        if rng.random() < 0.6:
            r = rng.random()
            if r < 0.25:
                dep = ["auto"]
            elif r < 0.4:
                dep = []
            else:
                dep = [n for n in names if n != kw.get(pre + "default") and n != kw.get("default") and rng.random() < 0.5]
                if len(dep) == len(names):
                    dep = dep[1:]
            kw[pre + "deprecated"] = dep if rng.random() < 0.7 else ", ".join(dep)
    for _ in range(rng.randrange(0, 7)):
        cat = rng.choice(cats)
        scheme = rng.choice(names + ["all"]) if names else "all"
        pre = (cat + "__" if cat else "") + scheme + "__"
        free = scheme in HARNESS
        r = rng.random()
        if free:
            o = rng.choice(INT_OPTS + ["vary_rounds", "rounds", "truncate_error", "ident", "foo", "x9_y"])
            if o in INT_OPTS:
                v = rng.choice(INTS + [str(rng.choice(INTS[:14])), " 12 ", "1_0", True, None])
            elif o == "vary_rounds":
                v = rng.choice(INTS[:12] + FLOATS[:14] + ["10%", "12.5%", "0.1", "7", " 3 "])
            else:
                v = rng.choice(TEXTS + INTS[:8] + [True, False, None, 0.5])
            kw[pre + o] = v
        elif scheme == "all":
            o = rng.choice(["vary_rounds", "truncate_error"])
            kw[pre + o] = rng.choice([0, 10, 0.1, 0.125, "10%", 1.0]) if o == "vary_rounds" else rng.choice([True, False, "true", "no"])
        elif scheme in ("sha256_crypt", "sha512_crypt", "pbkdf2_sha256", "ldap_pbkdf2_sha1", "cta_pbkdf2_sha1"):
            o = rng.choice(["min_rounds", "max_rounds", "default_rounds", "vary_rounds", "rounds", "salt_size"])
            kw[pre + o] = {"min_rounds": rng.choice([1000, 1001, "1000", " 1_500 "]), "max_rounds": rng.choice([200000, 10**8, "99999"]),
                           "default_rounds": rng.choice([5000, "5001"]), "vary_rounds": rng.choice([0, 10, 0.1, "10%", 0.125, 0.05, 1.0]),
                           "rounds": rng.choice([5000, "5000"]), "salt_size": rng.choice([4, 8, "8", 16])}[o]
        elif scheme in ("des_crypt", "bcrypt"):
            kw[pre + "truncate_error"] = rng.choice([True, False, "True", "false", "yes"])
        elif scheme == "phpass":
            kw[pre + "ident"] = rng.choice(["P", "H"])
    return kw


def context_level(ctx, s_m, o_a):
    from passlib.context import CryptContext

    rng = ctx.rng
    n = 600 if not ctx.thorough else 8000
    fixed = [
        {}, {"schemes": []}, {"schemes": ["sha256_crypt"], "deprecated": []}, {"schemes": ["sha256_crypt", "md5_crypt"], "deprecated": ["auto"]},
        {"schemes": ["sha256_crypt", "md5_crypt"], "admin__context__deprecated": "auto", "deprecated": ["md5_crypt"]},
        {"schemes": ["verif_ini_any"], "verif_ini_any__foo": "a%b%%c", "verif_ini_any__x9_y": "%(schemes)s"},
        {"schemes": ["verif_ini_any"], "verif_ini_any__foo": " lead and trail ", "admin__verif_ini_any__foo": "\tx"},
        {"schemes": ["verif_ini_any"], "verif_ini_any__foo": "a\nb"}, {"schemes": ["verif_ini_any"], "verif_ini_any__foo": None},
        {"schemes": ["verif_ini_any"], "verif_ini_any__salt_size": True}, {"schemes": ["verif_ini_any"], "verif_ini_any__min_rounds": -(10**40)},
        {"schemes": ["verif_ini_any"], "verif_ini_any__min_rounds": 0, "verif_ini_any__max_rounds": 10**400, "a_b9__verif_ini_any__default_rounds": -1},
        {"schemes": ["sha256_crypt"], "sha256_crypt__vary_rounds": 0.125}, {"schemes": ["sha256_crypt"], "all__vary_rounds": "10%"},
        {"schemes": ["sha256_crypt"], "vary_rounds": 0.1, "truncate_error": True}, {"schemes": ["bcrypt_sha256"], "bcrypt_sha256__version": 2},
        {"schemes": ["sha256_crypt"], "Admin__sha256_crypt__min_rounds": 2000}, {"schemes": ["v9_x_2", "ldap_pbkdf2_sha1"], "default": "v9_x_2"},
        {"schemes": ["des_crypt"], "des_crypt__truncate_error": False}, {"schemes": ["verif_ini_any"], "verif_ini_any__ident": "2a"},
        {"schemes": ["verif_ini_any"], "verif_ini_any__foo": ""}, {"schemes": ["verif_ini_any"], "verif_ini_any__foo": "x # not a comment ; really"},
    ]
    for i in range(len(fixed) + n):
        kw = fixed[i] if i < len(fixed) else gen_context_kwds(rng, ctx)
        try:
            c = CryptContext(**kw)
        except Exception as e:  # noqa: BLE001
            s_m.dist["construct:" + ename(e)] += 1
            continue
        items = list(c._config.iter_config())
        try:
            witems = " ".join(f"{opt(k[0])} {opt(k[1])} {cps(k[2])} {wval(v)}" for k, v in items)
        except Unwireable:
            continue
        kinds = "+".join(sorted({type(v).__name__ for _, v in items})) or "empty"

        # what passlib hands to the parser
        def handed(c=c):
            r = Recorder()
            c._write_to_parser(r, "passlib")
            return wlines(r.lines) or "-"
        s_m.add(f"cini renderall {witems}".rstrip(), handed, "renderall")
        try:
            text = c.to_string()
        except Exception as e:  # noqa: BLE001
            text = None
            s_m.dist["to_string:" + ename(e)] += 1
        if text is None:
            # the model must refuse too (None value: assertion)
            s_m.add(f"cini roundtrip 1 {wl(HARNESS)} {witems}", lambda c=c: c.to_string(), "roundtrip:to_string-raises")
            continue
        # layout of to_string (A2, write side)
        r = Recorder()
        c._write_to_parser(r, "passlib")
        want = "[passlib]\n" + "".join(k.lower() + " = " + v.replace("\n", "\n\t") + "\n" for k, v in r.lines) + "\n"
        o_a.check("to_string-layout", text == want, {"kwds": repr(kw)}, text, want)
        # only the texts that reach _coerce_vary_rounds matter for the float bit
        bit = vary_bit([v.replace("%%", "%").strip() for k, v in r.lines if k.endswith("vary_rounds")])
        if bit is None:
            s_m.dist["skipped:mixed-float-texts"] += 1
            continue
        s_m.add(f"cini roundtrip {bit} {wl(HARNESS)} {witems}".rstrip(), lambda text=text: staged_load(text), "roundtrip-staged:" + kinds)

        def full(text=text):
            c2 = CryptContext.from_string(text)
            d = c2.to_dict()
            return " | ".join(witem(CryptContext._parse_config_key(k), v) for k, v in d.items()) or "-"
        staged_ok = True
        try:
            staged_load(text)
        except Exception:  # noqa: BLE001
            staged_ok = False
        try:
            full_ans = "ok " + full()
        except Exception as e:  # noqa: BLE001
            full_ans = "err " + ename(e)
            if staged_ok:
                # the configuration stage accepted the text; a hasher's using() refused a value: outside the model, recorded
                s_m.dist["from_string-raises-after-the-configuration-stage:" + ename(e)] += 1
                ctx.notes.append(f"hasher refuses its own exported text: {kw!r}: {type(e).__name__}: {e}")
                full_ans = None
        if full_ans is not None:
            s_m.add_raw(f"cini roundtrip {bit} {wl(HARNESS)} {witems}".rstrip(), full_ans, "roundtrip-from_string:" + kinds)
        s_m.add(f"cini parseback {bit} {wl(HARNESS)} {wlines(r.lines)}".rstrip(), lambda text=text: staged_load(text), "parseback-exported")
    # ---- hand-written option lines
    hand = [
        [("schemes", "sha256_crypt, md5_crypt ,"), ("default", "md5_crypt")], [("schemes", "sha256_crypt"), ("deprecated", "auto")],
        [("schemes", "sha256_crypt, md5_crypt"), ("deprecated", "auto, md5_crypt")], [("schemes", "sha256_crypt"), ("default", "nosuch")],
        [("schemes", "sha256_crypt"), ("deprecated", "md5_crypt")], [("schemes", "sha256_crypt"), ("sha256_crypt__min_rounds", " 1_000 ")],
        [("schemes", "sha256_crypt"), ("sha256_crypt__min_rounds", "abc")], [("schemes", "sha256_crypt"), ("sha256_crypt__min_rounds", "")],
        [("schemes", "verif_ini_any"), ("verif_ini_any__vary_rounds", "10%%")], [("schemes", "verif_ini_any"), ("verif_ini_any__vary_rounds", "abc")],
        [("schemes", "verif_ini_any"), ("verif_ini_any__vary_rounds", "abc%%")], [("schemes", "verif_ini_any"), ("verif_ini_any__vary_rounds", "0.25")],
        [("schemes", "verif_ini_any"), ("verif_ini_any__vary_rounds", "%%")], [("schemes", "verif_ini_any"), ("verif_ini_any__vary_rounds", "1%%%%")],
        [("schemes", "verif_ini_any"), ("verif_ini_any__salt", "abc")], [("schemes", "sha256_crypt"), ("admin__context__schemes", "sha256_crypt")],
        [("schemes", "sha256_crypt"), ("foo", "1")], [("schemes", "sha256_crypt"), ("min_verify_time", "1")], [("schemes", "sha256_crypt"), ("harden_verify", "true")],
        [("a__b__c__d", "1")], [("schemes", "")], [("schemes", ",")], [("schemes", "md5_crypt, md5_crypt")], [("schemes", "nosuch_scheme_x")],
        [("Schemes", "md5_crypt")], [("schemes", "sha256_crypt"), ("Admin__SHA256_crypt__Min_Rounds", "12")], [("schemes", "sha256_crypt"), ("vary_rounds", "5")],
        [("schemes", "sha256_crypt"), ("truncate_error", "True")], [("schemes", "sha256_crypt"), ("all.truncate_error", "false")],
        [("schemes", "sha256_crypt"), ("admin.sha256_crypt.min_rounds", "7")], [("default", "anything")], [("deprecated", "x, y")], [("deprecated", "auto,")],
        [("schemes", "verif_ini_any"), ("verif_ini_any__foo", "%%(schemes)s")], [("schemes", "verif_ini_any"), ("verif_ini_any__foo", "100%%")],
        [("schemes", "verif_ini_any"), ("default__verif_ini_any__rounds", "  12  ")], [("schemes", "verif_ini_any"), ("default__context__default", "verif_ini_any")],
    ]
    for _ in range(300 if not ctx.thorough else 4000):
        lines = [("schemes", rng.choice(["sha256_crypt, md5_crypt", "verif_ini_any", "md5_crypt,verif_ini_any,", "", " v9_x_2 "]))]
        for _ in range(rng.randrange(0, 4)):
            cat = rng.choice(["", "", "admin__", "a_b9.", "default__"])
            sch = rng.choice(["context__", "verif_ini_any__", "sha256_crypt.", "all__"]) if cat else rng.choice(["", "verif_ini_any__", "sha256_crypt__", "all__"])
            o = rng.choice(INT_OPTS + OTHER_OPTS + CTX_OPTS)
            v = rng.choice(TEXTS + [str(x) for x in INTS[:16]] + [rand_text(rng)]).replace("%", "%%")
            if "\n" in v:
                continue
            lines.append((cat + sch + o, v))
        if len({stored_key(k) for k, _ in lines}) != len(lines):
            continue
        hand.append(lines)
    for lines in hand:
        try:
            text = text_of_lines(lines)
        except Exception:  # noqa: BLE001
            continue
        bit = vary_bit([v.replace("%%", "%").strip() for k, v in lines if k.lower().replace(".", "__").endswith("vary_rounds")])
        if bit is None:
            continue
        s_m.add(f"cini parseback {bit} {wl(HARNESS)} {wlines(lines)}".rstrip(), lambda text=text: staged_load(text), "parseback-handwritten")


def findings(ctx, o_f):
    """what the theorems single out as NOT surviving the text form, observed on the real code (informational: recorded, never a mismatch)"""
    from passlib.context import CryptContext

    def probe(tag, kw, shown=None):
        try:
            c = CryptContext(**kw)
            d1 = c.to_dict()
            try:
                text = c.to_string()
            except Exception as e:  # noqa: BLE001
                text = None
                obs = f"export raises {type(e).__name__}: {e}"
            try:
                if text is None:
                    raise StopIteration
                c2 = CryptContext.from_string(text)
                d2 = c2.to_dict()
                obs = "same" if d1 == d2 and all(type(d1[k]) is type(d2[k]) for k in d1) else f"changed: {d1!r} -> {d2!r}"
            except StopIteration:
                pass
            except Exception as e:  # noqa: BLE001
                obs = f"reload raises {type(e).__name__}: {e}"
        except Exception as e:  # noqa: BLE001
            obs = f"construct raises {type(e).__name__}: {e}"
        o_f.dist[tag + ":" + obs.split(":")[0]] += 1
        o_f.cases += 1
        if len(o_f.samples) < 12:
            o_f.samples.append({"line": tag + " " + (shown or repr(kw)), "impl": obs[:200], "model": "(recorded)"})
        return obs

    out = {}
    out["float-two-decimals"] = probe("float-two-decimals", {"schemes": ["sha256_crypt"], "sha256_crypt__vary_rounds": 0.125})
    out["bool-in-int-option"] = probe("bool-in-int-option", {"schemes": ["sha256_crypt"], "sha256_crypt__salt_size": True})
    out["int-option-of-text-refusing-hasher"] = probe("int-option-of-text-refusing-hasher", {"schemes": ["bcrypt_sha256"], "bcrypt_sha256__version": 2})
    out["edge-blanks-in-text"] = probe("edge-blanks-in-text", {"schemes": ["verif_ini_any"], "verif_ini_any__foo": " x "})
    out["upper-case-category"] = probe("upper-case-category", {"schemes": ["sha256_crypt"], "Admin__sha256_crypt__min_rounds": 2000})
    out["newline-in-text"] = probe("newline-in-text", {"schemes": ["verif_ini_any"], "verif_ini_any__foo": "a\n\nb"})
    out["none-value"] = probe("none-value", {"schemes": ["verif_ini_any"], "verif_ini_any__foo": None})
    out["bool-becomes-text"] = probe("bool-becomes-text", {"schemes": ["des_crypt"], "des_crypt__truncate_error": False})
    out["int-becomes-text"] = probe("int-becomes-text", {"schemes": ["sha256_crypt"], "sha256_crypt__rounds": 5000})
    out["int-4301-digits"] = probe("int-4301-digits", {"schemes": ["verif_ini_any"], "verif_ini_any__min_rounds": 10**4300}, "verif_ini_any__min_rounds = 10**4300")
    return out


def model_suite(ctx, s_m):
    import warnings

    warnings.simplefilter("ignore")
    install_harness()
    function_level(ctx, s_m)
    configparser_assumptions(ctx, s_m)


def correspond(ctx):
    import warnings

    warnings.simplefilter("ignore")
    s_m = Suite(ctx, "ini-values", model_canon=canon_any)
    o_a = Oracle(ctx, "to_string-layout")
    o_f = Oracle(ctx, "text-form-findings")
    model_suite(ctx, s_m)
    # the impl side of item answers goes through the same canonical form
    context_level(ctx, s_m, o_a)
    s_m.impl = [canon_any(x) for x in s_m.impl]
    ctx.notes.append("findings: " + repr(findings(ctx, o_f)))
    return merge(s_m, o_a, o_f)


if __name__ == "__main__":
    import argparse
    import json

    from runner import Ctx

    ap = argparse.ArgumentParser()
    ap.add_argument("--tier", default="quick")
    ap.add_argument("--seed", default="0")
    a = ap.parse_args()
    t0 = _time.time()
    cx = Ctx("C10", a.tier, a.seed)
    res = correspond(cx)
    bad = 0
    for name, r in res["suites"].items():
        bad += len(r["mismatches"])
        print(name, "cases", r["cases"], "mismatches", len(r["mismatches"]), "unmodelled", r["unmodelled"], "seconds", round(_time.time() - t0, 1))
        print(json.dumps(r["distribution"], indent=0)[:20000])
        for m in r["mismatches"][:10]:
            print("  MISMATCH", json.dumps(m)[:600])
    for nt in cx.notes:
        print(nt)
    sys.exit(1 if bad else 0)
