"""line-level schedule: thread A is preempted inside _load_tables right after PCXROT is published; thread B then makes its first call."""
import sys, threading
import passlib.crypto.des as des

a_paused, b_done = threading.Event(), threading.Event()
def tracer(frame, event, arg):
    if frame.f_code.co_name != "_load_tables":
        return None
    def local(frame, event, arg):
        if event == "line" and des.PCXROT is not None and des.SPE is None and not a_paused.is_set():
            a_paused.set(); b_done.wait(10)
        return local
    return local
out = {}
def A():
    sys.settrace(tracer)
    try: out["A"] = hex(des.des_encrypt_int_block(0x0123456789abcdef, 0, 0, 1))
    except BaseException as e: out["A"] = repr(e)
    finally: sys.settrace(None)
def B():
    a_paused.wait(10)
    try: out["B"] = hex(des.des_encrypt_int_block(0x0123456789abcdef, 0, 0, 1))
    except BaseException as e: out["B"] = repr(e)
    b_done.set()
ta, tb = threading.Thread(target=A), threading.Thread(target=B)
ta.start(); tb.start(); ta.join(); tb.join()
print(out)
sys.exit(0 if out["A"] == out["B"] and out["A"].startswith("0x") else 1)
